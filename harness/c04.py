"""C04 -- table minimisation never changes where any matched key is routed.

The real minimisers (remove_default_routes.minimise, ordered_covering.minimise,
ordered_covering.ordered_covering, minimise_table, minimise_tables) run on
tables whose keys and masks are symbolic bit-vectors; the packet key is a
further symbolic 32-bit value and the router's first-match / default-route
semantics is written here independently of rig's own (untested) checker."""
from sx.runner import Unit
from sx.proxies import sand, sor, snot, ite, const, SymInt, is_sym

PROPERTY = "C04"

F32 = 0xffffffff

META = {
    "bounds": "tables of N <= 3 entries differing inside a window of W = 2 "
              "low bits or N = 2 with W = 3 (quick); N <= 3 with W = 3 and "
              "N = 4 with W = 2 (thorough); 5 entries for default-route "
              "removal alone; thorough also: 5 entries in a 4-bit window, "
              "three fully specified same-route entries followed by two "
              "entries with other routes and concrete masks (1100 and 1001; keys "
              "symbolic), and two shapes in which every bit outside the "
              "window is X in every entry (no bit significant in all "
              "entries; window masks 1011,1110,1101,0101,0011 and "
              "011,110,101,001); otherwise all entries share a symbolic "
              "32-bit prefix P "
              "(optionally with one common X bit outside the window) and "
              "differ only inside the window where both key and mask are fully "
              "symbolic; routes per entry from a fixed pattern over three "
              "route sets; sources per entry from {unknown, the link "
              "opposite the route, another link, two links}; target length "
              "symbolic in [0, N+1] or None; packet key any 32-bit value",
    "stubs": [],
    "assumptions": [
        "well-formed entries: key & ~mask == 0 (entries with key bits "
        "outside the mask match nothing by the library's own documentation)",
        "table discipline as the property states: pairwise non-intersecting "
        "(orthogonal, any order) or listed in non-decreasing generality; "
        "for default-route removal alone: any table",
        "router semantics (independent of rig.routing_table.utils."
        "table_is_subset_of): first entry with pk & mask == key wins; an "
        "unmatched packet that arrived on a link leaves by the opposite link",
    ],
    "outside_claim": ["entries differing in more than W bit positions",
                      "N > 5", "keys with bits set outside the mask"],
}

# route sets and source sets are concrete; only keys/masks are symbolic


def _menus():
    from rig.routing_table import Routes
    R = {"A": frozenset({Routes.north}),
         "B": frozenset({Routes.south}),
         "C": frozenset({Routes.core(1), Routes.east}),
         "D": frozenset({Routes.north_east})}
    return R


def _sources(kind, route):
    """Source sets by kind, relative to the entry's route."""
    from rig.routing_table import Routes
    if kind == "u":
        return {None}
    links = [r for r in route if r.is_link]
    if kind == "d":      # default-routable: the single link opposite
        if len(route) == 1 and links:
            return {links[0].opposite}
        return {Routes.west}
    if kind == "o":      # one other link
        return {Routes.south_west}
    if kind == "m":      # several, one of them unknown
        return {Routes.south_west, Routes.west}
    raise ValueError(kind)


def _src_bits(sources):
    b = 0
    for s in sources:
        b |= (1 << 30) if s is None else (1 << int(s))
    return b


def _defaultable(entry):
    """Hardware default routing reproduces this entry's behaviour."""
    if len(entry.sources) != 1 or len(entry.route) != 1:
        return False
    s = next(iter(entry.sources))
    r = next(iter(entry.route))
    if s is None or not s.is_link or not r.is_link:
        return False
    return s.opposite is r


def lookup(table, pk, rid):
    """First-match lookup as non-forking terms: (matched, route id, source
    bits, defaultable)."""
    matched = False
    route = const(-1)
    src = const(0)
    dflt = False
    for e in reversed(table):
        hit = (pk & e.mask) == e.key
        matched = sor(hit, matched)
        route = ite(hit, const(rid(e.route)), route)
        src = ite(hit, const(_src_bits(e.sources)), src)
        dflt = ite(hit, _defaultable(e), dflt)
    return matched, route, src, dflt


def check_equivalent(ctx, orig, new, pk, label):
    ids = {}

    def rid(route):
        return ids.setdefault(frozenset(route), len(ids))
    mo, ro, so, do = lookup(orig, pk, rid)
    mn, rn, sn, dn = lookup(new, pk, rid)
    ok = sor(snot(mo),
             sand(mn, rn == ro, (sn & so) == so),
             sand(snot(mn), do))
    ctx.prove(ok, label, ("pk", pk, "orig", ro, so, "new", mn, rn, sn))


def _spread(v, bits):
    """Bit i of v moved to position bits[i]."""
    out = 0
    for i, b in enumerate(bits):
        out = out | (((v >> i) & 1) << b)
    return out


def make_table(ctx, n, W, routes, srcs, discipline, common_x, exact=0,
               masks=None, bits=None, nohi=False):
    """`bits`: the W bit positions of the window (default: the low W bits);
    keys and masks are symbolic there and shared / fully specified
    elsewhere."""
    from rig.routing_table import RoutingTableEntry
    from rig.routing_table.utils import intersect
    R = _menus()
    if bits is None:
        bits = tuple(range(W))
    assert len(bits) == W
    plain = tuple(bits) == tuple(range(W))
    win = 0
    for b in bits:
        win |= 1 << b
    lowwin = (1 << W) - 1
    hi = F32 & ~win
    P = ctx.bv("P", 32)
    cx = 0x00010000 if common_x else 0
    assert not (cx & win)
    table = []
    for i in range(n):
        kw = ctx.bv("k", W)
        if masks is not None:
            # window mask chosen by the unit, key symbolic under it
            mw = const(masks[i])
            ctx.assume((kw & ~mw & lowwin) == 0)
        elif i < exact:
            # a fully specified entry (no X inside the window)
            mw = const(lowwin)
        else:
            mw = ctx.bv("m", W)
            ctx.assume((kw & ~mw & lowwin) == 0)
        if not plain:
            kw, mw = _spread(kw, bits), _spread(mw, bits)
        if nohi:
            # every bit outside the window is X in every entry: with the
            # unit's masks no bit is significant in all entries
            key, mask = kw, mw
        else:
            key = (P & (hi & ~cx)) | kw
            mask = const(hi & ~cx) | mw
        route = R[routes[i]]
        table.append(RoutingTableEntry(route, key, mask,
                                       _sources(srcs[i], route)))
    if discipline == "orthogonal":
        for i in range(n):
            for j in range(i + 1, n):
                a, b = table[i], table[j]
                ctx.assume((a.key & b.mask) != (b.key & a.mask))
    elif discipline == "sorted":
        def gen(e):
            g = 0
            for b in bits:
                g = g + ite((e.mask & (1 << b)) == 0, 1, 0)
            return g
        gs = [gen(e) for e in table]
        for i in range(n - 1):
            ctx.assume(gs[i] <= gs[i + 1])
    return table


def _target(ctx, n, mode):
    if mode == "none":
        return None
    return ctx.int("target", 0, n + 1)


def h_min(ctx, which, n, W, routes, srcs, discipline, target, common_x=False,
          exact=0, masks=None, bits=None, nohi=False):
    from rig.routing_table import MinimisationFailedError
    from rig.routing_table import remove_default_routes as rdr
    from rig.routing_table import ordered_covering as oc
    from rig.routing_table import minimise as mm
    import rig.routing_table as rt

    table = make_table(ctx, n, W, routes, srcs, discipline, common_x, exact,
                       masks, bits, nohi)
    orig = list(table)
    snapshot = [(e.route, e.key, e.mask, set(e.sources)) for e in table]
    t = _target(ctx, n, target)
    pk = ctx.bv("pk", 32)
    try:
        if which == "rdr":
            out = rdr.minimise(table, t)
        elif which == "oc":
            out = oc.minimise(table, t)
        elif which == "oc_raw":
            out, aliases = oc.ordered_covering(table, t)
        elif which == "chain":
            out = rt.minimise_table(table, t)
        elif which == "tables":
            res = rt.minimise_tables({(0, 0): table, (1, 0): []}, t)
            ctx.prove((1, 0) not in res or res[(1, 0)] == [],
                      "minimise-tables-empty-chip")
            out = res.get((0, 0), [])
        else:
            raise ValueError(which)
    except MinimisationFailedError as e:
        ctx.witness("failed")
        ctx.observe("MinimisationFailedError", e.target_length,
                    e.final_length)
        ctx.prove(t is not None, "minimise-failed-without-target")
        if t is not None:
            ctx.prove(sand(e.final_length > t, e.final_length <= n,
                           e.target_length == t),
                      "minimise-failed-error-fields",
                      (t, e.final_length, n))
            if which in ("oc", "rdr", "chain"):
                # "reports the best size reached": the size reached without
                # a target by the same method
                try:
                    best = {"oc": oc.minimise, "rdr": rdr.minimise,
                            "chain": rt.minimise_table}[which](table, None)
                    ctx.prove(e.final_length == len(best),
                              "minimise-failed-best-size",
                              (e.final_length, len(best)))
                except Exception as e2:
                    ctx.prove(False, "minimise-unexpected-exception",
                              repr(e2))
        return
    except Exception as e:
        ctx.observe(type(e).__name__)
        ctx.prove(False, "minimise-unexpected-exception", repr(e))
        return
    ctx.witness("returned")
    if len(out) < n:
        ctx.witness("shrunk")
    ctx.observe(len(out), [(sorted(int(r) for r in e.route), e.key, e.mask,
                            sorted(-1 if s is None else int(s)
                                   for s in e.sources)) for e in out])
    ctx.prove(len(out) <= n, "minimise-longer")
    if t is not None:
        ctx.prove(len(out) <= t, "minimise-target-missed", (len(out), t))
    check_equivalent(ctx, orig, out, pk, "minimise-route-changed")
    # the argument is left as it was (also C17)
    same = len(table) == len(snapshot) and all(
        e.route == s[0] and e.sources == s[3] for e, s in zip(table, snapshot))
    ctx.prove(same, "minimise-argument-modified")
    for e, s in zip(table, snapshot):
        ctx.prove(sand(e.key == s[1], e.mask == s[2]),
                  "minimise-argument-modified")
    _check_process_state(ctx)


def _check_process_state(ctx):
    """ordered_covering's `aliases=dict()` default is process-wide state: if
    a minimisation writes into it, later tables (other chips of the same
    minimise_tables call, later calls) are minimised against stale aliases.
    Reported here (and repaired, so that the engine's later paths in this
    worker are meaningful)."""
    from rig.routing_table import ordered_covering as oc
    d = oc.ordered_covering.__defaults__[0]
    clean = isinstance(d, dict) and len(d) == 0
    if not clean and isinstance(d, dict):
        d.clear()
    ctx.prove(clean, "minimise-default-aliases-mutated")


def h_two_chips(ctx, W, routes_a, routes_b, srcs_b, target):
    """minimise_tables over two chips in one call: what was learnt while
    minimising the first chip's table must not leak into the second's (the
    alias map of ordered covering is per table)."""
    from rig.routing_table import MinimisationFailedError
    import rig.routing_table as rt
    na, nb = len(routes_a), len(routes_b)
    # chip A: fully specified entries (they merge), chip B: a table in
    # increasing generality; both under the same symbolic prefix
    ta = make_table(ctx, na, W, routes_a, "u" * na, "orthogonal", False,
                    exact=na)
    tb = make_table(ctx, nb, W, routes_b, srcs_b, "sorted", False)
    orig_a, orig_b = list(ta), list(tb)
    t = _target(ctx, max(na, nb), target if target != "dict" else "sym")
    if target == "dict":
        # per-chip targets: a symbolic one for the second chip, None for the
        # first, no entry needed for absent chips
        t = {(0, 0): None, (1, 0): t}
    pk = ctx.bv("pk", 32)
    tables = {(0, 0): ta, (1, 0): tb}
    _check_process_state(ctx)
    try:
        out = rt.minimise_tables(tables, t)
    except MinimisationFailedError as e:
        ctx.observe("failed", e.final_length)
        ctx.witness("failed")
        ctx.prove(t is not None, "minimise-failed-without-target")
        return
    except Exception as e:
        ctx.observe(type(e).__name__)
        ctx.prove(False, "minimise-unexpected-exception", repr(e))
        return
    ctx.witness("returned")
    oa, ob = out.get((0, 0), []), out.get((1, 0), [])
    if len(oa) < na:
        ctx.witness("first-chip-merged")
    ctx.observe(len(oa), len(ob),
                [(e.key, e.mask, sorted(int(r) for r in e.route))
                 for e in oa + ob])
    ctx.prove(len(oa) <= na and len(ob) <= nb, "minimise-longer")
    if isinstance(t, dict):
        ctx.prove(len(ob) <= t[(1, 0)], "minimise-target-missed",
                  (len(ob), t[(1, 0)]))
    elif t is not None:
        ctx.prove(sand(len(oa) <= t, len(ob) <= t), "minimise-target-missed",
                  (len(oa), len(ob), t))
    check_equivalent(ctx, orig_a, oa, pk, "minimise-route-changed")
    check_equivalent(ctx, orig_b, ob, pk, "minimise-route-changed")
    ctx.prove(set(out) <= {(0, 0), (1, 0)}, "minimise-tables-extra-chip")
    _check_process_state(ctx)


def _matches(pk, km):
    return (pk & km[1]) == km[0]


def _dom(pk, entry, als):
    """pk belongs to what the entry stands for: one of its aliases, or the
    entry itself when it is an original."""
    if als is None:
        return _matches(pk, (entry.key, entry.mask))
    return sor(*[_matches(pk, a) for a in als])


def _step_lookup(table, alias_sets, pk, rid):
    """First match over a table with alias sets: (in domain, route id of the
    first matching entry, source bits of it)."""
    indom = False
    route = const(-1)
    src = const(0)
    for e, als in reversed(list(zip(table, alias_sets))):
        hit = _matches(pk, (e.key, e.mask))
        indom = sor(indom, _dom(pk, e, als))
        route = ite(hit, const(rid(e.route)), route)
        src = ite(hit, const(_src_bits(e.sources)), src)
    return indom, route, src


def _gen(e, W):
    g = 0
    for b in range(W):
        g = g + ite((e.mask & (1 << b)) == 0, 1, 0)
    return g


def _invariant(ctx, table, alias_sets, window_keys, W):
    """I1 sortedness, I2 alias inside entry, I3 no hiding -- as one list of
    conditions (each non-forking)."""
    conds = []
    gs = [_gen(e, W) for e in table]
    for i in range(len(table) - 1):
        conds.append(("I1", gs[i] <= gs[i + 1]))
    for e, als in zip(table, alias_sets):
        for a in (als or ()):
            conds.append(("I2", sand((a[1] & e.mask) == e.mask,
                                     (a[0] & e.mask) == e.key,
                                     (a[0] & ~a[1] & F32) == 0)))
    for j in range(len(table)):
        for i in range(j):
            for k in window_keys:
                conds.append(("I3", sor(
                    snot(_dom(k, table[j], alias_sets[j])),
                    snot(_matches(k, (table[i].key, table[i].mask))),
                    _dom(k, table[i], alias_sets[i]))))
    return conds


def h_step(ctx, W, routes, srcs, n_aliases):
    """One inductive merge step of ordered covering from an arbitrary state
    satisfying the invariant: a generality-sorted table in which entry i is
    either an original (n_aliases[i] == 0) or a merged entry standing for
    n_aliases[i] symbolic aliases.  The real _get_best_merge + _Merge.apply
    run once; the invariant, the domain of keys the table stands for and the
    first-match route of every key of that domain are proved unchanged."""
    from rig.routing_table import ordered_covering as oc
    n = len(routes)
    win = (1 << W) - 1
    hi = F32 & ~win
    table = make_table(ctx, n, W, routes, srcs, "sorted", False)
    P_hi = table[0].key & hi if n else const(0)
    alias_sets = []
    aliases = {}
    for i, e in enumerate(table):
        if not n_aliases[i]:
            alias_sets.append(None)
            continue
        als = []
        for _ in range(n_aliases[i]):
            kw = ctx.bv("ak", W)
            mw = ctx.bv("am", W)
            als.append((P_hi | kw, const(hi) | mw))
        alias_sets.append(als)
        aliases[(e.key, e.mask)] = set(als)
        # a merged entry's key-mask is its own: no other entry shares it
        for j, o in enumerate(table):
            if j != i:
                ctx.assume(snot(sand(o.key == e.key, o.mask == e.mask)))
    window_keys = [P_hi | const(w) for w in range(1 << W)]
    for _name, c in _invariant(ctx, table, alias_sets, window_keys, W):
        ctx.assume(c)
    pk = ctx.bv("pk", 32)
    before = list(table)
    try:
        merge = oc._get_best_merge(table, aliases)
        if merge.goodness <= 0:
            ctx.witness("no-merge")
            ctx.observe("no merge")
            return
        new_table, new_aliases = merge.apply(aliases)
    except Exception as e:
        ctx.observe(type(e).__name__)
        ctx.prove(False, "minimise-unexpected-exception", repr(e))
        return
    ctx.witness("merged")
    ctx.observe(len(new_table), sorted(merge.entries),
                [(e.key, e.mask) for e in new_table])
    ctx.prove(len(new_table) == n - len(merge.entries) + 1
              and all(e is not None for e in new_table), "step-table-size")
    ctx.prove(table == before, "minimise-argument-modified")
    new_sets = []
    for e in new_table:
        s = new_aliases.get((e.key, e.mask))
        new_sets.append(None if s is None else sorted(
            s, key=lambda a: 0))        # any order; keys are symbolic
    if any(s is not None for s in new_sets):
        ctx.witness("aliases-carried")
    ids = {}

    def rid(route):
        return ids.setdefault(frozenset(route), len(ids))
    d0, r0, s0 = _step_lookup(table, alias_sets, pk, rid)
    d1, r1, s1 = _step_lookup(new_table, new_sets, pk, rid)
    same = sor(snot(d0), sand(r0 == r1, (s1 & s0) == s0))
    if not ctx.symbolic and not same:
        # A counterexample of the step obligation is reported only if the
        # property as stated fails through the public API on the table this
        # state stands for (every merged entry expanded into its aliases).
        _confirm_step(table, alias_sets, window_keys, W)
    if not ctx.prove(same, "minimise-route-changed",
                     ("pk", pk, r0, r1, s0, s1)):
        return
    # The invariant is the induction hypothesis, not the property: if the
    # (possibly changed) algorithm no longer re-establishes it, the inductive
    # argument is gone -- inconclusive, never a VIOLATION.
    if ctx.symbolic:
        from sx.engine import Inconclusive
        for name, c in _invariant(ctx, new_table, new_sets, window_keys, W):
            if ctx.reachable(snot(c)):
                raise Inconclusive("inductive merge step: invariant %s is "
                                   "not re-established" % name)
    if ctx.symbolic:
        if ctx.reachable(sand(d0, snot(d1))):
            from sx.engine import Inconclusive
            raise Inconclusive("inductive merge step: the domain of keys "
                               "the table stands for shrinks")


def _confirm_step(table, alias_sets, window_keys, W):
    from sx.engine import Inconclusive
    from rig.routing_table import RoutingTableEntry
    from rig.routing_table import ordered_covering as oc
    expanded = []
    for e, als in zip(table, alias_sets):
        for (k, m) in (als if als is not None else [(e.key, e.mask)]):
            expanded.append(RoutingTableEntry(e.route, k, m, set(e.sources)))
    expanded.sort(key=lambda e: bin(~e.mask & F32).count("1"))
    out, _ = oc.ordered_covering(list(expanded), None)

    def first(tb, k):
        for e in tb:
            if k & e.mask == e.key:
                return e
        return None
    for k in window_keys:
        a, b = first(expanded, k), first(out, k)
        if a is not None and (b is None or a.route != b.route or
                              not set(a.sources) <= set(b.sources)):
            return          # confirmed on a table in the property's domain
    raise Inconclusive("inductive merge step: a step counterexample whose "
                       "pre-state the public API does not reach from the "
                       "expanded table (invariant too weak, or a defect "
                       "only reachable from larger tables)")


def h_twin_chips(ctx, W, routes):
    """minimise_tables over two chips whose tables have the same keys, masks
    and routes and differ only in the sources (a default-routable entry on
    the first chip, the same entry also fed by a local core -- source None --
    on the second): whatever is shared between chips inside one call must
    tell them apart.  The key prefix is concrete here so that code which
    prints or hashes entries does not branch on 32 symbolic bits."""
    from rig.routing_table import MinimisationFailedError, RoutingTableEntry
    import rig.routing_table as rt
    n = len(routes)
    ta = make_table(ctx, n, W, routes, "d" * n, "orthogonal", False)
    P0 = 0x5a5a0000
    win = (1 << W) - 1
    ta = [RoutingTableEntry(e.route, (e.key & win) | (P0 & ~win & F32),
                            (e.mask & win) | (F32 & ~win), set(e.sources))
          for e in ta]
    tb = [RoutingTableEntry(e.route, e.key, e.mask, set(e.sources) | {None})
          for e in ta]
    first = ctx.pick([0, 1])
    order = [((0, 0), ta), ((1, 0), tb)]
    if first:
        order.reverse()
    from collections import OrderedDict
    tables = OrderedDict(order)
    pk = ctx.bv("pk", 32)
    _check_process_state(ctx)
    try:
        out = rt.minimise_tables(tables, None)
    except Exception as e:
        ctx.observe(type(e).__name__)
        ctx.prove(False, "minimise-unexpected-exception", repr(e))
        return
    ctx.witness("returned")
    oa, ob = out.get((0, 0), []), out.get((1, 0), [])
    ctx.observe(len(oa), len(ob))
    if len(oa) < n:
        ctx.witness("shrunk")
    check_equivalent(ctx, ta, oa, pk, "minimise-route-changed")
    check_equivalent(ctx, tb, ob, pk, "minimise-route-changed")
    _check_process_state(ctx)


def h_empty(ctx):
    from rig.routing_table import MinimisationFailedError
    from rig.routing_table import remove_default_routes as rdr
    from rig.routing_table import ordered_covering as oc
    import rig.routing_table as rt
    t = ctx.pick([None, "sym"])
    if t == "sym":
        t = ctx.int("target", 0, 2)
    for name, f in (("rdr", rdr.minimise), ("oc", oc.minimise),
                    ("chain", rt.minimise_table),
                    ("raw", lambda tb, tl: oc.ordered_covering(tb, tl)[0]),
                    ("tables", lambda tb, tl: rt.minimise_tables(
                        {(0, 0): tb}, tl).get((0, 0), []))):
        try:
            out = f([], t)
            ctx.observe(name, len(out))
            ctx.prove(len(out) == 0, "minimise-empty-table", name)
        except MinimisationFailedError as e:
            # only _identity's strict `<` can fail on an empty table with
            # target 0, and then a later method must succeed
            ctx.observe(name, "failed")
            ctx.prove(False, "minimise-empty-table", (name, "failed"))
        except Exception as e:
            ctx.observe(name, type(e).__name__)
            ctx.prove(False, "minimise-empty-table", (name, repr(e)))


def units(tier, seed):
    us = [Unit("empty table", h_empty)]

    def add(which, n, W, routes, srcs, disc, target, split=0, cx=False,
            wit=("returned",), exact=0, masks=None, bits=None, nohi=False):
        name = "%s n=%d W=%d routes=%s srcs=%s %s target=%s%s%s%s%s%s" % (
            which, n, W, routes, srcs, disc, target, " cx" if cx else "",
            " exact=%d" % exact if exact else "",
            " masks=" + ",".join(format(m, "0%db" % W) for m in masks)
            if masks else "",
            " bits=" + ",".join(map(str, bits)) if bits else "",
            " all other bits X" if nohi else "")
        us.append(Unit(name, h_min, dict(
            which=which, n=n, W=W, routes=routes, srcs=srcs,
            discipline=disc, target=target, common_x=cx, exact=exact,
            masks=masks, bits=bits, nohi=nohi),
            split=split, witnesses=wit, path_timeout_s=300,
            timeout_ms=300000))

    # default-route removal alone: any table at all
    add("rdr", 2, 3, "AB", "dd", "any", "sym")
    add("rdr", 3, 3, "ABA", "ddu", "any", "sym", split=4)
    add("rdr", 3, 3, "AAD", "dod", "any", "none", split=4)
    # ordered covering, orthogonal tables in any order
    add("oc", 2, 3, "AA", "uu", "orthogonal", "sym", split=4,
        wit=("returned", "shrunk"))
    add("oc", 3, 2, "AAA", "udo", "orthogonal", "sym", split=5,
        wit=("returned", "shrunk"))
    add("oc", 3, 2, "AAB", "ddd", "orthogonal", "none", split=5,
        wit=("returned", "shrunk"))
    add("oc", 3, 3, "AAB", "ddd", "orthogonal", "none", split=6,
        wit=("returned", "shrunk"))
    # generality-sorted overlapping tables
    add("oc", 2, 3, "AA", "du", "sorted", "sym", split=4,
        wit=("returned", "shrunk"))
    add("oc", 3, 2, "AAB", "uud", "sorted", "none", split=5,
        wit=("returned", "shrunk"))
    add("oc_raw", 3, 2, "AAC", "uuu", "sorted", "sym", split=5)
    # the method chain, one and many chips
    add("chain", 3, 2, "AAB", "ddu", "orthogonal", "sym", split=5)
    add("tables", 2, 3, "AA", "du", "sorted", "sym", split=4)
    # the chain without a target: a default-routable entry next to two
    # mergeable ones (every method must start from the original table)
    add("chain", 3, 2, "ACC", "duu", "orthogonal", "none", split=5,
        wit=("returned", "shrunk"))
    add("tables", 3, 2, "CAC", "udu", "sorted", "none", split=5,
        wit=("returned", "shrunk"))
    us.append(Unit("tables two chips W=2 A=AA B=BBA target=none", h_two_chips,
                   dict(W=2, routes_a="AA", routes_b="BBA", srcs_b="uuu",
                        target="none"), split=6,
                   witnesses=("returned", "first-chip-merged"),
                   path_timeout_s=300, timeout_ms=300000))
    # the window spread over several bytes of the key (the count of X bits --
    # generality -- must weigh every bit position alike)
    add("oc", 3, 3, "ABA", "uuu", "sorted", "none", split=6,
        bits=(8, 24, 25), wit=("returned",))
    add("oc", 2, 3, "AB", "uu", "sorted", "sym", split=4,
        bits=(7, 15, 31), wit=("returned",))
    # five entries with concrete masks (keys symbolic under them): a merge of
    # three entries that the down-check prunes, after which the smaller
    # merged entry lands above an entry of intermediate generality
    add("oc_raw", 5, 5, "ABAAB", "uuuuu", "sorted", "none", split=8,
        masks=(31, 21, 22, 19, 1), wit=("returned", "shrunk"))
    # a merge of four entries whose masks have no bit in common (every bit
    # outside the window is X, the first three window masks AND to zero),
    # the last of them alone bringing a second source direction
    add("oc", 5, 4, "AACAA", "ddudo", "orthogonal", "none", split=6,
        masks=(0b1011, 0b1110, 0b1101, 0b0101, 0b0011), nohi=True,
        wit=("returned", "shrunk"))
    add("chain", 4, 3, "AAAA", "dddo", "sorted", "sym", split=5,
        masks=(0b011, 0b110, 0b101, 0b001), nohi=True,
        wit=("returned", "shrunk"))
    # one inductive merge step from an arbitrary state satisfying the
    # invariant (alias shapes that whole runs only reach on larger tables)
    def step(W, routes, srcs, nal, split=6):
        us.append(Unit("step W=%d routes=%s srcs=%s aliases=%s" % (
            W, routes, srcs, "".join(map(str, nal))), h_step,
            dict(W=W, routes=routes, srcs=srcs, n_aliases=nal), split=split,
            witnesses=("merged",), path_timeout_s=900, timeout_ms=900000))
    step(2, "AAB", "udu", (2, 0, 0))
    if tier == "thorough":
        # (1 500 paths, one to seven CPU-minutes of solver time depending on
        # the load of the machine: thorough only)
        step(2, "AAB", "uuu", (0, 0, 2), split=7)
    us.append(Unit("tables twin chips W=2 routes=AB (sources differ only)",
                   h_twin_chips, dict(W=2, routes="AB"), split=4,
                   witnesses=("returned", "shrunk"),
                   path_timeout_s=300, timeout_ms=300000))
    us.append(Unit("tables two chips W=2 A=AA B=BA target=dict", h_two_chips,
                   dict(W=2, routes_a="AA", routes_b="BA", srcs_b="du",
                        target="dict"), split=5,
                   witnesses=("returned", "failed"),
                   path_timeout_s=300, timeout_ms=300000))
    if tier == "thorough":
        us.append(Unit("tables two chips W=3 A=AA B=BBA target=sym",
                       h_two_chips,
                       dict(W=3, routes_a="AA", routes_b="BBA", srcs_b="udu",
                            target="sym"), split=8,
                       witnesses=("returned",),
                       path_timeout_s=300, timeout_ms=300000))
        add("rdr", 4, 3, "ABAD", "ddud", "any", "sym", split=6)
        add("rdr", 5, 2, "ABADB", "ddodd", "any", "none", split=6)
        for disc in ("orthogonal", "sorted"):
            add("oc", 3, 3, "AAA", "udo", disc, "sym", split=6)
            add("oc", 3, 3, "AAB", "ddd", disc, "none", split=6)
            add("oc", 3, 3, "ABA", "umu", disc, "sym", split=6)
            add("oc", 3, 3, "AAA", "dud", disc, "sym", split=6, cx=True)
            add("oc_raw", 3, 3, "AAC", "uuu", disc, "sym", split=6)
            add("chain", 3, 3, "AAB", "ddu", disc, "sym", split=6)
            add("oc", 4, 2, "AAAA", "uudo", disc, "sym", split=7)
            add("oc", 4, 2, "AABB", "dddd", disc, "none", split=7)
            add("oc", 4, 2, "ABAB", "umdu", disc, "sym", split=7)
            add("chain", 4, 2, "AABA", "dduu", disc, "sym", split=7)
        add("tables", 3, 3, "AAB", "dud", "sorted", "sym", split=6)
        # five entries: three fully specified same-route entries followed
        # by two arbitrary ones with other routes (the shape needed for an
        # up-check that shrinks a merge which must then be down-checked again)
        for m4, m5 in ((0b1100, 0b1001),):
            add("oc_raw", 5, 4, "AAABC", "uuuuu", "sorted", "none",
                split=9, masks=(15, 15, 15, m4, m5))
    return us
