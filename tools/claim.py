#!/usr/bin/env python3
"""tools/claim.py <ID> <text> <note> [technique] -- claim a property in manifest_src.json and regenerate."""
import json, sys, os, subprocess
here = os.path.dirname(os.path.dirname(os.path.abspath(__file__)))
p = os.path.join(here, "tools", "manifest_src.json")
src = json.load(open(p))
pid, text, note = sys.argv[1:4]
src["checks"][pid] = {"text": text, "note": note}
if len(sys.argv) > 4:
    src["checks"][pid]["technique"] = sys.argv[4]
src["not_applicable"].pop(pid, None)
json.dump(src, open(p, "w"), indent=1)
subprocess.check_call([sys.executable, os.path.join(here, "tools", "mkmanifest.py")])
