import sys, time, warnings
warnings.simplefilter("ignore")
sys.path.insert(0, "/tmp/proto"); sys.path.insert(0, "/tmp/scr")
import z3
from symex import *
from symint_lia import IntS, iv
from rig.place_and_route import Machine, Cores, SDRAM
from rig.place_and_route.constraints import ReserveResourceConstraint, AlignResourceConstraint
from rig.place_and_route.allocate.greedy import allocate
from rig.place_and_route.exceptions import InsufficientResourceError

def run(V, G, alignment):
    def body(eng):
        cap = IntS.var("cap", 0)
        m = Machine(1, 1, chip_resources={Cores: cap})
        vs = [object() for _ in range(V)]
        dem = [IntS.var("d%d" % i, 0) for i in range(V)]
        vr = {v: {Cores: d} for v, d in zip(vs, dem)}
        res = []
        for g in range(G):
            a = IntS.var("ra%d" % g, 0); b = IntS.var("rb%d" % g, 0)
            eng.assume(a <= b); eng.assume(b <= cap)
            res.append((a, b))
        for i in range(G):
            for j in range(i+1, G):
                # non-overlapping reservations
                eng.assume(SymBool(z3.Or(res[i][1].e <= res[j][0].e, res[j][1].e <= res[i][0].e)))
        cons = [ReserveResourceConstraint(Cores, slice(a, b)) for a, b in res]
        if alignment != 1:
            cons.append(AlignResourceConstraint(Cores, alignment))
        pl = {v: (0, 0) for v in vs}
        try:
            al = allocate(vr, [], m, cons, pl)
        except InsufficientResourceError:
            return "ISR"
        conds = []
        for v, d in zip(vs, dem):
            s = al[v][Cores]
            conds += [iv(s.stop) - iv(s.start) == d.e, iv(s.start) >= 0, iv(s.stop) <= cap.e, iv(s.start) % alignment == 0]
            for a, b in res:
                conds.append(z3.Not(z3.And(z3.If(iv(s.start) > a.e, iv(s.start), a.e) < z3.If(iv(s.stop) < b.e, iv(s.stop), b.e))))
        for i in range(V):
            for j in range(i+1, V):
                si = al[vs[i]][Cores]; sj = al[vs[j]][Cores]
                conds.append(z3.Not(z3.And(z3.If(iv(si.start) > iv(sj.start), iv(si.start), iv(sj.start)) < z3.If(iv(si.stop) < iv(sj.stop), iv(si.stop), iv(sj.stop)))))
        m_ = eng.prove(z3.And(*conds))
        return "OK" if m_ is None else ("VIOL", m_)
    eng = Engine(); t = time.time(); eng.explore(body)
    from collections import Counter
    c = Counter(r if isinstance(r, str) else r[0] for r in eng.results)
    print("V=%d G=%d al=%d paths=%d checks=%d wall=%.1f solver=%.1f %s" % (V, G, alignment, eng.paths, eng.checks, time.time()-t, eng.solver_time, dict(c)))
    sys.stdout.flush()
run(1, 1, 1); run(2, 1, 1); run(2, 2, 1); run(3, 2, 1); run(2, 2, 4); run(3, 2, 4)
