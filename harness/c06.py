"""C06 -- SCP bursts complete each command exactly once despite loss, delay,
duplication and reordering.  The real SCPConnection.send_scp_burst / send_scp
run against the symbolic clock and the nondeterministic network of
models/net.py: every clock reading and wait is a solver real, every datagram
fate within the fault budget is explored."""
from sx.runner import Unit
from sx.proxies import sand, sor, snot

PROPERTY = "C06"

META = {
    "bounds": "burst length <= 2 (quick) / 3 (thorough), window 1..2 (3), "
              "n_tries 1..2 (3); fault budget (request lost, reply lost, "
              "reply duplicated, retryable code, fatal code) <= 2 per burst "
              "(the exact combinations are the unit names; bursts of 3 only "
              "with one try or without faults: larger products exceed 10^6 "
              "paths), delays and reordering of replies "
              "unlimited; optionally one stale ok-reply of an earlier burst "
              "in flight at the start; sequence counter starting at 0, "
              "0xfffe or 0xffff (wrap); one unit with rig's own sequence "
              "generator reduced to a 2-bit space (seqs(mask=3)), a burst of "
              "6 with window 3, concrete clock, every delivery order, no "
              "delayed or duplicated reply, so that the counter wraps while commands are "
              "outstanding; default timeout a symbolic real > 0, "
              "per-command extra timeout a symbolic real >= 0, every clock "
              "reading and every wait a symbolic real",
    "stubs": ["scp_connection.time / select / socket rebound to the symbolic "
              "clock and network of models/net.py (see its docstring for the "
              "assumptions: monotone clock, select returns early only with "
              "data and otherwise strictly after its timeout)"],
    "assumptions": [
        "the machine answers a command it receives with RC_OK and the "
        "command's own sequence number (C06 is about the transport; what the "
        "machine does with a command is C07/C09/C10)",
        "a stale reply carries a sequence number that is not reused inside "
        "the burst (reuse after 65536 commands is acknowledged in the code "
        "and outside the bound)",
    ],
    "outside_claim": ["bursts longer than 3, fault budgets above 3",
                      "sequence-number reuse after 2**16 commands"],
}


def h_burst(ctx, burst, window, n_tries, faults, kinds, stale, seq0,
            via_send_scp=False, multi=False, seq_mask=None, untimed=False,
            payload=b"", then_again=False):
    from models.net import World, Patch, RC_OK
    from rig.machine_control import scp_connection as sc
    from rig.machine_control.scp_connection import (
        SCPConnection, scpcall, TimeoutError as SCPTimeout,
        FatalReturnCodeError)
    import struct

    if untimed:
        # sequence-wrap units: the clock is concrete (timing is explored by
        # the other units) and every delivery order is explored.  No reply
        # is delayed past its timeout or duplicated here: in a 2-bit
        # sequence space a late duplicate would meet a *legitimately* re-used
        # number inside the burst, which is the hazard the code acknowledges
        # for 2**16 commands (DESIGN D10, outside the claim).
        world = World(ctx, faults=faults, kinds=kinds, multi_recv=multi,
                      timed=False, delays=0)
        default_timeout = 1
        extras = [0 for _ in range(burst)]
    else:
        world = World(ctx, faults=faults, kinds=kinds, multi_recv=multi)
        default_timeout = ctx.real("timeout")
        ctx.assume(default_timeout > 0)
        extras = [ctx.real("extra", 0) for _ in range(burst)]
    calls = []          # (command index, reply bytes)

    with Patch(world):
        conn = SCPConnection("host", n_tries=n_tries,
                             timeout=default_timeout)
        if seq_mask is not None:
            # rig's own sequence generator with a smaller sequence space, so
            # that the counter wraps inside one burst
            conn.seq = sc.seqs(seq_mask)
        for _ in range(seq0):
            next(conn.seq)
        if stale:
            world.inject_stale((seq0 - 1) & 0xffff)

        def mk(i):
            def cb(packet):
                calls.append((i, packet))
            return cb
        cmds = [scpcall(1, 2, 3, 5, arg1=100 + i, callback=mk(i),
                        timeout=extras[i], data=payload)
                for i in range(burst)]
        outcome = None
        err = None
        try:
            if via_send_scp:
                r = conn.send_scp(256, 1, 2, 3, 5, arg1=100, data=payload,
                                  timeout=extras[0])
                calls.append((0, r.bytestring))
            else:
                conn.send_scp_burst(256, window, iter(cmds))
            outcome = "ok"
        except SCPTimeout as e:
            outcome, err = "timeout", e
        except FatalReturnCodeError as e:
            outcome, err = "fatal", e
        except Exception as e:
            ctx.observe("unexpected", type(e).__name__)
            ctx.prove(False, "burst-unexpected-exception", repr(e))
            return
        again = None
        if then_again:
            # whatever way the first burst ended, a second burst on the same
            # connection over a network that now behaves is a burst of its
            # own: only its command is transmitted, its callback runs once
            first_sent, first_now = list(world.sent), world.now
            first_received = list(world.received)
            first_marks = list(world.send_marks)
            world.faults, world.prompt, world.timed = 0, True, False
            del world.in_flight[:]
            world.ready = []
            second = []
            try:
                conn.send_scp_burst(256, window, iter([scpcall(
                    1, 2, 3, 5, arg1=900, callback=second.append)]))
                again = "ok"
            except Exception as e:
                again = type(e).__name__ + ": " + str(e)[:120]
            extra = [struct.unpack_from("<I", d, 14)[0]
                     for (_, d, _, _) in world.sent[len(first_sent):]]
            ctx.observe("second burst", again, extra, len(second))
            ctx.witness("second-burst")
            ctx.prove(again == "ok", "second-burst-failed", again)
            ctx.prove(extra == [900], "second-burst-transmitted-old-commands",
                      extra)
            ctx.prove(len(second) == 1, "second-burst-callback-count",
                      len(second))
            # the monitor below looks at the first burst only
            world.sent, world.now = first_sent, first_now
            world.received, world.send_marks = first_received, first_marks
    ctx.witness(outcome)
    ctx.observe(outcome, len(world.sent), [c[0] for c in calls],
                [s[0] for s in world.sent])

    # ---- monitor over the socket log -----------------------------------
    # command index of each transmission: by arg1 in the datagram
    def cmd_of(data):
        return struct.unpack_from("<I", data, 14)[0] - 100
    sends = {}            # command -> [time, ...]
    seq_of = {}
    for seq, data, t, executed in world.sent:
        i = cmd_of(data)
        sends.setdefault(i, []).append(t)
        ctx.prove(seq_of.setdefault(i, seq) == seq,
                  "burst-retransmission-changed-seq")
    if seq_mask is None:
        ctx.prove(len(set(seq_of.values())) == len(seq_of),
                  "burst-sequence-number-shared", sorted(seq_of.items()))
    else:
        # with a wrapping counter a number may be re-used, but never while
        # the command holding it is still unanswered
        holder = {}
        done_at = {}
        for k, rep_ in enumerate(world.received):
            if rep_.kind == "ok":
                done_at.setdefault(cmd_of(world.sent[rep_.req][1]), k)
        for k, (seq, data, t, executed) in enumerate(world.sent):
            i = cmd_of(data)
            j = holder.get(seq)
            if j is not None and j != i:
                mark = world.send_marks[k]
                ctx.prove(j in done_at and done_at[j] < mark,
                          "burst-sequence-number-reused-while-outstanding",
                          (seq, j, i))
            holder[seq] = i
    timeouts = [default_timeout + e for e in extras]
    for i, ts in sends.items():
        ctx.prove(len(ts) <= n_tries, "burst-too-many-tries", (i, len(ts)))
        for a, b in zip(ts, ts[1:]):
            ctx.prove(b - a >= timeouts[i], "burst-retransmit-before-timeout",
                      (i, a, b, timeouts[i]))
    # commands are started in order
    firsts = [cmd_of(d) for k, (s, d, t, x) in enumerate(world.sent)
              if cmd_of(d) not in [cmd_of(d2) for (_, d2, _, _)
                                   in world.sent[:k]]]
    ctx.prove(firsts == sorted(firsts), "burst-order")

    # window: replay the interleaving of sends and receipts.  An ok reply
    # received for a command answers it.
    ok_received = {}
    for rep in world.received:
        if rep.kind == "ok":
            ok_received.setdefault(cmd_of(world.sent[rep.req][1]), 0)
            ok_received[cmd_of(world.sent[rep.req][1])] += 1
    for k, unanswered in world_window_log(world, cmd_of):
        ctx.prove(unanswered <= window, "burst-window-exceeded",
                  (k, unanswered, window))

    # ---- callbacks --------------------------------------------------------
    called = [c[0] for c in calls]
    ctx.prove(len(set(called)) == len(called), "burst-callback-twice", called)
    for i, packet in calls:
        rc, seq = struct.unpack_from("<2H", packet, 10)
        arg1 = struct.unpack_from("<I", packet, 14)[0]
        ctx.prove(rc == RC_OK and arg1 == 100 + i and seq == seq_of.get(i),
                  "burst-callback-wrong-reply", (i, rc, seq, arg1))
        ctx.prove(ok_received.get(i, 0) >= 1,
                  "burst-callback-without-reply", i)
    fatal_seen = [r for r in world.received if r.kind == "fatal"]
    if outcome == "ok":
        ctx.prove(sorted(called) == list(range(burst)),
                  "burst-returned-without-all-callbacks", called)
        ctx.prove(not fatal_seen, "burst-fatal-code-ignored")
    elif outcome == "timeout":
        ctx.prove(not fatal_seen, "burst-fatal-code-ignored")
        pkt = err.packet
        ctx.prove(pkt is not None, "burst-timeout-names-no-command")
        if pkt is not None:
            i = pkt.arg1 - 100
            ctx.prove(len(sends.get(i, [])) == n_tries,
                      "burst-timeout-wrong-try-count",
                      (i, len(sends.get(i, [])), n_tries))
            ctx.prove(ok_received.get(i, 0) == 0,
                      "burst-timeout-although-reply-received", i)
            if sends.get(i):
                # the last try is given its timeout too
                ctx.prove(world.now - sends[i][-1] >= timeouts[i],
                          "burst-timeout-before-last-try-expired",
                          (i, sends[i][-1], world.now, timeouts[i]))
            ctx.prove(i not in called, "burst-timeout-after-callback", i)
    else:
        ctx.prove(len(fatal_seen) >= 1, "burst-fatal-error-without-code")
        ctx.prove(int(err.return_code) == 0x88, "burst-fatal-wrong-code",
                  repr(err.return_code))
    # stale replies never complete anything
    if stale:
        ctx.prove(all(c[0] in range(burst) for c in calls),
                  "burst-stale-reply-completed-a-command")


def world_window_log(world, cmd_of):
    """(send index, number of distinct commands sent and not yet answered
    just after that send).  Receipts are ordered against sends through the
    world's counters."""
    # The world logs `received` and `sent` separately; each Reply records the
    # transmission (req) it answers and each send happened at a definite
    # point of the received list: recorded in World.send via len(received).
    out = []
    for k, mark in enumerate(world.send_marks):
        started = set(cmd_of(world.sent[j][1]) for j in range(k + 1))
        answered = set(cmd_of(world.sent[r.req][1])
                       for r in world.received[:mark]
                       if r.kind == "ok")
        out.append((k, len(started - answered)))
    return out


def h_two_buffers(ctx, sizes):
    """Two reads over ONE connection with different buffer sizes (the
    machine's advertised size is an argument of every call): each callback
    gets the machine's complete reply -- a datagram socket truncates what
    does not fit the length asked of recv()."""
    from models.net import World
    from models.machine import Machine, ControllerPatch, _mix
    from rig.machine_control.scp_connection import SCPConnection
    first, second = ctx.pick(list(sizes))
    machine = Machine(ctx, buffer_size=max(first, second))
    world = World(ctx, machine=machine, prompt=True)
    with ControllerPatch(world):
        conn = SCPConnection("host")
        addr = ctx.bv("addr", 32)
        ctx.assume(addr + first + second <= (1 << 32))
        try:
            d1 = conn.read(first, 1, 3, 2, 0, addr, first)
            d2 = conn.read(second, 1, 3, 2, 0, addr + first, second)
        except Exception as e:
            ctx.observe(type(e).__name__)
            ctx.prove(False, "burst-unexpected-exception", repr(e))
            return
        ctx.observe(len(d1), len(d2))
        ctx.witness("ok")
        ctx.prove(len(d1) == first and len(d2) == second,
                  "burst-callback-wrong-reply", (len(d1), len(d2)))
        for data, base, n in ((d1, addr, first), (d2, addr + first, second)):
            for i in (0, n // 2, n - 1):
                if i < len(data):
                    ctx.prove(data[i] == _mix(base + i),
                              "burst-callback-wrong-reply", (i,))


def units(tier, seed):
    us = []
    LOSS = ("lose_req", "lose_rep")
    ALL = ("lose_req", "lose_rep", "dup", "retry", "fatal")

    def add(b, w, n, f, kinds, stale=False, seq0=0, split=0, wit=("ok",),
            via=False, multi=False, seq_mask=None, untimed=False,
            payload=b"", then_again=False):
        name = "burst=%d window=%d tries=%d faults=%d kinds=%s%s%s seq0=%#x%s%s%s" % (
            b, w, n, f, "+".join(kinds), " stale" if stale else "",
            " multi" if multi else "", seq0, " send_scp" if via else "",
            " seqmask=%#x untimed" % seq_mask if seq_mask is not None else "",
            (" payload" if payload else "") +
            (" then a second burst" if then_again else ""))
        us.append(Unit(name, h_burst, dict(
            burst=b, window=w, n_tries=n, faults=f, kinds=kinds, stale=stale,
            seq0=seq0, via_send_scp=via, multi=multi, seq_mask=seq_mask,
            untimed=untimed, payload=payload, then_again=then_again),
            split=split,
            witnesses=wit, path_timeout_s=40))
    OTF = ("ok", "timeout", "fatal")
    add(1, 1, 1, 1, ALL, wit=OTF, multi=True)
    add(1, 1, 2, 2, ALL, via=True, split=4, wit=OTF)
    add(1, 1, 2, 1, ALL, stale=True, seq0=0xffff, split=4, wit=OTF,
        multi=True)
    add(2, 1, 2, 1, ("lose_rep",), split=5, wit=("ok", "timeout"))
    # commands carrying data (text full of braces, percent signs and
    # backslashes: whatever builds the error objects must not interpret it)
    add(1, 1, 1, 1, ALL, wit=OTF, multi=True,
        payload=b'{"n": {0}, "s": "%s %d {x!r}"} \\ {')
    add(2, 2, 1, 1, ("lose_req", "fatal"), split=5, wit=OTF,
        payload=b"{}{1}}{")
    add(2, 2, 2, 0, (), seq0=0xffff, split=6, wit=("ok", "timeout"))
    add(2, 2, 1, 2, LOSS, split=6, wit=("ok", "timeout"))
    add(2, 2, 1, 1, ("fatal", "retry", "dup"), split=6, wit=OTF)
    add(2, 2, 1, 2, ("fatal", "lose_req", "lose_rep"), split=6,
        wit=OTF + ("second-burst",), then_again=True)
    # a duplicated reply while commands are still queued beyond the window:
    # the window stays what it was
    add(3, 1, 1, 1, ("dup",), split=5, wit=("ok",))
    if tier == "thorough":
        add(4, 2, 1, 1, ("dup",), split=7, wit=("ok",))
    # the sequence counter wraps inside the burst (2-bit sequence space
    # through rig's own seqs(mask)): numbers still outstanding are skipped
    add(6, 3, 2, 0, (), split=6, wit=("ok",), seq_mask=3, untimed=True)
    # a read of two blocks in flight together, one datagram lost or
    # duplicated: each block's reply must land in that block's place
    # (C07's harness; the callbacks of SCPConnection.read are the subject)
    from harness import c07
    us.append(Unit("read of two blocks, window 2, one fault (C07's harness)",
                   c07.h_rw, dict(op="read", lengths=(5,), bufs=(4,),
                                  windows=(2,), faults=1,
                                  kinds=("lose_req", "dup")), split=6,
                   witnesses=("read",), path_timeout_s=120))
    us.append(Unit("two reads, one connection, two buffer sizes",
                   h_two_buffers, dict(sizes=((64, 128), (120, 128),
                                              (128, 64), (24, 32))),
                   witnesses=("ok",), path_timeout_s=120))
    if tier == "thorough":
        add(8, 3, 2, 0, (), split=8, wit=("ok",), seq_mask=3, untimed=True)
        add(7, 4, 2, 0, (), split=8, wit=("ok",), seq_mask=7, untimed=True)
        add(2, 1, 2, 1, ("lose_rep", "dup"), split=7, wit=("ok", "timeout"))
        add(2, 2, 2, 1, ("lose_req",), seq0=0xffff, split=8,
            wit=("ok", "timeout"))
        add(2, 2, 2, 1, ("fatal",), split=8, wit=("ok", "fatal"))
        add(1, 1, 2, 2, ALL, stale=True, seq0=0xffff, split=6, wit=OTF,
            multi=True)
        add(2, 1, 2, 1, ALL, split=8, wit=OTF, multi=True)
        add(2, 3, 2, 1, ("lose_rep", "retry"), split=8,
            wit=("ok", "timeout"))
        add(3, 2, 1, 1, ("lose_req", "dup"), split=8, wit=("ok", "timeout"))
        add(1, 1, 3, 2, ("lose_req", "lose_rep", "retry"), split=6,
            wit=("ok", "timeout"))
    return us
