#!/usr/bin/env python3
"""Regenerates MANIFEST.json from tools/manifest_src.json (claimed checks and
not-applicable reasons are edited there)."""
import json, os
here = os.path.dirname(os.path.dirname(os.path.abspath(__file__)))
src = json.load(open(os.path.join(here, "tools", "manifest_src.json")))
props = [json.loads(l)["id"] for l in open(os.path.join(here, "properties.jsonl"))]
checks = []
na = []
for pid in props:
    c = src["checks"].get(pid)
    if c is None:
        na.append({"property_id": pid, "reason": src["not_applicable"][pid]})
        continue
    checks.append({
        "property_id": pid,
        "quick_cmd": "./check %s --tier quick" % pid,
        "thorough_cmd": "./check %s --tier thorough" % pid,
        "evidence_file": "/verif/evidence/%s.json" % pid,
        "replay_cmd_template": "./check %s --replay {path}" % pid,
        "engine": "sx",
        "level_claimed": {"category": "model_checking", "text": c["text"],
                          "design_ref": c.get("design_ref", "DESIGN.md section 6, " + pid)},
        "level_note": c["note"],
        "technique": c.get("technique", "bounded symbolic execution of the real Python functions (sx engine), every path condition and assertion decided by z3; counterexamples replayed concretely"),
    })
m = {
    "version": 1,
    "setup_cmd": "./bootstrap.sh",
    "hooks": {
        "guard": "MUNDYA_RIG_VERIF",
        "enable": "not used: no instrumentation was added to rig; stubbing (struct, time, select, socket, random) is done from outside by rebinding module attributes at check time",
        "baseline_off_cmd": "cd /repo && /venv/bin/python -m pytest -ra -q -p no:cacheprovider --timeout=900 --continue-on-collection-errors",
        "source_commits": [],
        "add_only": True,
    },
    "engines": [{
        "name": "sx", "path": "/verif/sx",
        "serves_properties": [c["property_id"] for c in checks],
        "kind_free_text": "path-exploring symbolic executor for ordinary Python objects (proxies for int/bit-vector/real/float/bytes), z3 as the deciding solver, per-path concrete replay validation"}],
    "checks": checks,
    "not_applicable": na,
    "notes": src.get("notes", ""),
}
json.dump(m, open(os.path.join(here, "MANIFEST.json"), "w"), indent=1)
print("claimed:", [c["property_id"] for c in checks])
print("not applicable:", [n["property_id"] for n in na])
