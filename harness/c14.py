"""C14 -- the probed system description and the machine model derived from it
match the machine.

Part A (decoding) drives the real MachineController through the real
SCPConnection / packet codec against `ProbeMachine`, a subclass of the machine
model of models/machine.py defined here, whose replies are built from symbolic
words by the layouts written down below, independently of rig:

  `info` (command 31) reply
      arg1   bits 4..0   number of working cores
             bits 13..8  working links, bit 8 + n for link n (0 east,
                         1 north-east, 2 north, 3 west, 4 south-west, 5 south)
             bits 24..14 largest free block of multicast router entries
             bit 25      Ethernet is up
             (bits 7..5 and 31..26 carry nothing)
      arg2   largest free SDRAM block, arg3 largest free SRAM block
      data   18 bytes: state of each core by number; 16 bits little endian:
             nearest Ethernet chip (x << 8) | y; 32 bits: IPv4 address, first
             octet in the lowest byte
  P2P routing table: entry of chip (x, y) is number 256 * x + y; eight 3-bit
      entries per 32-bit word, entry k of a word in bits 3k+2..3k; the table
      starts at 0xe1010000 (so a column is 128 bytes from the next); the
      dimensions are sv->p2p_dims = (width << 8) | height
  sv (0xf5007f00): p2p_dims u16 at 0x02, iobuf_size u32 at 0x50, num_cpus u8
      at 0xbc, vcpu_base u32 at 0xcc; a vcpu block is 128 bytes per core with
      the sark.h layout listed in VCPU_LAYOUT
  console buffer block: four 32-bit words next / time / ms / length, then the
      text; the chain ends with next == 0
  router diagnostics: sixteen 32-bit counters from 0xe1000300
  sver: arg1 = (x << 24) | (y << 16) | (physical cpu << 8) | virtual cpu;
      arg2 = (version << 16) | buffer size; version 0xffff means "semantic
      version text follows the NUL after the name", anything else is
      100 * major + minor

Part B (derived models) builds SystemInfo objects directly, with symbolic
per-chip quantities and symbolic core states, and runs build_machine,
build_core_constraints and build_routing_table_target_lengths on them.
"""
from sx.runner import Unit
from sx.proxies import sand, sor, snot, ite, is_sym, same_truth, SymBytes
from models.machine import Machine

PROPERTY = "C14"

META = {
    "bounds": "A (decoding, through the real MachineController / SCP "
              "connection): one `info` reply with arg1, arg2, arg3 and the "
              "Ethernet word symbolic (quick: the core-count field one of 0, "
              "1, 2, 17, 18, thorough: any value 0..18; every other bit of "
              "arg1 free), the 18 state bytes a rotating pattern over the 13 "
              "states (2 rotations, thorough 3); separately 2 (thorough 3) "
              "state bytes symbolic over the 13 valid codes at cores 0, (1,) "
              "n-1 for core counts n = 1, 2, 17, 18; IP word from a menu of "
              "3.  P2P tables of 1x1, 2x1, 1x2 chips with every word "
              "symbolic; of 2x2, 3x2, 1x8, 1x9, 2x17 (thorough also 3x9, "
              "2x16, 1x24) with a rotating concrete pattern (2 rotations, "
              "thorough 8), one entry at every position in turn symbolic "
              "and all bits the format leaves unused symbolic; thorough: "
              "8x8, 255x1, 1x255 pattern only.  get_system_info on machines "
              "of 1x1, 2x1, 1x2, 2x2 (thorough 3x2, 2x3) chips and "
              "get_machine on 1x1 .. 2x2 (thorough 3x1, 1x3) where every "
              "chip but the root is, by choice, without a P2P route, routed "
              "but answering `info` with a fatal return code (2 codes), or "
              "alive; per alive chip symbolic router block, SDRAM, SRAM, "
              "Ethernet word and unused arg1 bits; core count from {1, 2, "
              "17, 18}, link set, Ethernet bit and states by pattern (4 "
              "rotations).  Two probes by one controller: a machine of "
              "extent (w1, h1) is probed (or discover_connections() is "
              "run on it, or the controller's width / height are simply "
              "set), the machine then has extent (w2, h2) -- 1x1->2x1, "
              "1x1->1x2, 1x1->2x2, 2x1->2x2, 2x2->1x1, 2x1->1x2 (thorough "
              "also 2x2->3x2, 1x2->2x3, 3x2->2x1), optionally with one "
              "routed chip not answering -- and is probed again with the "
              "same controller; per chip symbolic router block, SDRAM, "
              "Ethernet word, unused bits.  vcpu block: symbolic "
              "word-aligned 32-bit "
              "vcpu_base (clear of SDRAM and of sv), symbolic core number "
              "0..17, all bytes symbolic except the name (menu of 2, "
              "thorough 4), the state / exception bytes symbolic over "
              "their valid codes.  Console chains of 0..2 blocks of 4 "
              "(thorough 4, 8) bytes and of 3 blocks of 2 (thorough 2, 4, "
              "8) bytes at symbolic word-aligned SDRAM addresses, symbolic "
              "time / ms / length words (length <= block size), symbolic "
              "text; get_iobuf on fixed ASCII text.  Console history: one "
              "controller dumps core p of a chip with iobuf_size 2 (one "
              "block) and of a chip with iobuf_size 6 (thorough 8; 1 or 2 "
              "blocks, every block but the last full, last length "
              "symbolic), in either order, addresses / times / text "
              "symbolic.  16 symbolic router "
              "counters.  sver: arg1, arg3, buffer size and the legacy "
              "version 0..0xfffe symbolic, 3 name strings; semantic "
              "versions from a menu of 6 strings.  B (pure functions on a "
              "SystemInfo built directly): build_machine / "
              "build_routing_table_target_lengths on 1x1 with every subset "
              "of links, on 2x1, 1x2, 3x1, 2x2 with any subset of chips "
              "dead and symbolic integers per chip for cores (0..31), "
              "SDRAM, SRAM (0..2**32-1) and router block (0..2047); "
              "thorough 3x2 with SDRAM, SRAM, router block symbolic; link "
              "sets from a menu of 4 per chip on 2x1 (thorough 2x2).  "
              "build_core_constraints on 1x1, 2x1, 1x2, 3x1 with 3 "
              "symbolic states per chip (integers over the 13 codes: "
              "idle / not idle is a solver branch), on 2x2 (thorough 3x2) "
              "with 2, at core numbers and core counts {1, 2, 17, 18} from "
              "4 (2x2 quick and 3x2: 2) chosen profiles, any subset of "
              "chips dead, all other cores idle; genuine AppState members "
              "(all 13, chosen) for 2 cores on 1x1 and one core per chip "
              "on 2x1",
    "stubs": ["clock / select / socket: models/net.py, prompt fault-free "
              "delivery (the transport is C06's subject)",
              "the SpiNNaker machine: models/machine.py + ProbeMachine here "
              "(info, sver, memory regions at symbolic addresses, P2P table, "
              "unreachable and non-answering chips)",
              "struct shim / symbolic-content bytes in packets, "
              "scp_connection, machine_controller (models.machine."
              "ControllerPatch)",
              "consts.AppState / RuntimeException / P2PTableEntry are "
              "wrapped so that a call with a symbolic value first fixes the "
              "value (forking over every feasible one) and then does the "
              "real enum lookup; attribute access is forwarded unchanged"],
    "assumptions": [
        "reply / memory layouts as in this module's docstring",
        "the machine reports only valid state and exception codes (an "
        "unknown code makes rig raise ValueError; not part of the claim)",
        "a chip reports at most 18 working cores (the reply carries 18 "
        "state bytes; for a count field of 19..31 get_chip_info returns "
        "num_cores above len(core_states))",
        "a chip's own entry in its P2P table is never `none`, and the chip "
        "the probe starts from answers",
        "vcpu_base and console blocks are word aligned; console blocks lie "
        "in SDRAM (0x60000000..0x7fffffff), do not overlap and do not form "
        "a cycle; a block's length word does not exceed sv->iobuf_size",
        "'the system's extent' = bounding box of chips with a P2P route "
        "in the table read by this probe (a description never depends on "
        "what the controller saw or was told earlier)",
    ],
    "outside_claim": [
        "machines above 6 chips in get_system_info / build_machine (the "
        "per-chip code is a loop without cross-chip state other than the "
        "maxima / the AND of reserved cores: an argument, not checked)",
        "more than 3 symbolic core states per chip; 3x2 machines with all "
        "three of cores / SDRAM / SRAM symbolic (build_machine's maxima "
        "and exception tests fork beyond the budget)",
        "chips that do not answer at all (timeouts) rather than with a "
        "fatal return code",
        "semantic-version strings beyond the menu and application names / "
        "IP words beyond the menus: the code under test puts them through "
        "re, str.strip, str.decode and str(); symbolic text is out of reach "
        "of the engine",
        "P2P tables larger than those listed (256 x 256 addressing is "
        "covered in one dimension at a time: 255x1, 1x255)",
        "timeouts / lost datagrams while probing (C06)",
        "sequences of more than two probes / two console dumps per "
        "controller, and a machine changing while a probe is in progress",
        "get_processor_status unpacks with native byte order: on a "
        "big-endian host the decode differs; only little-endian hosts "
        "are modelled",
    ],
}

# ----------------------------------------------------------------------
# Documented constants (written here, not read from rig)
# ----------------------------------------------------------------------
SV_BASE = 0xf5007f00
SV_P2P_DIMS, SV_IOBUF_SIZE, SV_NUM_CPUS, SV_VCPU_BASE = 0x02, 0x50, 0xbc, 0xcc
VCPU_SIZE = 128
P2P_BASE = 0xe1010000
RTR_DIAG = 0xe1000300
CMD_INFO = 31
RC_ROUTE, RC_P2P_NOREPLY, RC_P2P_TIMEOUT = 0x87, 0x8b, 0x8e

APP_STATES = (0, 1, 2, 3, 4, 5, 6, 7, 8, 9, 10, 11, 15)
IDLE = 15
RT_CODES = tuple(range(21))
P2P_NONE, P2P_MONITOR = 6, 7

# (offset, size) of the numeric fields of a vcpu block (sark.h, vcpu_t)
VCPU_LAYOUT = {
    "r0": (0x00, 4), "r1": (0x04, 4), "r2": (0x08, 4), "r3": (0x0c, 4),
    "r4": (0x10, 4), "r5": (0x14, 4), "r6": (0x18, 4), "r7": (0x1c, 4),
    "psr": (0x20, 4), "sp": (0x24, 4), "lr": (0x28, 4),
    "rt_code": (0x2c, 1), "phys_cpu": (0x2d, 1), "cpu_state": (0x2e, 1),
    "app_id": (0x2f, 1), "mbox_ap_msg": (0x30, 4), "mbox_mp_msg": (0x34, 4),
    "mbox_ap_cmd": (0x38, 1), "mbox_mp_cmd": (0x39, 1),
    "sw_count": (0x3a, 2), "sw_file": (0x3c, 4), "sw_line": (0x40, 4),
    "time": (0x44, 4), "iobuf": (0x58, 4), "sw_ver": (0x5c, 4),
    "user0": (0x70, 4), "user1": (0x74, 4), "user2": (0x78, 4),
    "user3": (0x7c, 4),
}
VCPU_NAME = (0x48, 16)

DIAG_NAMES = ("local_multicast", "external_multicast", "local_p2p",
              "external_p2p", "local_nearest_neighbour",
              "external_nearest_neighbour", "local_fixed_route",
              "external_fixed_route", "dropped_multicast", "dropped_p2p",
              "dropped_nearest_neighbour", "dropped_fixed_route",
              "counter12", "counter13", "counter14", "counter15")

IP_MENU = ((0x0100007f, "127.0.0.1"), (0xfe00a8c0, "192.168.0.254"),
           (0x04030201, "1.2.3.4"))
NAME_MENU = ((b"app\0\0\0\0\0\0\0\0\0\0\0\0\0", "app"),
             (b"sixteen_chars_xy", "sixteen_chars_xy"),
             (b"\0" * 16, ""),
             (b"caf\xc3\xa9\0\0\0\0\0\0\0\0\0\0\0", u"caf\xe9"))
# name bytes, expected name, (major, minor, patch), labels
SEMVER_MENU = (
    (b"SC&MP/SpiNNaker\0" b"2.0.0\0", "SC&MP/SpiNNaker", (2, 0, 0), ""),
    (b"SC&MP/SpiNNaker\0" b"3.1.4-dev\0", "SC&MP/SpiNNaker", (3, 1, 4),
     "-dev"),
    (b"SARK/SpiNNaker\0" b"10.20.30+build.7", "SARK/SpiNNaker",
     (10, 20, 30), "+build.7"),
    (b"BC&MP/Spin5-BMP\0" b"1.2.3\0\0\0", "BC&MP/Spin5-BMP", (1, 2, 3), ""),
    (b"x\0" b"0.0.1-rc.1+5\0", "x", (0, 0, 1), "-rc.1+5"),
    (b"\0" b"99.0.100\0", "", (99, 0, 100), ""),
)
LEGACY_NAMES = ((b"SC&MP/SpiNNaker", "SC&MP/SpiNNaker"),
                (b"SC&MP/SpiNNaker\0", "SC&MP/SpiNNaker"),
                (b"BC&MP/Spin5-BMP\0\0\0", "BC&MP/Spin5-BMP"))
LINK_MENU = (0b111111, 0b000000, 0b000101, 0b110111, 0b101010, 0b010000,
             0b011110)
CORE_MENU = (18, 17, 2, 1)


# ----------------------------------------------------------------------
# Helpers that work on plain and symbolic values alike
# ----------------------------------------------------------------------
def bits(word, lo, width):
    """The bit-slice word[lo + width - 1 : lo] (as arithmetic, not as the
    code under test writes it)."""
    return (word // (1 << lo)) % (1 << width)


def mkbytes(items):
    items = list(items)
    if any(is_sym(b) for b in items):
        return SymBytes(items)
    return bytes(items)


def le(value, nbytes):
    """Little-endian bytes of a value."""
    return mkbytes([bits(value, 8 * i, 8) for i in range(nbytes)])


def cat(*parts):
    out = b""
    for p in parts:
        out = out + p
    return out


def word_at(bs, off, size):
    v = 0
    for i in range(size):
        v = v | (bs[off + i] << (8 * i))
    return v


def decide(c):
    """Truth of a condition that may be symbolic (forks if both ways)."""
    return bool(c)


def one_of(v, values):
    return sor(*[v == k for k in values])


class EnumShim(object):
    """An enum class whose by-value lookup accepts a symbolic value: the
    value is fixed first (one path per feasible value), then the real lookup
    runs -- ValueError for an unknown code included."""

    def __init__(self, enum):
        self._enum = enum

    def __call__(self, value):
        return self._enum(int(value) if is_sym(value) else value)

    def __getattr__(self, name):
        return getattr(self._enum, name)

    def __iter__(self):
        return iter(self._enum)

    def __contains__(self, v):
        return v in self._enum

    def __getitem__(self, k):
        return self._enum[k]

    def __len__(self):
        return len(self._enum)


class ProbeMachine(Machine):
    """models.machine.Machine + chip information, chips without a route,
    chips that do not answer, memory regions at symbolic addresses."""

    def __init__(self, ctx, root=(0, 0), **kw):
        Machine.__init__(self, ctx, **kw)
        self.root = root
        self.status = None      # None: every chip answers.  Otherwise
        #                         {(x, y): "ok" | "fatal"}; absent = no route
        self.chips = {}         # (x, y) -> record of a chip (see chip_record)
        self.regions = []       # (chip, base address, bytes)
        self.sver = None        # (arg1, arg2, arg3, data) or None
        self.fatal_rc = RC_P2P_NOREPLY
        self.read_log = []

    def chip_key(self, q):
        k = (int(q.dest_x), int(q.dest_y))
        return self.root if k == (255, 255) else k

    def region(self, chip, base, data):
        self.regions.append((chip, base, data))

    def _gate(self, q):
        if self.status is None:
            return None
        key = self.chip_key(q)
        st = self.status.get(key)
        if st is None:
            self.problems.append(("command sent to a chip without a P2P "
                                  "route", key, int(q.cmd)))
            return self.reply(q, RC_ROUTE)
        if st == "fatal":
            return self.reply(q, self.fatal_rc)
        return None

    def handle(self, data):
        from models.machine import Request
        q = Request(data)
        r = self._gate(q)
        if r is not None:
            self.log.append(q)
            return r
        return Machine.handle(self, data)

    def cmd_0(self, q):
        if self.sver is None:
            return Machine.cmd_0(self, q)
        a1, a2, a3, data = self.sver
        return self.reply(q, args=(a1, a2, a3), data=data)

    def cmd_2(self, q):
        n = int(q.arg2)
        key = self.chip_key(q)
        self.read_log.append((key, q.arg1, n))
        for chip, base, data in self.regions:
            if chip != key:
                continue
            size = len(data)
            if decide(sand(q.arg1 >= base, q.arg1 + n <= base + size)):
                off = q.arg1 - base
                off = int(off) if is_sym(off) else off
                self._check_access(q, n, q.arg3)
                return self.reply(q, data=data[off:off + n])
            if decide(sand(q.arg1 < base + size, base < q.arg1 + n)):
                self.problems.append(("read straddles the end of a block",
                                      key, n))
        return Machine.cmd_2(self, q)

    def cmd_31(self, q):
        key = self.chip_key(q)
        if int(q.dest_cpu) != 0:
            self.problems.append(("info not sent to the monitor", key))
        c = self.chips[key]
        data = cat(mkbytes(c["states"]), le(c["eth"], 2), le(c["ip"], 4))
        return self.reply(q, args=(c["arg1"], c["arg2"], c["arg3"]),
                          data=data)


class Rig(object):
    """ControllerPatch + the enum wrappers."""
    NAMES = ("AppState", "RuntimeException", "P2PTableEntry")

    def __init__(self, ctx, **kw):
        from models.net import World
        from models.machine import ControllerPatch
        # bound before the wrappers go in (they must never be imported)
        import rig.place_and_route.utils  # noqa
        import rig.routing_table.utils  # noqa
        self.machine = ProbeMachine(ctx, **kw)
        self.world = World(ctx, machine=self.machine, faults=0, prompt=True,
                           multi_recv=False, timed=False, delays=1)
        self.patch = ControllerPatch(self.world)

    def __enter__(self):
        from rig.machine_control import consts
        self.patch.__enter__()
        self.consts = consts
        self.saved = {n: getattr(consts, n) for n in self.NAMES}
        for n in self.NAMES:
            setattr(consts, n, EnumShim(self.saved[n]))
        return self

    def __exit__(self, *exc):
        for n in self.NAMES:
            setattr(self.consts, n, self.saved[n])
        return self.patch.__exit__(*exc)


def pattern_states(shift):
    """18 state bytes, neighbours different, every state at every core for
    some shift."""
    return [APP_STATES[(i + shift) % 13] for i in range(18)]


def links_of(mask):
    from rig.links import Links
    return set(l for l in Links if (mask >> int(l)) % 2)


def unexpected(ctx, e, label):
    ctx.observe(type(e).__name__)
    ctx.prove(False, label, repr(e))


def no_problems(ctx, machine):
    ctx.prove(not machine.problems, "probe-command-malformed",
              repr(machine.problems[:3]))


# ----------------------------------------------------------------------
# A1: get_chip_info
# ----------------------------------------------------------------------
def h_chip_info(ctx, mode, cores, shifts, sym=()):
    from rig.machine_control import MachineController
    from rig.machine_control.consts import AppState
    from rig.links import Links
    X, Y = 3, 2
    rig = Rig(ctx)
    machine = rig.machine
    shift = ctx.pick(shifts)
    k = ctx.pick(cores)
    arg1 = ctx.bv("arg1", 32)
    arg2 = ctx.bv("arg2", 32)
    arg3 = ctx.bv("arg3", 32)
    eth = ctx.bv("eth", 16)
    if k is not None:
        ctx.assume(bits(arg1, 0, 5) == k)
    else:
        ctx.assume(bits(arg1, 0, 5) <= 18)      # a chip has 18 cores
    if mode == "states":
        # links and the Ethernet bit fixed by the pattern; the router field
        # and the unused bits stay symbolic
        ctx.assume(bits(arg1, 8, 6) == LINK_MENU[shift % len(LINK_MENU)])
        ctx.assume(bits(arg1, 25, 1) == shift % 2)
    states = pattern_states(shift)
    used = set()
    for j, pos in enumerate(sym):
        pos = pos if pos >= 0 else k + pos
        if 0 <= pos < 18 and pos not in used:
            used.add(pos)
            s = ctx.bv("state%d" % j, 8)
            ctx.assume(one_of(s, APP_STATES))
            states[pos] = s
    ipw, ips = IP_MENU[shift % len(IP_MENU)]
    machine.chips[(X, Y)] = dict(arg1=arg1, arg2=arg2, arg3=arg3,
                                 states=states, eth=eth, ip=ipw)
    with rig:
        mc = MachineController("host")
        try:
            ci = mc.get_chip_info(X, Y)
        except Exception as e:
            return unexpected(ctx, e, "chip-info-unexpected-exception")
    ctx.observe(tuple(ci))
    ctx.witness("chip-info")
    n = bits(arg1, 0, 5)
    ctx.prove(ci.num_cores == n, "chip-info-num-cores", (arg1, ci.num_cores))
    for l in Links:
        ctx.prove(same_truth(bits(arg1, 8 + int(l), 1) == 1,
                             l in ci.working_links),
                  "chip-info-working-links", (arg1, sorted(ci.working_links)))
    ctx.prove(all(isinstance(l, Links) for l in ci.working_links),
              "chip-info-working-links")
    ctx.prove(ci.largest_free_rtr_mc_block == bits(arg1, 14, 11),
              "chip-info-router-block", (arg1, ci.largest_free_rtr_mc_block))
    ctx.prove(same_truth(bits(arg1, 25, 1) == 1, ci.ethernet_up is True),
              "chip-info-ethernet-up", (arg1, ci.ethernet_up))
    ctx.prove(isinstance(ci.ethernet_up, bool), "chip-info-ethernet-up")
    ctx.prove(ci.largest_free_sdram_block == arg2, "chip-info-sdram")
    ctx.prove(ci.largest_free_sram_block == arg3, "chip-info-sram")
    ctx.prove(sand(ci.local_ethernet_chip[0] == bits(eth, 8, 8),
                   ci.local_ethernet_chip[1] == bits(eth, 0, 8)),
              "chip-info-local-ethernet-chip", (eth, ci.local_ethernet_chip))
    ctx.prove(ci.ip_address == ips, "chip-info-ip-address",
              (ipw, ci.ip_address))
    # the states of exactly the working cores, in core order
    ctx.prove(n == len(ci.core_states), "chip-info-core-states-length",
              (n, len(ci.core_states)))
    for p, st in enumerate(ci.core_states):
        if p < 18:
            ctx.prove(sand(isinstance(st, AppState), int(st) == states[p]),
                      "chip-info-core-state", (p, st, states[p]))
            if p in (0, 17):
                ctx.witness("core-%d" % p)
    infos = [q for q in machine.log if int(q.cmd) == CMD_INFO]
    ctx.prove(len(infos) == 1 and infos[0].where == (X, Y, 0),
              "chip-info-wrong-target")
    no_problems(ctx, machine)


def h_wrappers(ctx):
    """get_working_links, get_ip_address, get_num_working_cores."""
    from rig.machine_control import MachineController
    from rig.links import Links
    X, Y = 1, 0
    rig = Rig(ctx)
    machine = rig.machine
    op = ctx.pick(["links", "ip", "cores"])
    arg1 = ctx.bv("arg1", 32)
    ctx.assume(bits(arg1, 0, 5) == 18)
    if op == "ip":
        ctx.assume(bits(arg1, 8, 6) == 0b101101)
    else:
        ctx.assume(bits(arg1, 25, 1) == 1)
    which = ctx.choose(len(IP_MENU))
    ipw, ips = IP_MENU[which]
    machine.chips[(X, Y)] = dict(arg1=arg1, arg2=ctx.bv("arg2", 32),
                                 arg3=ctx.bv("arg3", 32),
                                 states=pattern_states(7), eth=0x0102, ip=ipw)
    ncpu = ctx.bv("num_cpus", 8)
    machine.memory((X, Y)).write(SV_BASE + SV_NUM_CPUS, le(ncpu, 1))
    with rig:
        mc = MachineController("host")
        try:
            if op == "links":
                got = mc.get_working_links(X, Y)
                ctx.observe(got)
                for l in Links:
                    ctx.prove(same_truth(bits(arg1, 8 + int(l), 1) == 1,
                                         l in got), "working-links-wrong")
                ctx.witness("links")
            elif op == "ip":
                got = mc.get_ip_address(X, Y)
                ctx.observe(got)
                up = bits(arg1, 25, 1) == 1
                ctx.prove(same_truth(up, got is not None),
                          "ip-address-when-ethernet-down", (arg1, got))
                ctx.prove(got is None or got == ips, "ip-address-wrong",
                          (got, ips))
                ctx.witness("ip-" + ("none" if got is None else "up"))
            else:
                got = mc.get_num_working_cores(X, Y)
                ctx.observe(got)
                ctx.prove(got == ncpu, "num-working-cores-wrong",
                          (got, ncpu))
                ctx.witness("cores")
        except Exception as e:
            return unexpected(ctx, e, "chip-info-unexpected-exception")
    no_problems(ctx, machine)


# ----------------------------------------------------------------------
# A2: get_p2p_routing_table
# ----------------------------------------------------------------------
def p2p_pattern(col, row, shift):
    return (3 * col + row + 5 * (row // 8) + shift) % 8


def install_p2p(ctx, machine, chip, w, h, entry_of, pad=True):
    """Write the P2P table for chips (col, row), col < w, row < h, into the
    machine: entry values from entry_of(col, row) (plain or 3-bit symbolic),
    every bit the format leaves unused symbolic.  Returns nothing; the
    table occupies one region from P2P_BASE."""
    nw = (h + 7) // 8
    parts = []
    for col in range(w):
        colwords = []
        for wi in range(32):
            if wi >= nw:
                # rows that do not exist: arbitrary fixed content
                idx = 32 * col + wi
                colwords.append(le((0x9e3779b9 * (idx + 1)) % (1 << 32), 4))
                continue
            word = ctx.bv("p2p_unused_%d_%d" % (col, wi), 32)
            for k in range(8):
                row = 8 * wi + k
                if row < h:
                    keep = ((1 << 32) - 1) ^ (7 << (3 * k))
                    word = (word & keep) | (entry_of(col, row) << (3 * k))
            colwords.append(le(word, 4))
        parts.append(cat(*colwords))
    machine.region(chip, P2P_BASE, cat(*parts))
    machine.memory(chip).write(SV_BASE + SV_P2P_DIMS, le((w << 8) | h, 2))


def h_p2p(ctx, dims, mode, shifts=tuple(range(8))):
    from rig.machine_control import MachineController
    from rig.machine_control.consts import P2PTableEntry
    X, Y = 0, 0
    w, h = ctx.pick(dims)
    rig = Rig(ctx)
    machine = rig.machine
    entries = {}
    if mode == "words":
        shift = 0
        for col in range(w):
            for row in range(h):
                entries[(col, row)] = ctx.bv("entry_%d_%d" % (col, row), 3)
    else:
        shift = ctx.pick(shifts)
        for col in range(w):
            for row in range(h):
                entries[(col, row)] = p2p_pattern(col, row, shift)
        if mode == "one":
            pos = ctx.pick(sorted(entries))
            entries[pos] = ctx.bv("entry", 3)
    install_p2p(ctx, machine, (X, Y), w, h, lambda c, r: entries[(c, r)])
    with rig:
        mc = MachineController("host")
        try:
            table = mc.get_p2p_routing_table(X, Y)
        except Exception as e:
            return unexpected(ctx, e, "p2p-table-unexpected-exception")
    ctx.observe(sorted(table.items()))
    ctx.witness("p2p-%s" % ("multiword" if h > 8 else "oneword"))
    ctx.prove(set(table) == set(entries), "p2p-table-wrong-chips",
              (w, h, sorted(table)[:8]))
    for key in sorted(entries):
        if key in table:
            ctx.prove(sand(isinstance(table[key], P2PTableEntry),
                           int(table[key]) == entries[key]),
                      "p2p-table-wrong-entry",
                      (w, h, key, table[key], entries[key]))
    no_problems(ctx, machine)


# ----------------------------------------------------------------------
# A3: get_system_info / get_machine
# ----------------------------------------------------------------------
def chip_record(ctx, idx, shift):
    """A chip's `info` reply: counts and links by pattern, quantities and
    unused bits symbolic."""
    cores = CORE_MENU[(idx + shift) % 4]
    mask = LINK_MENU[(3 * idx + shift) % len(LINK_MENU)]
    up = (idx + shift) % 2
    rtr = ctx.bv("rtr%d" % idx, 11)
    junk = ctx.bv("junk%d" % idx, 32)
    arg1 = ((junk & 0xfc0000e0) | cores | (mask << 8) | (rtr << 14) |
            (up << 25))
    ipw, ips = IP_MENU[idx % len(IP_MENU)]
    states = pattern_states(idx + shift)
    states[0] = 7
    return dict(arg1=arg1, arg2=ctx.bv("sdram%d" % idx, 32),
                arg3=ctx.bv("sram%d" % idx, 32), states=states,
                eth=ctx.bv("eth%d" % idx, 16), ip=ipw, ips=ips,
                cores=cores, mask=mask, up=bool(up), rtr=rtr)


def build_world(ctx, sizes, shifts, fatal=True):
    w, h = ctx.pick(sizes)
    shift = ctx.pick(shifts)
    rig = Rig(ctx)
    machine = rig.machine
    grid = [(x, y) for x in range(w) for y in range(h)]
    status = {}
    for c in grid:
        if c == (0, 0):
            status[c] = "ok"
            continue
        s = ctx.pick(["ok", "none", "fatal"] if fatal else ["ok", "none"])
        if s != "none":
            status[c] = s
    if "fatal" in status.values():
        machine.fatal_rc = ctx.pick([RC_P2P_NOREPLY, RC_P2P_TIMEOUT])
    machine.status = status

    def entry(col, row):
        if (col, row) not in status:
            return P2P_NONE
        if (col, row) == (0, 0):
            return P2P_MONITOR
        v = p2p_pattern(col, row, shift) % 6     # a direction
        return v
    install_p2p(ctx, machine, (0, 0), w, h, entry)
    for idx, c in enumerate(grid):
        if status.get(c) == "ok":
            machine.chips[c] = chip_record(ctx, idx, shift)
    return rig, machine, w, h, grid, status


def check_chip(ctx, chip, ci, rec):
    from rig.machine_control.consts import AppState
    ctx.prove(sand(ci.num_cores == rec["cores"],
                   len(ci.core_states) == rec["cores"]),
              "system-info-chip-num-cores", (chip, ci.num_cores))
    ctx.prove(ci.working_links == links_of(rec["mask"]),
              "system-info-chip-links", (chip, sorted(ci.working_links)))
    ctx.prove(ci.largest_free_rtr_mc_block == rec["rtr"],
              "system-info-chip-router-block", chip)
    ctx.prove(ci.largest_free_sdram_block == rec["arg2"],
              "system-info-chip-sdram", chip)
    ctx.prove(ci.largest_free_sram_block == rec["arg3"],
              "system-info-chip-sram", chip)
    ctx.prove(ci.ethernet_up is rec["up"], "system-info-chip-ethernet",
              chip)
    ctx.prove(ci.ip_address == rec["ips"], "system-info-chip-ip", chip)
    ctx.prove(sand(ci.local_ethernet_chip[0] == bits(rec["eth"], 8, 8),
                   ci.local_ethernet_chip[1] == bits(rec["eth"], 0, 8)),
              "system-info-chip-local-ethernet", chip)
    ctx.prove([int(s) for s in ci.core_states] ==
              rec["states"][:rec["cores"]] and
              all(isinstance(s, AppState) for s in ci.core_states),
              "system-info-chip-core-states", chip)


def h_system_info(ctx, sizes, shifts):
    from rig.machine_control import MachineController
    from rig.machine_control.consts import AppState
    from rig.links import Links
    rig, machine, w, h, grid, status = build_world(ctx, sizes, shifts)
    with rig:
        mc = MachineController("host")
        try:
            si = mc.get_system_info()
        except Exception as e:
            return unexpected(ctx, e, "system-info-unexpected-exception")
    ctx.observe(si.width, si.height, sorted((k, tuple(v))
                                            for k, v in si.items()))
    alive = set(c for c in grid if status.get(c) == "ok")
    routed = set(status)
    ctx.witness("probed")
    if len(alive) < len(routed):
        ctx.witness("unresponsive-chip")
    if len(routed) < len(grid):
        ctx.witness("unrouted-chip")
    # exactly the responding chips
    ctx.prove(not (set(si) - alive), "system-info-dead-chip-included",
              sorted(set(si) - alive))
    ctx.prove(not (alive - set(si)), "system-info-alive-chip-missing",
              sorted(alive - set(si)))
    ctx.prove(sorted(si.chips()) == sorted(si), "system-info-chips")
    for c in sorted(alive & set(si)):
        check_chip(ctx, c, si[c], machine.chips[c])
    # the extent: bounding box of the chips with a route
    ew = 1 + max(x for x, y in routed)
    eh = 1 + max(y for x, y in routed)
    ctx.prove((si.width, si.height) == (ew, eh), "system-info-wrong-extent",
              (si.width, si.height, ew, eh))
    # nothing was sent to a chip without a route; one probe per routed chip
    no_problems(ctx, machine)
    probed = sorted(q.where for q in machine.log if int(q.cmd) == CMD_INFO)
    ctx.prove(probed == sorted((x, y, 0) for x, y in routed),
              "system-info-probes", probed)
    check_views(ctx, si, alive, lambda c: machine.chips[c]["mask"],
                lambda c: machine.chips[c]["states"][
                    :machine.chips[c]["cores"]], max(w, si.width),
                max(h, si.height))
    eths = sorted(si.ethernet_connected_chips())
    ctx.prove(eths == sorted((c, machine.chips[c]["ips"]) for c in alive
                             if machine.chips[c]["up"]),
              "system-info-ethernet-connected-chips", eths)


def check_views(ctx, si, alive, mask_of, states_of, w, h, cores=True):
    """SystemInfo.dead_chips / links / dead_links / cores / __contains__
    against the chips `alive` with link masks and state lists given."""
    from rig.links import Links
    from rig.machine_control.consts import AppState
    dead = list(si.dead_chips())
    ctx.prove(len(dead) == len(set(dead)) and set(dead) == set(
        (x, y) for x in range(si.width) for y in range(si.height)) - alive,
        "system-info-dead-chips", sorted(dead))
    links = list(si.links())
    want = set((x, y, l) for (x, y) in alive for l in links_of(mask_of(
        (x, y))))
    ctx.prove(len(links) == len(set(links)) and set(links) == want,
              "system-info-links", sorted(links)[:6])
    dlinks = list(si.dead_links())
    dwant = set((x, y, l) for (x, y) in alive for l in Links) - want
    ctx.prove(not (dwant - set(dlinks)), "system-info-dead-link-missing",
              sorted(dwant - set(dlinks))[:6])
    ctx.prove(len(dlinks) == len(set(dlinks)) and
              not (set(dlinks) - dwant), "system-info-dead-links",
              sorted(set(dlinks) - dwant)[:6])
    if cores:
        got = list(si.cores())
        cwant = []
        for c in si:
            if c in alive:
                cwant.extend((c[0], c[1], p, AppState(s))
                             for p, s in enumerate(states_of(c)))
        ctx.prove(got == cwant, "system-info-cores", got[:4])
    for x in range(w + 1):
        for y in range(h + 1):
            c = (x, y)
            ok = c in alive
            ctx.prove(((x, y) in si) == ok, "system-info-contains-chip", c)
            for l in Links:
                ctx.prove(((x, y, l) in si) == (ok and (x, y, l) in want),
                          "system-info-contains-link", (x, y, l))
            if not cores:
                continue
            sts = states_of(c) if ok else []
            for p in (0, 1, 16, 17, 18):
                ctx.prove(((x, y, p) in si) == (p < len(sts)),
                          "system-info-contains-core", (x, y, p))
                for s in (AppState.run, AppState.idle, AppState.sync0):
                    ctx.prove(((x, y, p, s) in si) ==
                              (p < len(sts) and sts[p] == int(s)),
                              "system-info-contains-core-state",
                              (x, y, p, s))


def machine_matches(ctx, m, w, h, alive, figures, masks, label):
    """The place-and-route Machine `m` describes exactly the chips `alive`
    (within w x h) with figures[chip] = (cores, sdram, sram) and the links
    masks[chip]."""
    from rig.place_and_route import Cores, SDRAM, SRAM
    from rig.links import Links
    ctx.prove((m.width, m.height) == (w, h), label + "-size",
              (m.width, m.height, w, h))
    grid = set((x, y) for x in range(w) for y in range(h))
    ctx.prove(set(m) == alive, label + "-chips", sorted(m))
    ctx.prove(m.dead_chips == grid - alive, label + "-dead-chips",
              sorted(m.dead_chips))
    for c in sorted(grid):
        ctx.prove((c in m) == (c in alive), label + "-chips", c)
        if c not in alive:
            try:
                m[c]
                ctx.prove(False, label + "-dead-chip-has-resources", c)
            except IndexError:
                pass
            continue
        if c not in m:
            continue
        res = m[c]
        cores, sdram, sram = figures[c]
        ctx.prove(set(res) == {Cores, SDRAM, SRAM}, label + "-resources", c)
        ctx.prove(res[Cores] == cores, label + "-chip-cores",
                  (c, res[Cores], cores))
        ctx.prove(res[SDRAM] == sdram, label + "-chip-sdram",
                  (c, res[SDRAM], sdram))
        ctx.prove(res[SRAM] == sram, label + "-chip-sram",
                  (c, res[SRAM], sram))
    want = set((x, y, l) for (x, y) in alive for l in links_of(masks[(x, y)]))
    ctx.prove(set(m.iter_links()) == want, label + "-links",
              sorted(set(m.iter_links()) ^ want)[:6])
    ctx.prove(m.dead_links == set((x, y, l) for (x, y) in alive
                                  for l in Links) - want,
              label + "-dead-links", sorted(m.dead_links)[:6])
    for (x, y) in sorted(grid):
        for l in Links:
            ctx.prove(((x, y, l) in m) == ((x, y, l) in want),
                      label + "-contains-link", (x, y, l))


def h_get_machine(ctx, sizes, shifts):
    """The deprecated get_machine(): equal to build_machine of what
    get_system_info returns, and to the machine."""
    from rig.machine_control import MachineController
    from rig.place_and_route.utils import build_machine
    from rig.place_and_route import Cores, SDRAM, SRAM
    rig, machine, w, h, grid, status = build_world(ctx, sizes, shifts)
    with rig:
        mc = MachineController("host")
        try:
            m = mc.get_machine()
            si = mc.get_system_info()
        except Exception as e:
            return unexpected(ctx, e, "get-machine-unexpected-exception")
    ctx.observe(m.width, m.height, sorted(m.dead_chips),
                sorted(m.dead_links),
                [(c, m[c][Cores], m[c][SDRAM], m[c][SRAM]) for c in m])
    ctx.witness("get-machine")
    alive = set(c for c in grid if status.get(c) == "ok")
    routed = set(status)
    ew = 1 + max(x for x, y in routed)
    eh = 1 + max(y for x, y in routed)
    figures = {c: (machine.chips[c]["cores"], machine.chips[c]["arg2"],
                   machine.chips[c]["arg3"]) for c in alive}
    masks = {c: machine.chips[c]["mask"] for c in alive}
    machine_matches(ctx, m, ew, eh, alive, figures, masks, "get-machine")
    m2 = build_machine(si)
    same = (m.width == m2.width and m.height == m2.height and
            set(m) == set(m2) and m.dead_chips == m2.dead_chips and
            m.dead_links == m2.dead_links)
    ctx.prove(same, "get-machine-differs-from-build-machine")
    for c in m:
        if c in m2:
            ctx.prove(sand(*[m[c][r] == m2[c][r]
                             for r in (Cores, SDRAM, SRAM)]),
                      "get-machine-differs-from-build-machine", c)
    no_problems(ctx, machine)


def install_state(ctx, machine, w, h, status, shift, sym_sram=True):
    """(Re)define the machine: P2P table of w x h with the chips of `status`
    routed, a fresh `info` record for every chip that answers."""
    machine.status = status
    machine.regions = [r for r in machine.regions
                       if not (isinstance(r[1], int) and r[1] == P2P_BASE)]
    machine.chips = {}

    def entry(col, row):
        if (col, row) not in status:
            return P2P_NONE
        if (col, row) == (0, 0):
            return P2P_MONITOR
        return p2p_pattern(col, row, shift) % 6
    install_p2p(ctx, machine, (0, 0), w, h, entry)
    grid = [(x, y) for x in range(w) for y in range(h)]
    for idx, c in enumerate(grid):
        if status.get(c) == "ok":
            rec = chip_record(ctx, idx, shift)
            if not sym_sram:
                rec["arg3"] = 20000 + idx
            machine.chips[c] = rec
    return grid


def h_two_probes(ctx, menu, priors):
    """One controller probes, the machine changes extent, the same
    controller probes again: the second description is that of the machine
    as it is now (nothing remembered from the first probe, from
    discover_connections() or from a width/height it was given)."""
    from rig.machine_control import MachineController
    from rig.place_and_route.utils import build_machine
    from rig.place_and_route import Cores, SDRAM, SRAM
    (w1, h1), (w2, h2) = ctx.pick(menu)
    prior = ctx.pick(priors)
    hole = ctx.choose(2) if w2 * h2 > 2 else 0
    rig = Rig(ctx)
    machine = rig.machine
    machine.sver = (0, 0xffff0000 | 256, 0, b"SC&MP/SpiNNaker\0" b"2.0.0\0")
    st1 = {(x, y): "ok" for x in range(w1) for y in range(h1)}
    install_state(ctx, machine, w1, h1, st1, 1, sym_sram=False)
    with rig:
        mc = MachineController("host")
        try:
            if prior == "probe":
                si1 = mc.get_system_info()
                ctx.observe(si1.width, si1.height, sorted(si1))
                ctx.prove((si1.width, si1.height) == (w1, h1) and
                          set(si1) == set(st1), "system-info-first-probe")
            elif prior == "discover":
                ctx.observe(mc.discover_connections())
            else:
                mc._width, mc._height = w1, h1
            # the machine changes
            st2 = {(x, y): "ok" for x in range(w2) for y in range(h2)}
            if hole:
                st2[(0, 1) if h2 > 1 else (1, 0)] = "fatal"
            mark = len(machine.log)
            grid = install_state(ctx, machine, w2, h2, st2, 2,
                                 sym_sram=False)
            si = mc.get_system_info()
            m = build_machine(si)
        except Exception as e:
            return unexpected(ctx, e, "system-info-unexpected-exception")
    ctx.observe(si.width, si.height, sorted((k, tuple(v))
                                            for k, v in si.items()),
                sorted(m.dead_chips),
                [(c, m[c][Cores], m[c][SDRAM], m[c][SRAM]) for c in m])
    ctx.witness("second-probe-%s" % (
        "grown" if (w2 >= w1 and h2 >= h1) else
        "shrunk" if (w2 <= w1 and h2 <= h1) else "reshaped"))
    ctx.witness("prior-" + prior)
    alive = set(c for c in grid if st2.get(c) == "ok")
    ctx.prove((si.width, si.height) == (w2, h2),
              "system-info-stale-extent",
              (prior, (w1, h1), (w2, h2), si.width, si.height))
    ctx.prove(set(si) == alive, "system-info-second-probe-chips",
              sorted(si))
    for c in sorted(alive & set(si)):
        check_chip(ctx, c, si[c], machine.chips[c])
    check_views(ctx, si, alive, lambda c: machine.chips[c]["mask"],
                lambda c: machine.chips[c]["states"][
                    :machine.chips[c]["cores"]], max(w1, w2), max(h1, h2))
    figures = {c: (machine.chips[c]["cores"], machine.chips[c]["arg2"],
                   machine.chips[c]["arg3"]) for c in alive}
    masks = {c: machine.chips[c]["mask"] for c in alive}
    machine_matches(ctx, m, w2, h2, alive, figures, masks,
                    "second-probe-machine")
    probed = sorted(q.where for q in machine.log[mark:]
                    if int(q.cmd) == CMD_INFO)
    ctx.prove(probed == sorted((x, y, 0) for x, y in st2),
              "system-info-probes", probed)
    no_problems(ctx, machine)


# ----------------------------------------------------------------------
# A4: get_processor_status
# ----------------------------------------------------------------------
def neighbour_block(tag):
    """A neighbouring core's vcpu block: concrete, valid, different."""
    b = bytearray((0x11 * tag + i) % 251 for i in range(VCPU_SIZE))
    b[VCPU_LAYOUT["cpu_state"][0]] = APP_STATES[tag % 13]
    b[VCPU_LAYOUT["rt_code"][0]] = tag % 21
    lo, n = VCPU_NAME
    b[lo:lo + n] = (b"neighbour%d" % tag).ljust(n, b"\0")
    lo, n = VCPU_LAYOUT["iobuf"]
    b[lo:lo + n] = bytes(n)           # no console buffer
    return bytes(b)


def install_vcpu(ctx, machine, chip, p, block):
    """Core p's vcpu block (and those of the cores before and after it) at
    sv->vcpu_base + 128 p, for a symbolic word-aligned base that keeps the
    blocks clear of SDRAM and of the sv struct."""
    vbase = ctx.bv("vcpu_base", 32)
    ctx.assume(vbase % 4 == 0)
    ctx.assume(vbase >= 0x1000)
    ctx.assume(sor(vbase + 20 * VCPU_SIZE <= 0x60000000,
                   sand(vbase >= 0x80000000 + VCPU_SIZE,
                        vbase + 20 * VCPU_SIZE <= 0xf5000000)))
    machine.memory(chip).write(SV_BASE + SV_VCPU_BASE, le(vbase, 4))
    machine.region(chip, vbase + VCPU_SIZE * p - VCPU_SIZE,
                   cat(neighbour_block(1), block, neighbour_block(2)))
    return vbase


def h_processor_status(ctx, names):
    from rig.machine_control import MachineController
    from rig.machine_control.consts import AppState, RuntimeException
    X, Y = 2, 1
    rig = Rig(ctx)
    machine = rig.machine
    nbytes, name = NAME_MENU[ctx.pick(names)]
    p = ctx.bv("p", 5)
    ctx.assume(p <= 17)
    lo, n = VCPU_NAME
    head = ctx.bytes("vcpu_a", lo)
    tail = ctx.bytes("vcpu_b", VCPU_SIZE - lo - n)
    block = cat(head, nbytes, tail)
    ctx.assume(one_of(block[VCPU_LAYOUT["cpu_state"][0]], APP_STATES))
    ctx.assume(one_of(block[VCPU_LAYOUT["rt_code"][0]], RT_CODES))
    install_vcpu(ctx, machine, (X, Y), p, block)
    with rig:
        mc = MachineController("host")
        try:
            ps = mc.get_processor_status(p, X, Y)
        except Exception as e:
            return unexpected(ctx, e, "processor-status-unexpected-exception")
    ctx.observe(tuple(ps))
    ctx.witness("status")

    def f(name):
        off, size = VCPU_LAYOUT[name]
        return word_at(block, off, size)
    for i in range(8):
        ctx.prove(ps.registers[i] == f("r%d" % i),
                  "processor-status-registers", i)
    ctx.prove(len(ps.registers) == 8 and len(ps.user_vars) == 4,
              "processor-status-registers")
    for i in range(4):
        ctx.prove(ps.user_vars[i] == f("user%d" % i),
                  "processor-status-user-vars", i)
    for attr, field in (("program_state_register", "psr"),
                        ("stack_pointer", "sp"), ("link_register", "lr"),
                        ("phys_cpu", "phys_cpu"),
                        ("mbox_ap_msg", "mbox_ap_msg"),
                        ("mbox_mp_msg", "mbox_mp_msg"),
                        ("mbox_ap_cmd", "mbox_ap_cmd"),
                        ("mbox_mp_cmd", "mbox_mp_cmd"),
                        ("sw_count", "sw_count"), ("sw_file", "sw_file"),
                        ("sw_line", "sw_line"), ("time", "time"),
                        ("iobuf_address", "iobuf"), ("app_id", "app_id")):
        ctx.prove(getattr(ps, attr) == f(field),
                  "processor-status-" + attr.replace("_", "-"),
                  (getattr(ps, attr), f(field)))
    ctx.prove(sand(isinstance(ps.cpu_state, AppState),
                   int(ps.cpu_state) == f("cpu_state")),
              "processor-status-cpu-state", ps.cpu_state)
    ctx.prove(sand(isinstance(ps.rt_code, RuntimeException),
                   int(ps.rt_code) == f("rt_code")),
              "processor-status-rt-code", ps.rt_code)
    v = f("sw_ver")
    ctx.prove(sand(ps.version[0] == bits(v, 16, 8),
                   ps.version[1] == bits(v, 8, 8),
                   ps.version[2] == bits(v, 0, 8)),
              "processor-status-version", (v, ps.version))
    ctx.prove(ps.app_name == name, "processor-status-app-name",
              (ps.app_name, name))
    no_problems(ctx, machine)


# ----------------------------------------------------------------------
# A5: get_iobuf_bytes / get_iobuf
# ----------------------------------------------------------------------
def h_iobuf(ctx, sizes, nblocks, text=False):
    from rig.machine_control import MachineController
    X, Y = 1, 1
    rig = Rig(ctx)
    machine = rig.machine
    size = ctx.pick(sizes)
    nb = ctx.pick(nblocks)
    p = ctx.bv("p", 5)
    ctx.assume(p <= 17)
    machine.memory((X, Y)).write(SV_BASE + SV_IOBUF_SIZE, le(size, 4))
    addrs = []
    for k in range(nb):
        a = ctx.bv("block%d" % k, 32)
        ctx.assume(sand(a % 4 == 0, a >= 0x60000000,
                        a + size + 16 <= 0x80000000))
        for b in addrs:
            ctx.assume(sor(a + size + 16 <= b, b + size + 16 <= a))
        addrs.append(a)
    first = addrs[0] if nb else 0
    off, n = VCPU_LAYOUT["iobuf"]
    block = cat(ctx.bytes("vcpu_a", off), le(first, 4),
                ctx.bytes("vcpu_b", VCPU_SIZE - off - n))
    install_vcpu(ctx, machine, (X, Y), p, block)
    lengths, texts = [], []
    for k in range(nb):
        nxt = addrs[k + 1] if k + 1 < nb else 0
        length = ctx.bv("length%d" % k, 32)
        ctx.assume(length <= size)
        if text:
            data = bytes((0x41 + 7 * k + i) % 0x7f for i in range(size))
        else:
            data = ctx.bytes("text%d" % k, size)
        hdr = cat(le(nxt, 4), le(ctx.bv("time%d" % k, 32), 4),
                  le(ctx.bv("ms%d" % k, 32), 4), le(length, 4))
        machine.region((X, Y), addrs[k], cat(hdr, data))
        lengths.append(length)
        texts.append(data)
    with rig:
        mc = MachineController("host")
        try:
            if text:
                got = mc.get_iobuf(p, X, Y)
            else:
                got = mc.get_iobuf_bytes(p, X, Y)
        except Exception as e:
            return unexpected(ctx, e, "iobuf-unexpected-exception")
    ctx.observe(got)
    ctx.witness("iobuf-%d" % nb)
    want = b""
    for k in range(nb):
        ln = lengths[k]
        ln = int(ln) if is_sym(ln) else ln
        want = want + texts[k][:ln]
    if text:
        ctx.prove(isinstance(got, str) and got == want.decode("ascii"),
                  "iobuf-wrong-text", (got, want))
    else:
        ctx.prove(len(got) == len(want), "iobuf-wrong-length",
                  (len(got), len(want)))
        if len(got) == len(want):
            ctx.prove(got == want, "iobuf-wrong-bytes", (got, want))
    # every block of the chain was read, once, nothing else from SDRAM
    blocks = [a for (c, a, n) in machine.read_log
              if decide(sand(a >= 0x60000000, a < 0x80000000))]
    ctx.prove(len(blocks) == nb, "iobuf-blocks-read", (len(blocks), nb))
    for a, b in zip(blocks, addrs):
        ctx.prove(a == b, "iobuf-blocks-read")
    no_problems(ctx, machine)


def install_console(ctx, machine, chip, p, size, nb, full_before_last):
    """sv->iobuf_size = size on `chip`, and a console chain of nb blocks for
    core p: symbolic addresses, times and lengths, symbolic text.  With
    full_before_last every block but the last is full (as SARK chains
    them).  Returns (block addresses, lengths, texts)."""
    machine.memory(chip).write(SV_BASE + SV_IOBUF_SIZE, le(size, 4))
    addrs = []
    for k in range(nb):
        a = ctx.bv("block%d" % k, 32)
        ctx.assume(sand(a % 4 == 0, a >= 0x60000000,
                        a + size + 16 <= 0x80000000))
        for b in addrs:
            ctx.assume(sor(a + size + 16 <= b, b + size + 16 <= a))
        addrs.append(a)
    first = addrs[0] if nb else 0
    off, n = VCPU_LAYOUT["iobuf"]
    block = cat(ctx.bytes("vcpu_a", off), le(first, 4),
                ctx.bytes("vcpu_b", VCPU_SIZE - off - n))
    install_vcpu(ctx, machine, chip, p, block)
    lengths, texts = [], []
    for k in range(nb):
        nxt = addrs[k + 1] if k + 1 < nb else 0
        length = ctx.bv("length%d" % k, 32)
        if full_before_last and k + 1 < nb:
            ctx.assume(length == size)
        else:
            ctx.assume(length <= size)
        data = ctx.bytes("text%d" % k, size)
        hdr = cat(le(nxt, 4), le(ctx.bv("time%d" % k, 32), 4),
                  le(ctx.bv("ms%d" % k, 32), 4), le(length, 4))
        machine.region(chip, addrs[k], cat(hdr, data))
        lengths.append(length)
        texts.append(data)
    return addrs, lengths, texts


def h_iobuf_history(ctx, sizes):
    """One controller dumps the console of a core on one chip and then on
    another whose sv->iobuf_size differs: each dump is that chip's console
    (nothing about block sizes carried over from the earlier chip)."""
    from rig.machine_control import MachineController
    small, large = sizes
    A, B = (0, 0), (1, 0)
    rig = Rig(ctx)
    machine = rig.machine
    order = ctx.pick(["small-first", "large-first"])
    nb_large = ctx.pick([1, 2])
    p = ctx.bv("p", 5)
    ctx.assume(p <= 17)
    cons = {A: (small, install_console(ctx, machine, A, p, small, 1, True)),
            B: (large, install_console(ctx, machine, B, p, large, nb_large,
                                       True))}
    seq = [A, B] if order == "small-first" else [B, A]
    got = {}
    with rig:
        mc = MachineController("host")
        try:
            for chip in seq:
                got[chip] = mc.get_iobuf_bytes(p, chip[0], chip[1])
        except Exception as e:
            return unexpected(ctx, e, "iobuf-unexpected-exception")
    ctx.observe([got[c] for c in seq])
    ctx.witness("history-" + order)
    beyond = False
    for chip in seq:
        size, (addrs, lengths, texts) = cons[chip]
        want = b""
        for k in range(len(addrs)):
            ln = lengths[k]
            ln = int(ln) if is_sym(ln) else ln
            if chip == B and ln > small:
                beyond = True
            want = want + texts[k][:ln]
        g = got[chip]
        ctx.prove(len(g) == len(want), "iobuf-wrong-length",
                  (order, chip, len(g), len(want)))
        if len(g) == len(want):
            ctx.prove(g == want, "iobuf-wrong-bytes", (order, chip, g, want))
        blocks = [a for (c, a, n) in machine.read_log if c == chip and
                  decide(sand(a >= 0x60000000, a < 0x80000000))]
        ctx.prove(len(blocks) == len(addrs), "iobuf-blocks-read",
                  (chip, len(blocks), len(addrs)))
        for a, b in zip(blocks, addrs):
            ctx.prove(a == b, "iobuf-blocks-read")
    if beyond:
        ctx.witness("block-beyond-smaller-size")
    no_problems(ctx, machine)


# ----------------------------------------------------------------------
# A6: get_router_diagnostics;  A7: get_software_version
# ----------------------------------------------------------------------
def h_diagnostics(ctx):
    from rig.machine_control import MachineController
    X, Y = 0, 1
    rig = Rig(ctx)
    machine = rig.machine
    words = [ctx.bv("counter%d" % i, 32) for i in range(16)]
    machine.region((X, Y), RTR_DIAG, cat(*[le(v, 4) for v in words]))
    with rig:
        mc = MachineController("host")
        try:
            d = mc.get_router_diagnostics(X, Y)
        except Exception as e:
            return unexpected(ctx, e, "diagnostics-unexpected-exception")
    ctx.observe(tuple(d))
    ctx.witness("diagnostics")
    ctx.prove(len(d) == 16, "diagnostics-wrong-count")
    for i, name in enumerate(DIAG_NAMES):
        ctx.prove(sand(d[i] == words[i], getattr(d, name) == words[i]),
                  "diagnostics-wrong-counter", (i, name))
    no_problems(ctx, machine)


def h_sver(ctx):
    from rig.machine_control import MachineController
    rig = Rig(ctx)
    machine = rig.machine
    arg1 = ctx.bv("arg1", 32)
    arg3 = ctx.bv("arg3", 32)
    buf = ctx.bv("buffer_size", 16)
    ver = ctx.bv("version", 16)
    kind = ctx.pick(["legacy", "semver"])
    if kind == "legacy":
        ctx.assume(ver != 0xffff)
        data, name = ctx.pick(LEGACY_NAMES)
    else:
        ctx.assume(ver == 0xffff)
        data, name, version, labels = ctx.pick(SEMVER_MENU)
    machine.sver = (arg1, (ver << 16) | buf, arg3, data)
    X, Y, P = 1, 2, 3
    with rig:
        mc = MachineController("host")
        try:
            ci = mc.get_software_version(X, Y, P)
        except Exception as e:
            return unexpected(ctx, e, "sver-unexpected-exception")
    ctx.observe(tuple(ci))
    ctx.witness("sver-" + kind)
    ctx.prove(sand(ci.position[0] == bits(arg1, 24, 8),
                   ci.position[1] == bits(arg1, 16, 8)),
              "sver-position", (arg1, ci.position))
    ctx.prove(ci.physical_cpu == bits(arg1, 8, 8), "sver-physical-cpu")
    ctx.prove(ci.virt_cpu == bits(arg1, 0, 8), "sver-virtual-cpu")
    ctx.prove(ci.buffer_size == buf, "sver-buffer-size")
    ctx.prove(ci.build_date == arg3, "sver-build-date")
    ctx.prove(ci.version_string == name, "sver-name",
              (ci.version_string, name))
    major, minor, patch = ci.software_version
    if kind == "legacy":
        ctx.prove(sand(major * 100 + minor == ver, minor >= 0, minor < 100,
                       major >= 0, patch == 0),
                  "sver-legacy-version", (ver, ci.software_version))
        ctx.prove(ci.software_version_labels == "", "sver-labels")
    else:
        ctx.prove((major, minor, patch) == version, "sver-semantic-version",
                  (ci.software_version, version))
        ctx.prove(ci.software_version_labels == labels, "sver-labels",
                  (ci.software_version_labels, labels))
    q = machine.log[-1]
    ctx.prove(int(q.cmd) == 0 and q.where == (X, Y, P), "sver-wrong-target")


# ----------------------------------------------------------------------
# Part B: derived models on a SystemInfo built directly
# ----------------------------------------------------------------------
def choose_alive(ctx, w, h):
    grid = [(x, y) for x in range(w) for y in range(h)]
    alive = [c for c in grid if ctx.choose(2) == 0]
    return grid, alive


def h_build_machine(ctx, sizes, linkmode, nsym=3):
    from rig.machine_control.machine_controller import SystemInfo, ChipInfo
    from rig.place_and_route.utils import build_machine
    from rig.routing_table.utils import build_routing_table_target_lengths
    from rig.place_and_route import Cores, SDRAM, SRAM
    w, h = ctx.pick(sizes)
    grid, alive = choose_alive(ctx, w, h)
    si = SystemInfo(w, h)
    figures, masks, rtrs = {}, {}, {}
    for idx, c in enumerate(grid):
        if c not in alive:
            continue
        if linkmode == "all":
            mask = ctx.choose(64)
        elif linkmode == "menu":
            mask = LINK_MENU[ctx.choose(4)]
        else:
            mask = LINK_MENU[idx % len(LINK_MENU)]
        cores = (ctx.int("cores%d" % idx, 0, 31) if nsym >= 3
                 else CORE_MENU[idx % 4])
        sdram = (ctx.int("sdram%d" % idx, 0, (1 << 32) - 1) if nsym >= 1
                 else 1000 + idx % 2)
        sram = (ctx.int("sram%d" % idx, 0, (1 << 32) - 1) if nsym >= 2
                else 500 + idx % 3)
        rtr = ctx.int("rtr%d" % idx, 0, 2047)
        figures[c], masks[c], rtrs[c] = (cores, sdram, sram), mask, rtr
        si[c] = ChipInfo(num_cores=cores, core_states=[],
                         working_links=links_of(mask),
                         largest_free_sdram_block=sdram,
                         largest_free_sram_block=sram,
                         largest_free_rtr_mc_block=rtr)
    try:
        m = build_machine(si)
        lengths = build_routing_table_target_lengths(si)
    except Exception as e:
        return unexpected(ctx, e, "build-machine-unexpected-exception")
    ctx.observe(m.width, m.height, sorted(m.dead_chips),
                sorted(m.dead_links), sorted(m.chip_resource_exceptions),
                [(c, m[c][Cores], m[c][SDRAM], m[c][SRAM]) for c in m],
                sorted(lengths.items()))
    ctx.witness("machine-%s" % ("empty" if not alive else
                                "full" if len(alive) == len(grid)
                                else "holes"))
    if m.chip_resource_exceptions:
        ctx.witness("exceptions")
    if alive and not m.chip_resource_exceptions:
        ctx.witness("uniform")
    machine_matches(ctx, m, w, h, set(alive), figures, masks,
                    "build-machine")
    ctx.prove(set(lengths) == set(alive), "target-lengths-wrong-chips",
              sorted(lengths))
    for c in alive:
        if c in lengths:
            ctx.prove(lengths[c] == rtrs[c], "target-lengths-wrong-value",
                      (c, lengths[c], rtrs[c]))
    check_views(ctx, si, set(alive), lambda c: masks[c], None, w, h,
                cores=False)


# profiles: per chip (number of cores, core numbers whose state is symbolic)
PROFILES = (
    ((18, (0, 1, 2)), (18, (0, 1, 2)), (18, (0, 1, 2)), (18, (0, 1, 2)),
     (18, (0, 1, 2)), (18, (0, 1, 2))),
    ((18, (0, 1, 17)), (17, (0, 1, 16)), (2, (0, 1)), (1, (0,)),
     (18, (1, 2, 3)), (17, (0, 15, 16))),
    ((17, (0, 2, 16)), (18, (0, 16, 17)), (18, (1, 2, 17)), (2, (0, 1)),
     (1, (0,)), (18, (0, 2, 3))),
    ((1, (0,)), (2, (0, 1)), (18, (0, 1, 3)), (17, (1, 15, 16)),
     (18, (0, 16, 17)), (2, (1,))),
)


def reservations_hold(ctx, constraints, alive, states, label):
    """Per chip: the reservations that apply (global ones and its own) do
    not overlap and cover exactly the cores whose state is not idle."""
    from rig.place_and_route.constraints import ReserveResourceConstraint
    from rig.place_and_route import Cores
    ok = all(isinstance(k, ReserveResourceConstraint) and
             k.resource is Cores and isinstance(k.reservation, slice) and
             k.reservation.step is None and
             (k.location is None or k.location in alive)
             for k in constraints)
    ctx.prove(ok, label + "-malformed", repr(constraints)[:300])
    if not ok:
        return
    for c in alive:
        mine = [k.reservation for k in constraints
                if k.location is None or k.location == c]
        for i, a in enumerate(mine):
            ctx.prove(sand(0 <= a.start, a.start < a.stop),
                      label + "-empty-or-negative", (c, a))
            for b in mine[i + 1:]:
                ctx.prove(sor(a.stop <= b.start, b.stop <= a.start),
                          label + "-overlap", (c, a, b))
        top = max([18] + [a.stop for a in mine])
        for p in range(top):
            covered = any(a.start <= p < a.stop for a in mine)
            if p < len(states[c]):
                busy = states[c][p] != IDLE
            else:
                busy = False
            if covered:
                ctx.prove(same_truth(busy, True), label + "-idle-core-reserved",
                          (c, p, mine))
            else:
                ctx.prove(same_truth(busy, False),
                          label + "-busy-core-not-reserved", (c, p, mine))


def h_core_constraints(ctx, sizes, profiles, nsym):
    from rig.machine_control.machine_controller import SystemInfo, ChipInfo
    from rig.place_and_route.utils import build_core_constraints
    w, h = ctx.pick(sizes)
    grid, alive = choose_alive(ctx, w, h)
    prof = PROFILES[ctx.pick(profiles)]
    si = SystemInfo(w, h)
    states = {}
    for idx, c in enumerate(grid):
        if c not in alive:
            continue
        n, sym = prof[idx]
        sts = [IDLE] * n
        for p in sym[:nsym]:
            s = ctx.int("state_%d_%d" % (idx, p), 0, 15)
            ctx.assume(one_of(s, APP_STATES))
            sts[p] = s
        states[c] = sts
        si[c] = ChipInfo(num_cores=n, core_states=sts)
    try:
        cs = build_core_constraints(si)
    except Exception as e:
        return unexpected(ctx, e, "core-constraints-unexpected-exception")
    ctx.observe([(k.location, k.reservation.start, k.reservation.stop)
                 for k in cs])
    if any(k.location is None for k in cs):
        ctx.witness("global")
    if any(k.location is not None for k in cs):
        ctx.witness("per-chip")
    if any(k.reservation.stop - k.reservation.start > 1 for k in cs):
        ctx.witness("merged-range")
    reservations_hold(ctx, cs, alive, states, "core-reservations")


def h_core_constraints_enum(ctx, cfgs):
    """The same with genuine AppState members (chosen, not symbolic)."""
    from rig.machine_control.machine_controller import SystemInfo, ChipInfo
    from rig.machine_control.consts import AppState
    from rig.place_and_route.utils import build_core_constraints
    (w, h), positions = ctx.pick(cfgs)
    grid = [(x, y) for x in range(w) for y in range(h)]
    members = sorted(AppState, key=int)
    si = SystemInfo(w, h)
    states = {}
    for idx, c in enumerate(grid):
        n = (18, 17)[idx % 2]
        sts = [AppState.idle] * n
        for p in positions:
            sts[p] = ctx.pick(members)
        states[c] = [int(s) for s in sts]
        si[c] = ChipInfo(num_cores=n, core_states=sts)
    cs = build_core_constraints(si)
    ctx.observe([(k.location, k.reservation.start, k.reservation.stop)
                 for k in cs])
    ctx.witness("enum-states")
    reservations_hold(ctx, cs, grid, states, "core-reservations")


def h_pnr_twice(ctx):
    """place_and_route_wrapper run twice on the caller's own constraints
    list, the machine probed again in between with other cores busy: what
    the placer is handed each time reserves exactly that probe's non-idle
    cores, next to the caller's constraints, and the caller's list is left
    as it was."""
    from rig.machine_control.machine_controller import SystemInfo, ChipInfo
    from rig.machine_control.consts import AppState
    import importlib
    wmod = importlib.import_module("rig.place_and_route.wrapper")
    from rig.place_and_route import Cores, SDRAM
    from rig.place_and_route.constraints import (
        AlignResourceConstraint, ReserveResourceConstraint)
    sequential = importlib.import_module(
        "rig.place_and_route.place.sequential")
    from rig.netlist import Net
    from rig.links import Links
    grid = [(0, 0), (1, 0)]
    mine = AlignResourceConstraint(SDRAM, 4)
    own = ctx.pick(("own list", "default"))
    caller_list = [mine]
    members = (AppState.idle, AppState.run, AppState.pause)
    seen = []

    def place(vr, nets, machine, constraints, **kw):
        seen.append(list(constraints))
        return sequential.place(vr, nets, machine, constraints, **kw)

    vr = {"v0": {Cores: 1, SDRAM: ctx.int("sd", 0, 8)}, "v1": {Cores: 1}}
    nets = [Net("v0", ["v1"])]
    keys = {nets[0]: (0x10, 0xfffffff0)}
    apps = {"v0": "a.aplx", "v1": "a.aplx"}
    probes = []
    for run in range(2):
        si = SystemInfo(2, 1)
        states = {}
        for x, c in enumerate(grid):
            # core 1 in any state; core 2 of the first chip busy in the first
            # probe only
            sts = [AppState.run, ctx.pick(members),
                   AppState.run if (run, x) == (0, 0) else AppState.idle,
                   AppState.idle, AppState.idle, AppState.idle]
            states[c] = [int(st) for st in sts]
            si[c] = ChipInfo(
                num_cores=6, core_states=sts,
                working_links=set([Links.east] if x == 0 else [Links.west]),
                largest_free_sdram_block=ctx.int("free%d%d" % (run, x),
                                                 64, 128),
                largest_free_sram_block=16,
                largest_free_rtr_mc_block=1024, ethernet_up=(x == 0),
                ip_address="10.0.0.1", local_ethernet_chip=(0, 0))
        probes.append(states)
        kw = {"constraints": caller_list} if own == "own list" else {}
        try:
            wmod.place_and_route_wrapper(vr, apps, nets, keys, si,
                                         place=place, **kw)
        except Exception as e:
            ctx.observe(type(e).__name__)
            ctx.prove(False, "place-and-route-wrapper-raised", repr(e))
            return
    ctx.witness("two runs")
    ctx.observe([[(type(k).__name__, getattr(k, "location", None),
                   getattr(k, "reservation", None)) for k in cs]
                 for cs in seen])
    ctx.prove(caller_list == [mine], "caller-constraints-list-modified",
              len(caller_list))
    for run, (cs, states) in enumerate(zip(seen, probes)):
        res = [k for k in cs if isinstance(k, ReserveResourceConstraint)]
        rest = [k for k in cs if not isinstance(k, ReserveResourceConstraint)]
        ctx.prove(rest == ([mine] if own == "own list" else []),
                  "caller-constraints-not-passed-on", (run, len(rest)))
        reservations_hold(ctx, res, grid, states,
                          "core-reservations-run-%d" % (run + 1))


# ----------------------------------------------------------------------
def units(tier, seed):
    q = tier == "quick"
    us = []
    # ---- A ----
    us.append(Unit("chip info: bit fields", h_chip_info, dict(
        mode="bits", cores=(0, 1, 2, 17, 18) if q else (None,),
        shifts=(0, 6) if q else (0, 4, 9)), split=7,
        witnesses=("chip-info", "core-0", "core-17")))
    us.append(Unit("chip info: symbolic core states", h_chip_info, dict(
        mode="states", cores=(1, 2, 17, 18), shifts=(1,) if q else (1, 2),
        sym=(0, -1) if q else (0, 1, -1)), split=8,
        witnesses=("chip-info", "core-17")))
    us.append(Unit("chip info wrappers", h_wrappers, {}, split=4,
                   witnesses=("links", "ip-none", "ip-up", "cores")))
    us.append(Unit("p2p table: symbolic words", h_p2p, dict(
        dims=((1, 1), (2, 1), (1, 2)), mode="words"), split=4,
        witnesses=("p2p-oneword",)))
    big = ((2, 2), (3, 2), (1, 8), (1, 9), (2, 17))
    if not q:
        big += ((3, 9), (2, 16), (1, 24))
    us.append(Unit("p2p table: one symbolic entry", h_p2p, dict(
        dims=big, mode="one", shifts=(0, 5) if q else tuple(range(8))),
        split=6,
        witnesses=("p2p-oneword", "p2p-multiword")))
    if not q:
        us.append(Unit("p2p table: large, pattern", h_p2p, dict(
            dims=((8, 8), (255, 1), (1, 255)), mode="pattern"), split=5,
            witnesses=("p2p-oneword", "p2p-multiword"),
            path_timeout_s=300))
    sizes = ((1, 1), (2, 1), (1, 2), (2, 2))
    us.append(Unit("system info", h_system_info, dict(
        sizes=sizes if q else sizes + ((3, 2), (2, 3)),
        shifts=(0, 1, 2, 3)), split=8,
        witnesses=("probed", "unresponsive-chip", "unrouted-chip")))
    us.append(Unit("get_machine", h_get_machine, dict(
        sizes=sizes if q else sizes + ((3, 1), (1, 3)), shifts=(1,)),
        split=8, witnesses=("get-machine",)))
    us.append(Unit("two probes, one controller", h_two_probes, dict(
        menu=(((1, 1), (2, 1)), ((1, 1), (1, 2)), ((1, 1), (2, 2)),
              ((2, 1), (2, 2)), ((2, 2), (1, 1)), ((2, 1), (1, 2))) +
        (() if q else (((2, 2), (3, 2)), ((1, 2), (2, 3)),
                       ((3, 2), (2, 1)))),
        priors=("probe", "discover", "assigned")), split=6,
        witnesses=("second-probe-grown", "second-probe-shrunk",
                   "second-probe-reshaped", "prior-probe", "prior-discover",
                   "prior-assigned")))
    us.append(Unit("processor status", h_processor_status, dict(
        names=(0, 1) if q else (0, 1, 2, 3)), split=6,
        witnesses=("status",)))
    us.append(Unit("iobuf bytes: 0-2 blocks", h_iobuf, dict(
        sizes=(4,) if q else (4, 8), nblocks=(0, 1, 2)), split=6,
        witnesses=("iobuf-0", "iobuf-1", "iobuf-2")))
    us.append(Unit("iobuf bytes: 3 blocks", h_iobuf, dict(
        sizes=(2,) if q else (2, 4, 8), nblocks=(3,)), split=8,
        witnesses=("iobuf-3",)))
    us.append(Unit("iobuf text", h_iobuf, dict(
        sizes=(4,), nblocks=(0, 1, 2) if q else (0, 1, 2, 3), text=True),
        split=5, witnesses=("iobuf-0", "iobuf-2")))
    us.append(Unit("iobuf history: two chips, one controller",
                   h_iobuf_history, dict(sizes=(2, 6) if q else (2, 8)),
                   split=6, witnesses=(
                       "history-small-first", "history-large-first",
                       "block-beyond-smaller-size")))
    us.append(Unit("router diagnostics", h_diagnostics, {},
                   witnesses=("diagnostics",)))
    us.append(Unit("software version", h_sver, {}, split=3,
                   witnesses=("sver-legacy", "sver-semver")))
    # ---- B ----
    us.append(Unit("build_machine: one chip, every link subset",
                   h_build_machine, dict(sizes=((1, 1),), linkmode="all"),
                   split=4, witnesses=("machine-full", "machine-empty")))
    us.append(Unit("build_machine: symbolic figures", h_build_machine, dict(
        sizes=((2, 1), (1, 2), (3, 1)), linkmode="pattern"), split=7,
        witnesses=("machine-full", "machine-holes", "machine-empty",
                   "exceptions", "uniform")))
    us.append(Unit("build_machine: 2x2, symbolic figures",
                   h_build_machine, dict(
                       sizes=((2, 2),), linkmode="pattern", nsym=3), split=8,
                   witnesses=("machine-full", "machine-holes", "exceptions",
                              "uniform")))
    if not q:
        us.append(Unit("build_machine: 3x2, symbolic SDRAM and SRAM",
                       h_build_machine, dict(
                           sizes=((3, 2),), linkmode="pattern", nsym=2),
                       split=10,
                       witnesses=("machine-full", "machine-holes",
                                  "exceptions", "uniform")))
    us.append(Unit("build_machine: link menus", h_build_machine, dict(
        sizes=((2, 1),) if q else ((2, 1), (2, 2)), linkmode="menu",
        nsym=1), split=6, witnesses=("machine-full", "machine-holes")))
    us.append(Unit("core reservations: 1-3 chips", h_core_constraints, dict(
        sizes=((1, 1), (2, 1), (1, 2), (3, 1)), profiles=(0, 1, 2, 3),
        nsym=3), split=8, witnesses=("global", "per-chip", "merged-range")))
    us.append(Unit("core reservations: 2x2", h_core_constraints, dict(
        sizes=((2, 2),), profiles=(0, 1) if q else (0, 1, 2, 3), nsym=2),
        split=9, witnesses=("global", "per-chip", "merged-range")))
    if not q:
        us.append(Unit("core reservations: 3x2", h_core_constraints, dict(
            sizes=((3, 2),), profiles=(0, 1), nsym=2), split=10,
            witnesses=("global", "per-chip", "merged-range")))
    us.append(Unit("core reservations: AppState members",
                   h_core_constraints_enum, dict(
                       cfgs=(((1, 1), (0, 1)), ((2, 1), (1,)))), split=5,
                   witnesses=("enum-states",)))
    us.append(Unit("place_and_route_wrapper twice, probed again in between",
                   h_pnr_twice, {}, split=5, witnesses=("two runs",)))
    return us
