import random, sys, warnings
warnings.simplefilter("ignore")
from rig.routing_table import RoutingTableEntry as RTE, Routes, MinimisationFailedError
from rig.routing_table import ordered_covering as oc, remove_default_routes as rdr, minimise_table
from rig.routing_table.utils import intersect
B=int(sys.argv[3]) if len(sys.argv)>3 else 4
def lookup(table,k,src):
    for e in table:
        if k & e.mask == e.key:
            return frozenset(e.route), e
    return None, None
def gen(k,m): return bin((~k)&(~m)&((1<<B)-1)).count("1")
random.seed(int(sys.argv[1])); bad=0
routes=[frozenset([Routes.north]),frozenset([Routes.south]),frozenset([Routes.core(1)]),frozenset([Routes.north,Routes.core(2)]), frozenset([Routes.east])]
srcs=[{None},{Routes.south},{Routes.north},{Routes.west},{Routes.south,Routes.west}]
HI=(0xffffffff>>B)<<B
for it in range(int(sys.argv[2])):
    n=random.randint(1,6)
    tab=[]
    orth=random.random()<0.5
    for _ in range(n):
        m=random.randrange(1<<B); k=random.randrange(1<<B)&m
        if orth and any(intersect(k,m|HI,e.key,e.mask) for e in tab): continue
        tab.append(RTE(random.choice(routes),k,m|HI,random.choice(srcs)))
    if not orth:
        tab.sort(key=lambda e: gen(e.key,e.mask))
    else:
        random.shuffle(tab)
    if not tab: continue
    tl=random.choice([None,None,0,1,2,3,10])
    for name,f in [("oc",oc.minimise),("rdr",rdr.minimise),("mt",minimise_table)]:
        try:
            out=f(list(tab),tl)
        except MinimisationFailedError as e:
            continue
        if len(out)>len(tab) or (tl is not None and len(out)>tl):
            bad+=1; print("LEN",name,tab,out,tl)
        for k in range(1<<B):
            r,e=lookup(tab,k,None)
            if r is None: continue
            r2,e2=lookup(out,k,None)
            if r2 is not None:
                if r2!=r or not (e.sources<=e2.sources):
                    bad+=1; print("BAD",name,"key",k,[str(x) for x in tab],"->",[str(x) for x in out],tl); break
            else:
                # must be default-routable
                ok=len(e.route)==1 and len(e.sources)==1 and None not in e.sources
                if ok:
                    s=next(iter(e.sources)); t=next(iter(e.route))
                    ok=s.is_link and t.is_link and s.opposite is t
                if not ok:
                    bad+=1; print("BADDEF",name,"key",k,[str(x) for x in tab],"->",[str(x) for x in out],tl); break
print("done bad",bad)
