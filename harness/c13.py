"""C13 -- file-like memory views behave as bounded files and stay inside their
region.  Runs the real MemoryIO / SlicedMemoryIO methods on symbolic base
address, length, seek offsets, read counts and slice bounds (unbounded
mathematical integers) against a logging controller and a reference model of a
fixed-length file."""
import warnings

from sx.runner import Unit
from sx.proxies import (sand, sor, ite, smin, smax, SymInt, is_sym,
                        same_truth, snot)

PROPERTY = "C13"

META = {
    "bounds": "operation sequences of length <= 3 (quick) / 4 (thorough) "
              "over {seek from 0/1/2, read(n), read(), write, slice [a:b] "
              "[a:] [:b], slice of slice, tell, close, free} applied to the "
              "root view or the most recent slice; write payloads of length "
              "1 or 3 (quick), 0,1,2,6 (thorough) with symbolic bytes; base "
              "address, view length (>= 0, zero included), every seek "
              "offset, read count and slice bound are unbounded symbolic "
              "integers of any sign",
    "stubs": ["the MachineController is a logging stub: read(addr, n) returns "
              "a token recording the address and length *terms*, write logs "
              "(addr, payload); sdram_free logs its argument"],
    "assumptions": [
        "reference model: position may be any integer (rig's own tests pin "
        "tell() == -3 after seek(-3)); nothing is transferred from a position "
        "outside [0, len); a transfer is clipped at len; the position "
        "advances by the bytes transferred",
        "which bytes a controller read returns for (addr, n) is C07's "
        "subject; here a read is identified by its address and length",
    ],
    "outside_claim": ["sequences longer than 4 operations",
                      "views as context managers beyond the one unit: a view "
                      "of 8..64 bytes or its slice [2:6], one write inside "
                      "the block, four ways out (end, ValueError, OSError, "
                      "an IOError from the machine)",
                      "code that needs the length of a view as a real int "
                      "(len()) on views of unbounded symbolic length: the "
                      "engine gives up after 64 values (inconclusive); the "
                      "unit 'ops=2 short views' (length 0..5) covers it",
                      "write payloads longer than 6 bytes",
                      "slices with a step other than None/1 (rejected with "
                      "ValueError by the code; checked once concretely)"],
}


class Token(object):
    """What the stub controller returns from read(): identifies the bytes
    [addr, addr+n) of the machine's memory."""
    def __init__(self, addr, n):
        self.addr = addr
        self.n = n

    def __len__(self):
        raise TypeError("token length is symbolic")


class StubController(object):
    def __init__(self):
        self.log = []

    def read(self, address, length, x, y, p=0):
        self.log.append(("r", address, length, x, y, p))
        return Token(address, length)

    def write(self, address, data, x, y, p=0):
        self.log.append(("w", address, len(data), x, y, p, data))

    def sdram_free(self, ptr, x, y):
        self.log.append(("free", ptr, x, y))


class ModelView(object):
    """Reference model of one view: a fixed-length file at [lo, hi)."""
    def __init__(self, lo, hi):
        self.lo = lo
        self.hi = hi
        self.pos = 0
        self.closed = False

    @property
    def length(self):
        return self.hi - self.lo

    def transfer(self, n):
        """Bytes transferred by a request for n >= 0 bytes at pos."""
        ln = self.length
        inside = sand(self.pos >= 0, self.pos <= ln)
        return ite(inside, smin(n, ln - self.pos), 0)


def _clip(v, lo, hi):
    return smax(lo, smin(v, hi))


def h_views(ctx, nops, wlens, menus=None, maxlen=None):
    from rig.machine_control.machine_controller import (
        MemoryIO, SlicedMemoryIO, TruncationWarning)

    base = ctx.int("base", 0)
    length = ctx.int("len", 0, maxlen)
    mc = StubController()
    root = MemoryIO(mc, 1, 2, base, base + length)
    views = [(root, ModelView(base, base + length))]
    freed = False

    OPS = ["seek0", "seek1", "seek2", "read", "readall", "write", "slice",
           "tell", "close", "free"]
    for step in range(nops):
        op = ctx.pick(OPS if menus is None else list(menus[step]))
        if op == "free" and step == 0 and nops > 1:
            # freeing first only leaves "everything fails" to look at; that
            # is covered when free comes later
            pass
        vi = ctx.choose(min(len(views), 2))
        view, model = views[-1 - vi]
        dead = freed or model.closed
        mark = len(mc.log)
        caught = []
        exc = None
        result = None
        arg = None
        try:
            with warnings.catch_warnings(record=True) as caught:
                warnings.simplefilter("always")
                if op.startswith("seek"):
                    arg = ctx.int("off")
                    result = view.seek(arg, int(op[4]))
                elif op == "read":
                    arg = ctx.int("n")
                    result = view.read(arg)
                elif op == "readall":
                    result = view.read()
                elif op == "write":
                    arg = ctx.bytes("w", ctx.pick(wlens))
                    result = view.write(arg)
                elif op == "slice":
                    form = ctx.choose(3)
                    a = ctx.int("a") if form != 2 else None
                    b = ctx.int("b") if form != 1 else None
                    arg = (a, b)
                    result = view[a:b]
                elif op == "tell":
                    result = (view.tell(), view.address, view.__len__())
                elif op == "close":
                    result = view.close()
                elif op == "free":
                    result = root.free()
        except OSError as e:
            exc = e
        except Exception as e:
            ctx.observe(op, type(e).__name__)
            ctx.prove(False, "view-unexpected-exception", (op, repr(e)))
            return
        accesses = mc.log[mark:]
        ctx.observe(op, "OSError" if exc else "ok",
                    [(a[0], a[1], a[2]) for a in accesses])

        # ---- closed / freed views fail, and touch nothing -------------
        if op == "slice":
            # Slicing is allowed on a closed view by the code (it only
            # computes bounds); operations on the result still fail.
            must_fail = False
        elif op == "close":
            must_fail = freed and not model.closed
        elif op == "free":
            must_fail = freed
        else:
            must_fail = dead
        if must_fail:
            ctx.witness("dead-op")
            ctx.prove(exc is not None, "view-dead-operation-succeeded",
                      (op, step))
            ctx.prove(len(accesses) == 0, "view-dead-operation-accessed")
            continue
        ctx.prove(exc is None, "view-live-operation-failed", (op, step))
        if exc is not None:
            return

        # ---- confinement of every access ---------------------------------
        for a in accesses:
            if a[0] == "free":
                continue
            ctx.witness("access")
            addr, n = a[1], a[2]
            ctx.prove(sand(n > 0, model.lo <= addr, addr + n <= model.hi),
                      "view-access-outside-region",
                      (op, addr, n, model.lo, model.hi))
            ctx.prove((a[3], a[4], a[5]) == (1, 2, 0), "view-wrong-chip")

        trunc = [w for w in caught
                 if issubclass(w.category, TruncationWarning)]
        ln = model.length
        # ---- file behaviour ---------------------------------------------
        if op.startswith("seek"):
            ctx.prove(len(accesses) == 0, "view-seek-accessed")
            if op == "seek0":
                model.pos = arg
            elif op == "seek1":
                model.pos = model.pos + arg
            else:
                # A file: position = length + offset (seek(-1, 2) is the
                # last byte, as the method's own docstring says).
                model.pos = ln + arg
                # the known finding is exactly "len - n instead of len + n":
                # any other position is a violation of its own
                ctx.prove(sor(view.tell() == ln + arg,
                              view.tell() == ln - arg),
                          "view-seek-from-end-position",
                          (arg, view.tell(), ln))
                ok = ctx.prove(view.tell() == model.pos,
                               "C13:seek(n,2):position=len-n",
                               (arg, view.tell(), ln))
                if not ok:
                    # known finding: carry on from the position the
                    # implementation actually took
                    model.pos = view.tell()
            ctx.prove(view.tell() == model.pos, "view-seek-position")
        elif op in ("read", "readall"):
            if op == "readall":
                want = model.transfer(smax(ln - model.pos, 0))
                shortened = False
            else:
                req = ite(arg < 0, smax(ln - model.pos, 0), arg)
                want = model.transfer(req)
                shortened = sand(arg >= 0, want < arg)
            if isinstance(result, Token):
                ctx.witness("read-data")
                ctx.prove(len(accesses) == 1, "view-read-one-access")
                ctx.prove(sand(result.n == want,
                               result.addr == model.lo + model.pos),
                          "view-read-wrong-bytes",
                          (result.addr, result.n, model.lo + model.pos, want))
                got = result.n
            else:
                ctx.prove(result == b"", "view-read-result-type")
                ctx.prove(len(accesses) == 0, "view-read-empty-accessed")
                ctx.prove(want == 0, "view-read-wrong-bytes",
                          ("empty", want))
                got = 0
            if model_pos_in_file(ctx, model):
                ctx.prove(same_truth(shortened, len(trunc) > 0),
                          "view-truncation-warning", (op, len(trunc)))
                if trunc:
                    ctx.witness("truncated-read")
            elif not trunc:
                ctx.prove(snot(shortened), "view-truncation-warning",
                          (op, "shortened without a warning"))
            model.pos = model.pos + got
            ctx.prove(view.tell() == model.pos, "view-read-position")
        elif op == "write":
            n = len(arg)
            want = model.transfer(n)
            ctx.prove(result == want, "view-write-count", (result, want))
            if accesses:
                ctx.witness("write-data")
                ctx.prove(len(accesses) == 1, "view-write-one-access")
                a = accesses[0]
                ctx.prove(sand(a[1] == model.lo + model.pos, a[2] == want),
                          "view-write-wrong-bytes",
                          (a[1], a[2], model.lo + model.pos, want))
                # the payload written is the prefix of the data
                ctx.prove(a[6] == arg[:a[2]], "view-write-payload")
            else:
                ctx.prove(want == 0, "view-write-wrong-bytes", ("none", want))
            shortened = want < n
            if model_pos_in_file(ctx, model):
                ctx.prove(same_truth(shortened, len(trunc) > 0),
                          "view-truncation-warning", (op, len(trunc)))
                if trunc:
                    ctx.witness("truncated-write")
            elif not trunc:
                ctx.prove(snot(shortened), "view-truncation-warning",
                          (op, "shortened without a warning"))
            model.pos = model.pos + want
            ctx.prove(view.tell() == model.pos, "view-write-position")
        elif op == "slice":
            a, b = arg
            lo = 0 if a is None else _clip(ite(a < 0, ln + a, a), 0, ln)
            hi = ln if b is None else _clip(ite(b < 0, ln + b, b), 0, ln)
            hi = smax(lo, hi)
            new_model = ModelView(model.lo + lo, model.lo + hi)
            ctx.prove(isinstance(result, SlicedMemoryIO),
                      "view-slice-type")
            ctx.prove(len(accesses) == 0, "view-slice-accessed")
            views.append((result, new_model))
            ctx.witness("sliced")
            if not dead:
                ctx.prove(sand(result.address == new_model.lo,
                               result.__len__() == new_model.length,
                               result.tell() == 0),
                          "view-slice-range",
                          (a, b, result.address, result.__len__(),
                           new_model.lo, new_model.length))
        elif op == "tell":
            t, ad, le = result
            ctx.prove(sand(t == model.pos, ad == model.lo + model.pos,
                           le == ln), "view-tell-address-len")
        elif op == "close":
            model.closed = True
        elif op == "free":
            freed = True
            ctx.witness("freed")
            ctx.prove(len(accesses) == 1 and accesses[0][0] == "free",
                      "view-free-call")
            if accesses:
                ctx.prove(sand(accesses[0][1] == base),
                          "view-free-wrong-pointer")
                ctx.prove((accesses[0][2], accesses[0][3]) == (1, 2),
                          "view-free-wrong-chip")


def model_pos_in_file(ctx, model):
    """"Warned exactly when shortened" is required for positions inside the
    file; outside (a position no file can have, or beyond the end) only the
    stated direction "shortened => warned" is."""
    c = sand(model.pos >= 0, model.pos <= model.length)
    if is_sym(c):
        return bool(c)       # fork
    return c


def h_alloc_view(ctx):
    """The view handed out by MachineController.sdram_alloc_as_filelike
    (real method; the allocation, fill, read and write of the controller are
    recorders): it covers exactly the `size` bytes asked for, at the address
    the allocation returned, whether or not the block was cleared."""
    from rig.machine_control import machine_controller as mcm
    size = ctx.int("size", 0)
    base = ctx.int("base", 0)
    clear = ctx.pick([False, True])
    log = []

    class Recorder(mcm.MachineController):
        def sdram_alloc(self, size_, tag=0, x=None, y=None, app_id=None,
                        clear=False):
            log.append(("alloc", size_, clear))
            return base

        def fill(self, *a, **k):
            log.append(("fill",) + a)

        def read(self, address, length, x, y, p=0):
            log.append(("r", address, length, x, y, p))
            return Token(address, length)

        def write(self, address, data, x, y, p=0):
            log.append(("w", address, len(data), x, y, p, data))
    saved_conn = mcm.SCPConnection
    mcm.SCPConnection = lambda *a, **kw: object()
    try:
        mc = Recorder("host")
        try:
            view = mc.sdram_alloc_as_filelike(size, 3, x=1, y=2, app_id=30,
                                              clear=clear)
        except Exception as e:
            ctx.observe(type(e).__name__)
            ctx.prove(False, "view-unexpected-exception", repr(e))
            return
        ctx.observe("view", view.address, view.__len__())
        ctx.witness("view")
        ctx.prove(sand(view.address == base, view.__len__() == size,
                       view.tell() == 0), "view-slice-range",
                  (view.address, view.__len__(), base, size))
        allocs = [e for e in log if e[0] == "alloc"]
        ctx.prove(len(allocs) == 1 and allocs[0][1] is size,
                  "view-alloc-size", repr(allocs))
        # a read of everything and a write at the end stay inside
        mark = len(log)
        with warnings.catch_warnings(record=True):
            warnings.simplefilter("always")
            view.read()
            view.seek(size - 1)
            view.write(ctx.bytes("w", 3))
        for a in log[mark:]:
            if a[0] in ("r", "w"):
                ctx.witness("access")
                ctx.prove(sand(a[2] > 0, base <= a[1],
                               a[1] + a[2] <= base + size),
                          "view-access-outside-region",
                          (a[0], a[1], a[2], base, size))
                ctx.prove((a[3], a[4], a[5]) == (1, 2, 0), "view-wrong-chip")
    finally:
        mcm.SCPConnection = saved_conn


def h_with_block(ctx):
    """A view (the root or a slice of it) used as a context manager: however
    the block is left -- normally, by an exception of the caller's, or by an
    error the machine reported to a transfer inside the block (rig's SCP
    errors are IOErrors) -- the view is closed afterwards: every operation
    fails and nothing more reaches the machine."""
    from rig.machine_control.machine_controller import MemoryIO
    base = ctx.int("base", 0)
    length = ctx.int("len", 8, 64)
    mc = StubController()
    fail = []

    def write(address, data, x, y, p=0):
        if fail:
            raise IOError("SCP timeout (stub)")
        mc.log.append(("w", address, len(data), x, y, p, data))
    mc.write = write
    root = MemoryIO(mc, 1, 2, base, base + length)
    which = ctx.pick(["root", "slice"])
    view = root if which == "root" else root[2:6]
    how = ctx.pick(["normal", "ValueError", "machine error", "OSError"])
    entered = None
    left = "normal"
    try:
        with view as g:
            entered = g
            g.write(ctx.bytes("w", 2))
            if how == "ValueError":
                raise ValueError("the caller's own")
            if how == "OSError":
                raise OSError("the caller's own")
            if how == "machine error":
                fail.append(1)
                g.write(b"zz")
    except Exception as e:
        left = type(e).__name__
    del fail[:]
    ctx.observe(which, how, left)
    ctx.witness("left-by-" + ("exception" if left != "normal" else "end"))
    # (what `with ... as` binds is not stated by the property: the view
    # itself is used below)
    mark = len(mc.log)
    still = []
    for name, call in (("read", lambda: view.read(1)),
                       ("write", lambda: view.write(b"q")),
                       ("seek", lambda: view.seek(0)),
                       ("tell", lambda: view.tell()),
                       ("flush", lambda: view.flush())):
        try:
            call()
            still.append(name)
        except OSError:
            pass
        except Exception as e:
            still.append("%s: %s" % (name, type(e).__name__))
    ctx.prove(not still, "view-open-after-with-block", (which, how, still))
    ctx.prove(len(mc.log) == mark, "view-closed-view-reaches-machine",
              (which, how, len(mc.log) - mark))
    if which == "slice":
        # the view the slice was taken from is another file: still open
        try:
            root.seek(0)
            root.read(1)
            ok = True
        except Exception:
            ok = False
        ctx.prove(ok, "view-close-of-slice-closed-parent", how)


def h_step(ctx):
    """Non-contiguous slices are rejected (concrete, one path)."""
    from rig.machine_control.machine_controller import MemoryIO
    mc = StubController()
    root = MemoryIO(mc, 0, 0, ctx.int("base", 0), ctx.int("end", 0))
    for sl in (slice(0, 4, 2), 3, slice(None, None, -1)):
        try:
            root[sl]
            ok = False
        except ValueError:
            ok = True
        except Exception:
            ok = False
        ctx.prove(ok, "view-noncontiguous-slice-accepted", repr(sl))
    ctx.observe("ok")


def units(tier, seed):
    us = [Unit("noncontiguous slices", h_step),
          Unit("view from sdram_alloc_as_filelike", h_alloc_view, {},
               witnesses=("view", "access"))]
    us.append(Unit("ops=1", h_views, dict(nops=1, wlens=(0, 1, 3, 6))))
    us.append(Unit("ops=2", h_views, dict(nops=2, wlens=(1, 3)), split=3,
                   witnesses=("access", "read-data", "write-data", "sliced",
                              "dead-op", "freed", "truncated-read",
                              "truncated-write")))
    # three operations starting with a slice: what is done to one view
    # (closing it, moving it, writing through it) must not show on another
    us.append(Unit("ops=3 slice first", h_views, dict(
        nops=3, wlens=(2,),
        menus=(("slice",), ("close", "seek0", "write"),
               ("readall", "write", "tell"))),
        split=4, witnesses=("access", "read-data", "write-data", "dead-op")))
    # short views (length 0..5): code that needs len() as a real int (which
    # the unbounded units can only answer by giving up) is explored here
    us.append(Unit("ops=2 short views", h_views,
                   dict(nops=2, wlens=(1, 3), maxlen=5), split=4,
                   witnesses=("access", "read-data", "write-data", "sliced",
                              "dead-op", "freed")))
    us.append(Unit("view as a context manager, every way out of the block",
                   h_with_block, {},
                   witnesses=("left-by-end", "left-by-exception")))
    for u in us:
        u.max_concretise = 64
    if tier == "thorough":
        us.append(Unit("ops=3", h_views, dict(nops=3, wlens=(1, 3)), split=5))
        us.append(Unit("ops=2 long writes", h_views,
                       dict(nops=2, wlens=(0, 2, 6)), split=3))
    return us
