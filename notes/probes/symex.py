"""Prototype path-exploring symbolic executor (feasibility probe only)."""
import z3, time, sys

class PathAbort(BaseException):
    pass

class Engine:
    cur = None
    def __init__(self):
        self.work = [[]]
        self.paths = 0
        self.checks = 0
        self.solver_time = 0.0
        self.results = []

    def explore(self, fn, max_paths=10**9):
        Engine.cur = self
        while self.work and self.paths < max_paths:
            self.prefix = self.work.pop()
            self.trace = []
            self.solver = z3.Solver()
            self.nvars = 0
            try:
                r = fn(self)
                self.results.append(r)
            except PathAbort:
                pass
            self.paths += 1
        Engine.cur = None

    def fresh(self, name, sort):
        self.nvars += 1
        return z3.Const("%s_%d" % (name, self.nvars), sort)

    def check(self, *assumptions):
        t = time.time()
        r = self.solver.check(*assumptions)
        self.solver_time += time.time() - t
        self.checks += 1
        return r

    def branch(self, cond):
        cond = z3.simplify(cond)
        if z3.is_true(cond):
            return True
        if z3.is_false(cond):
            return False
        i = len(self.trace)
        if i < len(self.prefix):
            d = self.prefix[i]
            self.trace.append(d)
            self.solver.add(cond if d else z3.Not(cond))
            return d
        t_ok = self.check(cond) == z3.sat
        f_ok = self.check(z3.Not(cond)) == z3.sat
        if t_ok and f_ok:
            self.work.append(self.trace + [False])
            d = True
        elif t_ok:
            d = True
        elif f_ok:
            d = False
        else:
            raise PathAbort()
        self.trace.append(d)
        self.solver.add(cond if d else z3.Not(cond))
        return d

    def assume(self, cond):
        if isinstance(cond, SymBool):
            cond = cond.e
        elif isinstance(cond, bool):
            if not cond:
                raise PathAbort()
            return
        self.solver.add(cond)

    def concretize(self, e):
        e = z3.simplify(e)
        if z3.is_bv_value(e):
            return e.as_signed_long()
        if z3.is_int_value(e):
            return e.as_long()
        while True:
            if self.check() != z3.sat:
                raise PathAbort()
            v = self.solver.model().eval(e, model_completion=True)
            if self.branch(e == v):
                return v.as_signed_long() if z3.is_bv_value(v) else v.as_long()

    def prove(self, cond):
        """return None if valid under pc else model"""
        if isinstance(cond, SymBool):
            cond = cond.e
        if isinstance(cond, bool):
            if cond:
                return None
            self.check()
            return self.solver.model()
        if self.check(z3.Not(cond)) == z3.unsat:
            return None
        return self.solver.model()

W = 64
def bv(v):
    if isinstance(v, SymInt):
        return v.e
    if isinstance(v, bool):
        v = int(v)
    if isinstance(v, int):
        return z3.BitVecVal(v, W)
    return NotImplemented

class SymBool:
    def __init__(self, e): self.e = e
    def __bool__(self): return Engine.cur.branch(self.e)
    def __and__(self, o): return SymBool(z3.And(self.e, o.e if isinstance(o, SymBool) else z3.BoolVal(bool(o))))
    def __invert__(self): return SymBool(z3.Not(self.e))

class SymInt:
    __slots__ = ("e",)
    def __init__(self, e): self.e = e
    @staticmethod
    def var(name, lo=None, hi=None):
        eng = Engine.cur
        x = SymInt(eng.fresh(name, z3.BitVecSort(W)))
        if lo is not None: eng.solver.add(x.e >= lo)
        if hi is not None: eng.solver.add(x.e <= hi)
        return x
    def _bin(self, o, f):
        o = bv(o)
        if o is NotImplemented: return NotImplemented
        return SymInt(f(self.e, o))
    def _rbin(self, o, f):
        o = bv(o)
        if o is NotImplemented: return NotImplemented
        return SymInt(f(o, self.e))
    def __add__(s, o): return s._bin(o, lambda a, b: a + b)
    def __radd__(s, o): return s._rbin(o, lambda a, b: a + b)
    def __sub__(s, o): return s._bin(o, lambda a, b: a - b)
    def __rsub__(s, o): return s._rbin(o, lambda a, b: a - b)
    def __mul__(s, o): return s._bin(o, lambda a, b: a * b)
    def __rmul__(s, o): return s._rbin(o, lambda a, b: a * b)
    def __and__(s, o): return s._bin(o, lambda a, b: a & b)
    def __rand__(s, o): return s._rbin(o, lambda a, b: a & b)
    def __or__(s, o): return s._bin(o, lambda a, b: a | b)
    def __ror__(s, o): return s._rbin(o, lambda a, b: a | b)
    def __xor__(s, o): return s._bin(o, lambda a, b: a ^ b)
    def __rxor__(s, o): return s._rbin(o, lambda a, b: a ^ b)
    def __lshift__(s, o): return s._bin(o, lambda a, b: a << b)
    def __rlshift__(s, o): return s._rbin(o, lambda a, b: a << b)
    def __rshift__(s, o): return s._bin(o, lambda a, b: a >> b)
    def __invert__(s): return SymInt(~s.e)
    def __neg__(s): return SymInt(-s.e)
    def __floordiv__(s, o):
        o = bv(o)
        # python floor division for signed
        a, b = s.e, o
        q = a / b  # signed trunc
        r = z3.SRem(a, b)
        adj = z3.And(r != 0, (r < 0) != (b < 0))
        return SymInt(z3.If(adj, q - 1, q))
    def __mod__(s, o):
        o = bv(o)
        a, b = s.e, o
        r = z3.SRem(a, b)
        adj = z3.And(r != 0, (r < 0) != (b < 0))
        return SymInt(z3.If(adj, r + b, r))
    def _cmp(s, o, f):
        o = bv(o)
        if o is NotImplemented: return NotImplemented
        return SymBool(f(s.e, o))
    def __eq__(s, o): return s._cmp(o, lambda a, b: a == b)
    def __ne__(s, o): return s._cmp(o, lambda a, b: a != b)
    def __lt__(s, o): return s._cmp(o, lambda a, b: a < b)
    def __le__(s, o): return s._cmp(o, lambda a, b: a <= b)
    def __gt__(s, o): return s._cmp(o, lambda a, b: a > b)
    def __ge__(s, o): return s._cmp(o, lambda a, b: a >= b)
    def __bool__(s): return Engine.cur.branch(s.e != 0)
    def __hash__(s): return 0x5157
    def __index__(s): return Engine.cur.concretize(s.e)
    def __abs__(s): return SymInt(z3.If(s.e < 0, -s.e, s.e))
    def __repr__(s): return "Sym(%s)" % z3.simplify(s.e)
