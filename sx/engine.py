"""sx.engine -- path-exploring symbolic executor for ordinary Python code.

A *harness* is a plain function ``h(ctx)``.  It creates symbolic inputs through
``ctx`` (``ctx.int``, ``ctx.bv``, ``ctx.bool``, ``ctx.real``, ``ctx.bytes``),
calls real rig code on them, and states the property with ``ctx.prove``.  The
engine runs the harness once per feasible control-flow path: whenever a proxy
is used as a Python ``bool`` the solver decides which outcomes are feasible
under the path condition, the engine follows one and queues the others (a path
is identified by its list of decisions and reached again by re-execution).

The same harness also runs in *concrete mode* (``ctx.symbolic`` is false):
every input is then an ordinary ``int``/``bytes``/``float`` taken from a solver
model, structural choices are replayed from a recording and ``prove`` is an
ordinary assertion.  Concrete mode is used (a) to replay every counterexample
against the real code before it is reported and (b) to validate every
completed symbolic path: the observations of the symbolic run, evaluated under
a model of its path condition, must equal those of the concrete run.
"""
import signal
import time
import z3

__all__ = ["Engine", "PathAbort", "Inconclusive", "Unsupported", "cur"]

_CUR = [None]


def cur():
    """The engine executing the current path (None outside a harness)."""
    return _CUR[0]


class _Control(BaseException):
    """Engine control flow; BaseException so rig's `except Exception` cannot
    swallow it."""


class PathAbort(_Control):
    """The current path's assumptions are unsatisfiable (vacuous path)."""


class Inconclusive(_Control):
    """The solver said unknown, a bound was exceeded, or a proxy was asked for
    something it cannot model: no verdict may be drawn."""


class Unsupported(Inconclusive):
    pass


class PathTimeout(_Control):
    """The per-path wall-clock budget ran out (raised from SIGALRM)."""


_ALARM = {"fired": False}


def _on_alarm(signum, frame):
    # An exception raised while z3's Python wrappers run a destructor is
    # swallowed ("Exception ignored in __del__"), so the first firing only
    # sets a flag which the engine polls at every decision; if the code is
    # in a loop that never talks to the engine, later firings raise (and
    # keep re-arming until the exception lands outside a destructor).
    if not _ALARM["fired"]:
        _ALARM["fired"] = True
        signal.setitimer(signal.ITIMER_REAL, 5)
        return
    signal.setitimer(signal.ITIMER_REAL, 0.5)
    raise PathTimeout()


STOP_EVENT = [None]      # multiprocessing.Event shared by the pool
XCHECK_SOLVER = "/usr/bin/z3"   # z3 4.8.12 (the engine links z3 5.1)
# first stage of every query on the incremental solver; a query not answered
# by then is asked again from scratch (Engine._recheck)
STAGE1_MS = 20000


class Stopped(_Control):
    """Another worker already found a violation: abandon the exploration."""


def _poll_alarm():
    if _ALARM["fired"]:
        raise PathTimeout()
    ev = STOP_EVENT[0]
    if ev is not None and ev.is_set():
        raise Stopped()


class _Alarm(object):
    """Context manager: raise PathTimeout in the block after `seconds`."""
    def __init__(self, seconds):
        self.seconds = seconds

    def __enter__(self):
        if self.seconds:
            try:
                self.old = signal.signal(signal.SIGALRM, _on_alarm)
                _ALARM["fired"] = False
                signal.setitimer(signal.ITIMER_REAL, self.seconds)
            except ValueError:      # not in the main thread
                self.seconds = None
        return self

    def __exit__(self, *exc):
        if self.seconds:
            signal.setitimer(signal.ITIMER_REAL, 0)
            signal.signal(signal.SIGALRM, self.old)
            _ALARM["fired"] = False
        return False


class ConcreteViolation(_Control):
    """Raised by prove() in concrete mode when the assertion is false."""
    def __init__(self, label, detail=None):
        self.label = label
        self.detail = detail


class Stats(object):
    FIELDS = ("paths", "vacuous", "branches", "forks", "sat", "unsat",
              "unknown", "solver_s", "proved", "concretised", "validated",
              "cache_hits", "model_hits", "xchecked", "xunknown", "rechecks")

    def __init__(self):
        for f in self.FIELDS:
            setattr(self, f, 0)

    def add(self, other):
        for f in self.FIELDS:
            setattr(self, f, getattr(self, f) + (
                other[f] if isinstance(other, dict) else getattr(other, f)))

    def as_dict(self):
        return {f: getattr(self, f) for f in self.FIELDS}


class Violation(object):
    def __init__(self, label, inputs, choices, detail=None):
        self.label = label
        self.inputs = inputs      # {var name: python value}
        self.choices = choices    # list of ints (choose() outcomes in order)
        self.detail = detail
        self.confirmed = None

    def as_dict(self):
        return {"label": self.label, "inputs": self.inputs,
                "choices": self.choices, "detail": self.detail,
                "confirmed": self.confirmed}


class Engine(object):
    """Explores every feasible path of a harness."""

    def __init__(self, timeout_ms=60000, max_concretise=4096,
                 max_paths=None, validate=True, max_decisions=20000,
                 path_timeout_s=60, concrete_timeout_s=20, known=()):
        # labels of known findings: a confirmed violation with any other
        # label ends the exploration of the unit at once (fail fast)
        self.known = set(known)
        self.stopped_early = False
        self.xcheck_left = 0
        self.replay_checks = False
        self.path_timeout_s = path_timeout_s
        self.concrete_timeout_s = concrete_timeout_s
        self.timeout_ms = timeout_ms
        self.max_concretise = max_concretise
        self.max_paths = max_paths
        self.validate = validate
        self.max_decisions = max_decisions
        self.stats = Stats()
        self.violations = []
        self.samples = []
        self.divergences = []
        self.symbolic = True
        self.frontier = None
        self.witnessed = set()
        self.nvars = 0
        self.observed = []
        self.choices = []
        self.raw_cache = {}

    # ------------------------------------------------------------------
    # Exploration
    # ------------------------------------------------------------------
    def explore(self, fn, prefix=(), frontier_depth=None):
        """Run `fn(self)` along every feasible path that starts with the
        decision list `prefix`.

        With `frontier_depth` set, paths are cut as soon as they have taken
        that many *forking* decisions and their decision prefixes are returned
        instead (used to split a unit over worker processes).
        """
        self.fn = fn
        work = [(list(prefix), 0)]
        frontier = []
        while work:
            if (self.max_paths is not None and
                    self.stats.paths >= self.max_paths):
                raise Inconclusive("path budget of %d exhausted with %d "
                                   "prefixes pending" % (self.max_paths,
                                                         len(work)))
            self.prefix, self.prefix_forks = work.pop()
            self._begin_path()
            self.pending = work
            self.frontier_depth = frontier_depth
            cut = False
            _CUR[0] = self
            try:
                try:
                    try:
                        with _Alarm(self.path_timeout_s):
                            fn(self)
                    except PathTimeout:
                        self._path_timed_out()
                    else:
                        self._finish_path()
                except _FrontierCut:
                    frontier.append(list(self.trace))
                    cut = True
                except PathAbort:
                    self.stats.vacuous += 1
            finally:
                _CUR[0] = None
            if not cut:
                self.stats.paths += 1
            if any(v.confirmed and v.label not in self.known
                   for v in self.violations):
                self.stopped_early = bool(work)
                if STOP_EVENT[0] is not None:
                    STOP_EVENT[0].set()
                break
        return frontier

    def _path_timed_out(self):
        """The symbolic run of this path did not finish in its budget.  If the
        real code does not finish either on a model of the path condition so
        far, that is a replayed non-termination; otherwise no verdict."""
        try:
            m = self._get_model()
        except _Control:
            raise Inconclusive("path timed out after %ss" %
                               self.path_timeout_s)
        inputs = self._model_inputs(m)
        try:
            self.run_concrete(self.fn, _decode_inputs(inputs),
                              list(self.choices), pad_choices=True)
        except PathTimeout:
            v = Violation("nontermination", inputs, list(self.choices),
                          "the call did not return within %ss on these "
                          "inputs (symbolic path exceeded %ss)" % (
                              self.concrete_timeout_s, self.path_timeout_s))
            v.confirmed = True
            self.violations.append(v)
            self.path_violations = []
            self.validate_this = False
            return
        except _Control:
            pass
        raise Inconclusive("path timed out after %ss (the concrete replay "
                           "terminates)" % self.path_timeout_s)

    def _begin_path(self):
        self.validate_this = True
        self.symbolic = True
        self.trace = []          # decisions taken (ints)
        self.nforks = 0
        self.choices = []        # choose() outcomes only
        self.solver = z3.Solver()
        self.solver.set("timeout", self.timeout_ms)
        # Always use z3's incremental core: a solver whose first check()
        # comes after all assertions (a path reached by prefix replay) would
        # otherwise run a different, one-shot strategy and behave (and time
        # out) differently from the same path met during exploration.
        self.solver.push()
        self.model = None        # a model of the current path condition
        self.cache = {}          # simplified condition id -> bool
        self.raw_cache = {}      # unsimplified condition id -> bool
        self.inputs = []         # (name, z3 const, kind)
        self.nvars = 0
        self.observed = []
        self.side = []           # (condition, what) to be valid at path end
        self.path_violations = []
        self.assumed_any = False

    def _finish_path(self):
        # Discharge recorded side conditions (e.g. "this BV addition did not
        # overflow"): they must be valid, else the proxies misrepresent
        # Python's unbounded integers on this path.
        if self.side:
            bad = z3.Not(z3.And([c for c, _ in self.side]))
            r = self._check(bad)
            if r == z3.sat:
                m = self._last_model()
                for c, what in self.side:
                    if z3.is_false(m.eval(c, model_completion=True)):
                        raise Inconclusive("side condition can fail: %s" %
                                           what)
                raise Inconclusive("side condition can fail")
        model = None
        if self.validate or self.path_violations or len(self.samples) < 5:
            model = self._get_model()
        if model is not None and len(self.samples) < 5:
            self.samples.append({
                "decisions": list(self.trace)[:60],
                "inputs": self._model_inputs(model),
                "observed": _short(self._evaluate(self.observed, model)),
            })
        for v in self.path_violations:
            self._confirm(v)
            self.violations.append(v)
        if self.validate and self.validate_this and not self.path_violations:
            self._validate_path(model)

    # ------------------------------------------------------------------
    # Solver plumbing
    # ------------------------------------------------------------------
    def _check(self, *assumptions):
        t = time.time()
        self._answered = self.solver
        staged = isinstance(self.solver, z3.Solver) and \
            self.timeout_ms > STAGE1_MS
        if staged:
            self.solver.set("timeout", STAGE1_MS)
        r = self.solver.check(*assumptions)
        if staged:
            self.solver.set("timeout", self.timeout_ms)
            if r == z3.unknown:
                r = self._recheck(assumptions)
        self.stats.solver_s += time.time() - t
        if r == z3.sat:
            self.stats.sat += 1
        elif r == z3.unsat:
            self.stats.unsat += 1
        else:
            self.stats.unknown += 1
            raise Inconclusive("solver answered unknown (%s)" %
                               self.solver.reason_unknown())
        return r

    def _recheck(self, assumptions):
        """The incremental solver gave up within the first stage.  How long
        z3 takes on one query depends on heuristics that are sensitive to
        the history of the process (which tasks a worker ran before); a query
        that is answered in milliseconds nearly always may, rarely, not
        finish.  Ask again from scratch: fresh solvers with other seeds, the
        last one with the unit's full budget.  A verdict is a verdict
        whichever solver instance gave it; `unknown` only if all give up."""
        budgets = [min(self.timeout_ms, 4 * STAGE1_MS), self.timeout_ms]
        r = z3.unknown
        for seed, budget in enumerate(budgets, 1):
            s2 = z3.Solver()
            s2.set("timeout", budget)
            s2.set("random_seed", seed)
            s2.add(self.solver.assertions())
            r = s2.check(*assumptions)
            self.stats.rechecks += 1
            if r != z3.unknown:
                self._answered = s2
                return r
        return r

    def _last_model(self):
        """Model of the most recent `sat` answer."""
        return self._answered.model()

    def _get_model(self):
        if self.model is None:
            if self._check() != z3.sat:
                raise PathAbort()
            self.model = self._last_model()
        return self.model

    def _add(self, cond):
        self.solver.add(cond)
        if self.model is not None:
            if not z3.is_true(self.model.eval(cond, model_completion=True)):
                self.model = None

    def fresh(self, name, sort):
        self.nvars += 1
        return z3.Const("%s!%d" % (name, self.nvars), sort)

    # ------------------------------------------------------------------
    # Decisions
    # ------------------------------------------------------------------
    def _decide(self, options):
        """Take the next decision.  `options` is called lazily to obtain the
        list of feasible alternatives when the decision is not dictated by the
        prefix."""
        _poll_alarm()
        i = len(self.trace)
        if i >= self.max_decisions:
            raise Inconclusive("more than %d decisions on one path" %
                               self.max_decisions)
        if i < len(self.prefix):
            d = self.prefix[i]
            self.trace.append(d)
            if i == len(self.prefix) - 1:
                self.nforks = self.prefix_forks
                self.warm = True
            return d
        alts = options()
        if not alts:
            raise PathAbort()
        if len(alts) > 1:
            if (self.frontier_depth is not None and
                    self.nforks >= self.frontier_depth):
                raise _FrontierCut()
            self.nforks += 1
            self.stats.forks += 1
            for a in alts[1:]:
                self.pending.append((self.trace + [a], self.nforks))
        d = alts[0]
        self.trace.append(d)
        return d

    def branch(self, cond):
        """Decide a symbolic boolean z3 expression; returns a Python bool."""
        raw = self.raw_cache.get(cond.get_id())
        if raw is not None:
            return raw[1]
        raw_cond = cond
        cond = z3.simplify(cond)
        if z3.is_true(cond):
            self.raw_cache[raw_cond.get_id()] = (raw_cond, True)
            return True
        if z3.is_false(cond):
            self.raw_cache[raw_cond.get_id()] = (raw_cond, False)
            return False
        if not self.symbolic:
            raise Unsupported("symbolic branch in concrete mode")
        key = cond.get_id()
        hit = self.cache.get(key)
        if hit is not None:
            _poll_alarm()
            self.stats.cache_hits += 1
            self.raw_cache[raw_cond.get_id()] = (raw_cond, hit[1])
            return hit[1]
        self.stats.branches += 1
        ncond = z3.Not(cond)

        def options():
            # Use the current model, if any, to save one of the two queries.
            alts = []
            known = None
            if self.model is not None:
                v = self.model.eval(cond, model_completion=True)
                if z3.is_true(v):
                    known = True
                elif z3.is_false(v):
                    known = False
                if known is not None:
                    self.stats.model_hits += 1
            if known is True or (known is None and
                                 self._check(cond) == z3.sat):
                if known is None:
                    self.model = self._last_model()
                    known = True
                alts.append(1)
            if known is False:
                alts.append(0)
                if self._check(cond) == z3.sat:
                    alts.append(1)
            else:
                if self._check(ncond) == z3.sat:
                    alts.append(0)
            return alts

        d = self._decide(options)
        res = bool(d)
        # Keep the expression alive: z3 ids are only unique among live ASTs.
        self.cache[key] = (cond, res)
        self.raw_cache[raw_cond.get_id()] = (raw_cond, res)
        self._add(cond if res else ncond)
        if self.replay_checks and len(self.trace) <= len(self.prefix):
            # keep the solver's incremental state as it was when this path
            # was first met (one cheap check per replayed decision)
            self._check()
        return res

    def choose(self, n, label=None):
        """Structural nondeterminism: returns each of 0..n-1 on some path."""
        if n <= 0:
            raise PathAbort()
        if not self.symbolic:
            if self.replay_pos >= len(self.replay_choices):
                if getattr(self, "pad_choices", False):
                    self.choices.append(0)
                    return 0
                raise Inconclusive("concrete replay ran out of choices")
            d = self.replay_choices[self.replay_pos]
            self.replay_pos += 1
            self.choices.append(d)
            return d
        d = self._decide(lambda: list(range(n))) if n > 1 else 0
        self.choices.append(d)
        return d

    def pick(self, seq, label=None):
        seq = list(seq)
        return seq[self.choose(len(seq), label)]

    def assume(self, cond):
        c = _as_cond(cond)
        if isinstance(c, bool):
            if not c:
                raise PathAbort()
            return
        if not self.symbolic:
            raise Unsupported("symbolic assume in concrete mode")
        c = z3.simplify(c)
        if z3.is_true(c):
            return
        if z3.is_false(c):
            raise PathAbort()
        self._add(c)
        if self._get_model() is None:
            raise PathAbort()

    def concretise(self, e):
        """Fork over every feasible value of the integer term `e`.

        The candidate value comes from a solver model, which is not
        reproducible when the path is reached again by replaying its decision
        prefix; so these decisions record the *value* ("v", value, taken) and
        the replay never consults a model."""
        e = z3.simplify(e)
        v = _const_value(e)
        if v is not None:
            return v
        self.stats.concretised += 1
        isbv = z3.is_bv(e)

        def val(n):
            return z3.BitVecVal(n, e.size()) if isbv else z3.IntVal(n)
        n = 0
        while True:
            n += 1
            if n > self.max_concretise:
                raise Inconclusive("unbounded concretisation of %s" % e)
            _poll_alarm()
            i = len(self.trace)
            if i >= self.max_decisions:
                raise Inconclusive("more than %d decisions on one path" %
                                   self.max_decisions)
            if i < len(self.prefix):
                d = self.prefix[i]
                if not (isinstance(d, (tuple, list)) and d[0] == "v"):
                    raise Inconclusive("decision replay out of step "
                                       "(expected a value decision)")
                self.trace.append(tuple(d))
                if i == len(self.prefix) - 1:
                    self.nforks = self.prefix_forks
                if d[2]:
                    self._add(e == val(d[1]))
                    return d[1]
                self._add(e != val(d[1]))
                continue
            m = self._get_model()
            zv = m.eval(e, model_completion=True)
            v = _const_value(zv)
            # is any other value feasible?
            other = self._check(e != zv) == z3.sat
            if other:
                if (self.frontier_depth is not None and
                        self.nforks >= self.frontier_depth):
                    raise _FrontierCut()
                self.nforks += 1
                self.stats.forks += 1
                self.pending.append((self.trace + [("v", v, False)],
                                     self.nforks))
            self.trace.append(("v", v, True))
            self._add(e == zv)
            return v

    # ------------------------------------------------------------------
    # Inputs
    # ------------------------------------------------------------------
    def _input(self, name, sort, kind):
        if self.symbolic:
            c = self.fresh(name, sort)
            self.inputs.append((str(c), c, kind))
            return c
        self.nvars += 1
        key = "%s!%d" % (name, self.nvars)
        if key not in self.replay_inputs:
            raise Inconclusive("concrete replay has no value for %s" % key)
        return self.replay_inputs[key]

    def int(self, name, lo=None, hi=None):
        """A mathematical-integer input (z3 Int): Python's unbounded int."""
        from . import proxies
        c = self._input(name, z3.IntSort(), "int")
        if not self.symbolic:
            return c
        if lo is not None:
            self._add(c >= lo)
        if hi is not None:
            self._add(c <= hi)
        return proxies.SymInt(c)

    def bv(self, name, bits=32, lo=None, hi=None):
        """A non-negative integer input below 2**bits, backed by a 64-bit
        bit-vector so that & | ^ ~ << >> are exact."""
        from . import proxies
        c = self._input(name, z3.BitVecSort(proxies.W), "bv")
        if not self.symbolic:
            return c
        k0 = 0
        if bits < proxies.W:
            self._add(z3.ULT(c, z3.BitVecVal(1 << bits, proxies.W)))
            k0 = ((1 << proxies.W) - 1) & ~((1 << bits) - 1)
        if lo is not None:
            self._add(c >= lo)
        if hi is not None:
            self._add(c <= hi)
        return proxies.SymInt(c, k0, 0)

    def bool(self, name):
        from . import proxies
        c = self._input(name, z3.BoolSort(), "bool")
        if not self.symbolic:
            return c
        return proxies.SymBool(c)

    def real(self, name, lo=None, hi=None):
        from . import proxies
        c = self._input(name, z3.RealSort(), "real")
        if not self.symbolic:
            return c
        if lo is not None:
            self._add(c >= lo)
        if hi is not None:
            self._add(c <= hi)
        return proxies.SymReal(c)

    def bytes(self, name, n):
        """n symbolic bytes (concrete length)."""
        from . import proxies
        items = []
        for i in range(n):
            c = self._input("%s_%d" % (name, i), z3.BitVecSort(8), "byte")
            items.append(c)
        if not self.symbolic:
            return bytes(items)
        return proxies.SymBytes(items)

    # ------------------------------------------------------------------
    # Oracle
    # ------------------------------------------------------------------
    def witness(self, label):
        """Vacuity witness: records that an interesting situation was
        actually reached on some path."""
        self.witnessed.add(label)

    def observe(self, *values):
        """Record observable outcomes (used for path validation)."""
        self.observed.extend(values)

    def side_condition(self, cond, what):
        self.side.append((cond, what))

    def prove(self, cond, label, detail=None):
        """The property step: `cond` must hold for every value of the symbolic
        inputs that follows the current path."""
        c = _as_cond(cond)
        self.stats.proved += 1
        if not self.symbolic:
            if isinstance(c, bool):
                if not c:
                    raise ConcreteViolation(label, detail)
                return True
            raise Unsupported("symbolic prove in concrete mode")
        if isinstance(c, bool):
            if c:
                return True
            m = self._get_model()
        else:
            c = z3.simplify(c)
            if z3.is_true(c):
                return True
            if self._check(z3.Not(c)) == z3.unsat:
                self._crosscheck(c, "unsat")
                return True
            m = self._last_model()
            self._crosscheck(c, "sat")
        self.path_violations.append(Violation(
            label, self._model_inputs(m), list(self.choices),
            _short(self._evaluate(detail, m)) if detail is not None else None))
        return False

    def _crosscheck(self, c, verdict):
        """Second opinion (DESIGN 8.4): re-decide a sample of the proof
        queries with a different solver build -- the distribution's z3 4.8.12
        binary -- through an SMT-LIB export.  A contradicting answer makes the
        run inconclusive; `unknown`/time-outs of the second solver are only
        counted."""
        if self.xcheck_left <= 0:
            return
        self.xcheck_left -= 1
        import os
        import subprocess
        import tempfile
        try:
            s2 = z3.Solver()
            s2.add(self.solver.assertions())
            s2.add(z3.Not(c))
            text = s2.to_smt2()
        except Exception:
            return
        fd, path = tempfile.mkstemp(suffix=".smt2", prefix="sx_xc_")
        try:
            with os.fdopen(fd, "w") as f:
                f.write(text)
            try:
                out = subprocess.run(
                    [XCHECK_SOLVER, "-smt2", "-T:30", path],
                    capture_output=True, text=True, timeout=60).stdout
            except Exception:
                self.stats.xunknown += 1
                return
        finally:
            try:
                os.unlink(path)
            except OSError:
                pass
        lines = [ln.strip() for ln in out.splitlines() if ln.strip()]
        if any(ln.startswith("(error") for ln in lines):
            self.stats.xunknown += 1
            return
        ans = lines[0] if lines else "unknown"
        if ans not in ("sat", "unsat"):
            self.stats.xunknown += 1
            return
        self.stats.xchecked += 1
        if ans != verdict:
            raise Inconclusive("solvers disagree on a proof query: z3 %s "
                               "says %s, %s says %s" % (
                                   z3.get_version_string(), verdict,
                                   XCHECK_SOLVER, ans))

    def reachable(self, cond=True):
        """Vacuity witness: is `cond` satisfiable on this path?"""
        c = _as_cond(cond)
        if isinstance(c, bool):
            return c and self._get_model() is not None
        return self._check(c) == z3.sat

    # ------------------------------------------------------------------
    # Models, concrete replay, validation
    # ------------------------------------------------------------------
    def _model_inputs(self, m):
        out = {}
        for name, c, kind in self.inputs:
            v = m.eval(c, model_completion=True)
            out[name] = _py_value(v, kind)
        return out

    def _evaluate(self, obj, m):
        """Deep-evaluate proxies inside `obj` under model `m`."""
        from . import proxies
        return proxies.evaluate(obj, m)

    def run_concrete(self, fn, inputs, choices, pad_choices=False):
        """Run the harness on ordinary Python values.  Returns
        (observed, violation-or-None)."""
        self.pad_choices = pad_choices
        saved = (self.symbolic, _CUR[0])
        self.symbolic = False
        self.replay_inputs = inputs
        self.replay_choices = choices
        self.replay_pos = 0
        st = (self.nvars, self.observed, self.choices)
        self.nvars = 0
        self.observed = []
        self.choices = []
        _CUR[0] = self
        viol = None
        try:
            try:
                with _Alarm(self.concrete_timeout_s):
                    fn(self)
            except ConcreteViolation as cv:
                viol = cv
            obs = self.observed
        finally:
            self.symbolic, _CUR[0] = saved
            self.nvars, self.observed, self.choices = st
        return obs, viol

    def _confirm(self, v):
        """Replay a solver counterexample on the real code."""
        inputs = _decode_inputs(v.inputs)
        try:
            obs, cv = self.run_concrete(self.fn, inputs, v.choices)
        except (Inconclusive, PathTimeout) as e:
            v.confirmed = False
            v.detail = "replay inconclusive: %s %s" % (type(e).__name__, e)
            return
        v.confirmed = cv is not None
        if cv is not None:
            v.concrete_label = cv.label
            if cv.detail is not None:
                v.detail = _short(cv.detail)

    def _validate_path(self, m):
        inputs = _decode_inputs(self._model_inputs(m))
        want = self._evaluate(self.observed, m)
        try:
            got, cv = self.run_concrete(self.fn, inputs, list(self.choices))
        except PathAbort:
            got, cv = "<PathAbort>", None
        except PathTimeout:
            got, cv = "<concrete run timed out>", None
        if cv is not None:
            self.divergences.append({
                "what": "concrete run violates %r but the symbolic path "
                        "proved it" % cv.label,
                "inputs": self._model_inputs(m),
                "choices": list(self.choices)})
        elif not _same(want, got):
            self.divergences.append({
                "what": "observations differ",
                "symbolic": _short(want), "concrete": _short(got),
                "inputs": self._model_inputs(m),
                "choices": list(self.choices)})
        else:
            self.stats.validated += 1


class _FrontierCut(_Control):
    pass


# ----------------------------------------------------------------------
def _as_cond(cond):
    from . import proxies
    if isinstance(cond, proxies.SymBool):
        return cond.e
    if isinstance(cond, proxies.SymInt):
        return cond.e != 0
    if isinstance(cond, z3.BoolRef):
        return cond
    return bool(cond)


def _const_value(e):
    if z3.is_int_value(e):
        return e.as_long()
    if z3.is_bv_value(e):
        return e.as_signed_long()
    if z3.is_true(e):
        return True
    if z3.is_false(e):
        return False
    return None


def _py_value(v, kind):
    if kind == "int":
        return v.as_long()
    if kind == "bv":
        return v.as_signed_long()
    if kind == "byte":
        return v.as_long()
    if kind == "bool":
        return z3.is_true(v)
    if kind == "real":
        # exact rational, kept as a string "p/q"
        return "%s/%s" % (v.numerator_as_long(), v.denominator_as_long())
    if kind == "fp":
        return _fp_to_float(v)
    raise ValueError(kind)


def _fp_to_float(v):
    import struct as _s
    if z3.is_fp(v):
        bvv = z3.simplify(z3.fpToIEEEBV(v))
        return _s.unpack("<d", _s.pack("<Q", bvv.as_long()))[0]
    return float(v)


def _decode_inputs(inputs):
    from fractions import Fraction
    out = {}
    for k, v in inputs.items():
        if isinstance(v, str) and "/" in v:
            p, q = v.split("/")
            v = Fraction(int(p), int(q))
        out[k] = v
    return out


def _same(a, b):
    from fractions import Fraction
    if isinstance(a, (set, frozenset)):
        a = sorted(a, key=repr)
    if isinstance(b, (set, frozenset)):
        b = sorted(b, key=repr)
    if isinstance(a, (list, tuple)) and isinstance(b, (list, tuple)):
        return len(a) == len(b) and all(_same(x, y) for x, y in zip(a, b))
    if isinstance(a, dict) and isinstance(b, dict):
        return (set(a) == set(b) and all(_same(a[k], b[k]) for k in a))
    if isinstance(a, (bytes, bytearray)) and isinstance(b, (bytes, bytearray)):
        return bytes(a) == bytes(b)
    if isinstance(a, Fraction) or isinstance(b, Fraction):
        try:
            return Fraction(a) == Fraction(b)
        except (TypeError, ValueError):
            return False
    try:
        return bool(a == b)
    except Exception:
        return False


def _short(o, limit=400):
    s = repr(o)
    return s if len(s) <= limit else s[:limit] + "..."
