"""C08 -- bit-field keys are collision-free.

Runs the real rig.bitfield.BitField (add_field, __call__, assign_fields,
get_value, get_mask, get_location_and_length, get_tags and the _Tree methods
underneath) on symbolic field values, symbolic explicit lengths / start
positions and (in some units) a symbolic bit-field length.  A shadow model of
the hierarchy (which field was defined under which parent values, what was
given to it) is kept by the harness; every statement of the property is a
solver query over the positions rig reports.

Hash discipline: `_Tree.children` is a dict keyed by tuples of
(identifier, value).  Every value that is ever handed to BitField.__call__ by
this harness is an engine input (`ctx.bv`), so in symbolic mode all such keys
are proxies (never mixed with plain ints) and a lookup forks through `==`
against the existing scopes -- equal / different parent values are both
explored.  All other dicts and sets in bitfield.py are keyed by identifiers
or tags (strings).

All integers are 64-bit bit-vector backed (`value << start`, `|`, `&` between
symbols); the engine's no-overflow side conditions hold because values are
< 2**6, lengths <= 6 and positions <= 34.
"""
import math
from itertools import combinations

from sx.runner import Unit
from sx.engine import Unsupported
from sx.proxies import sand, sor, snot, simplies, ite, smax, is_sym, const

PROPERTY = "C08"

FRAG = "C08:first-fit-fragmentation"

META = {
    "bounds": "hierarchies of <= 4 (quick) / 5 (thorough) fields and depth "
              "<= 3 from a fixed list of shapes: flat (2, 3; thorough 4); "
              "one parent with two value-scoped children re-using a name "
              "(thorough: plus an unconditional field defined after them); "
              "one parent with two differently named children whose "
              "enabling values may coincide; child of child; thorough: two "
              "chains re-using names at both levels; two independent "
              "parents with three scoped children; child of child with a "
              "tagged leaf (set and, thorough, space-separated string form) "
              "next to a separately tagged unconditional field; three "
              "four-field tag shapes in which a tagged field has two "
              "requirements of which the outer one already carries the tag "
              "(declared with it, inherited from another branch, or the "
              "first of two unconditional fields keying one scope) and the "
              "inner one does not.  Per field "
              "marked explicit (both flat fields; one or, thorough, both "
              "scoped children -- the second then only in its start; "
              "thorough: the chain's leaf or its root): "
              "automatic or explicit symbolic length in 1..6 x automatic or "
              "explicit symbolic start in 0..length+1 (overflowing and "
              "overlapping definitions included).  Every value given to a "
              "field, including the parent values that define scopes, is "
              "symbolic in 0..2**w-1, w = 3 (w = 2 in the five-field units, "
              "w = 6 in some flat units).  Bit-field length a constant in "
              "5..12 chosen per unit so that exact fits and failures both "
              "occur, the menu {8, 12, 32} / {12, 32}, or symbolic in 8..16 "
              "(flat units).  Histories: define all / two complete value "
              "assignments / assign_fields; define / assign_fields / values "
              "(/ assign_fields again); unconditional fields / values / "
              "assign_fields / scoped fields / values / assign_fields; "
              "values between the definitions.",
    "stubs": [
        "rig.bitfield.log is rebound to an exact floor(log2) model: on a "
        "proxy it forks on the bit length of the argument (never on its "
        "value); on plain numbers it is math.log.  The unit 'log model' "
        "compares int(math.log(x, 2)) with x.bit_length() - 1 for all "
        "1 <= x <= 4096 and for 2**k - 1, 2**k, 2**k + 1, k <= 47",
        "rig.bitfield.max (the builtin, looked up through the module "
        "namespace) is rebound to a non-forking if-then-else on proxies; "
        "on plain numbers it is the builtin max",
    ],
    "assumptions": [
        "field identifiers are only re-used in scopes the harness keeps "
        "mutually exclusive (the two enabling values are assumed "
        "different); start positions are non-negative",
        "completeness clause is demanded whenever no field of the history "
        "has an explicit start; the widths that must fit are the explicit "
        "or already assigned length, else the bit length of the largest "
        "value given so far (at least 1), summed over every set of pairwise "
        "co-enabled fields",
        "a known finding is attached to the completeness clause: with two "
        "independent parent fields first-fit placement fragments the free "
        "space (units 'two parents'); there a failure of assign_fields on "
        "fitting widths is reported under the signature " + FRAG,
        "additional model-consistency obligations beyond the property's "
        "text: __call__ only rejects a value that is too large for a "
        "length already fixed; add_field never rejects a field without an "
        "explicit start; positions never change once reported",
    ],
    "outside_claim": [
        "hierarchies deeper than 3, more than 5 fields, shapes not in the "
        "list (in particular more than one explicitly positioned field per "
        "scope in the hierarchical shapes)",
        "field widths above 6 bits, values >= 2**6 (the log model itself is "
        "exact below 2**47)",
        "bit-field lengths other than those listed",
        "negative start positions (add_field accepts start_at=-1; every "
        "later assign_fields/get_mask then raises ValueError 'negative "
        "shift count', so no key is produced)",
        "more than two assign_fields calls, more than two complete value "
        "assignments per history",
        "whether assign_fields succeeds when some field has an explicit "
        "start (the property does not demand it)",
    ],
}


# ----------------------------------------------------------------------
# Stubs
# ----------------------------------------------------------------------
def log_model(x, base=math.e):
    """math.log, and an exact floor(log_2) for proxies (x >= 1)."""
    if not is_sym(x):
        return math.log(x, base)
    if base != 2:
        raise Unsupported("log of a proxy to a base other than 2")
    for k in range(1, 48):
        if x < (1 << k):              # forks on the bit length only
            return k - 1
    raise Unsupported("log2 model: value >= 2**47")


def max_model(*args):
    if len(args) == 2 and (is_sym(args[0]) or is_sym(args[1])):
        return smax(args[0], args[1])
    return max(*args)


class Stubs(object):
    def __enter__(self):
        import rig.bitfield as m
        self.m = m
        self.old_log = m.log
        m.log = log_model
        m.max = max_model
        return self

    def __exit__(self, *exc):
        self.m.log = self.old_log
        if "max" in vars(self.m):
            del self.m.max
        return False


# ----------------------------------------------------------------------
# Shadow model
# ----------------------------------------------------------------------
class MF(object):
    """What the harness knows about one field."""
    def __init__(self, name, req, L, S, tags):
        self.name = name
        self.req = req            # ((parent identifier, value key), ...)
        self.L = L                # explicit length / None
        self.S = S                # explicit start / None
        self.l = L                # current length (explicit or assigned)
        self.s = S                # current start
        self.tags = set(tags)     # own tags and those of descendants
        self.values = []          # every value rig accepted for the field
        self.handle = None        # BitField on which the field is enabled

    def __repr__(self):
        return "%s%s" % (self.name, list(self.req))


def _bits(s, l):
    return ((1 << l) - 1) << s


def _or_all(xs):
    r = 0
    for x in xs:
        r = r | x
    return r


def h_bitfield(ctx, shape, prog, blen, vbits=3, distinct=(), frag=False):
    with Stubs():
        _run(ctx, shape, prog, blen, vbits, distinct, frag)


def _run(ctx, shape, prog, blen, vbits, distinct, frag):
    from rig.bitfield import BitField, UnknownTagError

    if blen == "sym":
        n = ctx.bv("blen", 6, 8, 16)
    elif isinstance(blen, tuple):
        n = ctx.pick(blen)
    else:
        n = blen
    nmax = 16 if blen == "sym" else (max(blen) if isinstance(blen, tuple)
                                     else blen)
    bf = BitField(n)

    # the parent values that define scopes: all symbolic
    vals = {}
    for spec in shape:
        for p, k in spec[1]:
            if k not in vals:
                vals[k] = ctx.bv("k_" + k, vbits)
    for k1, k2 in distinct:
        ctx.assume(vals[k1] != vals[k2])

    fields = []           # defined so far
    handles = {}          # req -> BitField
    live = []             # complete assignments made since the last define
    any_explicit_start = [False]

    # -- helpers -------------------------------------------------------
    def compat(f, g):
        """f and g can be present at the same time (non-forking)."""
        cs = []
        for p, k in f.req:
            for q, j in g.req:
                if p == q and k != j:
                    cs.append(vals[k] == vals[j])
        return sand(*cs)

    def ancestor(req, p):
        have = set(req)
        for g in fields:
            if g.name == p and set(g.req) <= have:
                return g
        raise AssertionError("shape refers to an undefined parent %r" % p)

    def call(h, kv, pairs):
        """h(**kv); a ValueError must be caused by a value too large for a
        length already fixed.  pairs: [(model field, value)]."""
        try:
            h2 = h(**kv)
        except ValueError:
            ctx.observe("call", sorted(kv), "ValueError")
            ctx.witness("value-rejected")
            ctx.prove(sor(*[x >= (1 << g.l) for g, x in pairs
                            if g.l is not None]),
                      "value-rejected-without-cause", sorted(kv))
            return None
        for g, x in pairs:
            g.values.append(x)
        return h2

    def autowidth(f):
        """Bit length of the largest value given so far, at least 1."""
        w = 1
        for k in range(1, vbits + 1):
            w = w + ite(sor(*[x >= (1 << k) for x in f.values]), 1, 0)
        return w

    def fits():
        """Every set of pairwise co-enabled fields has widths summing to at
        most the bit field's length."""
        ws = [f.l if f.l is not None else autowidth(f) for f in fields]
        cs = []
        idx = range(len(fields))
        for r in range(1, len(fields) + 1):
            for sub in combinations(idx, r):
                pre = sand(*[compat(fields[i], fields[j])
                             for i, j in combinations(sub, 2)])
                if pre is False:
                    continue
                cs.append(simplies(pre, sum(ws[i] for i in sub) <= n))
        return sand(*cs)

    shared_tags = []

    def define(i):
        name, scope, lmode, smode, tags = shape[i]
        req = tuple(scope)
        if lmode == "?":
            lmode = "sym" if ctx.choose(2) else None
        if smode == "?":
            smode = "sym" if ctx.choose(2) else None
        L = ctx.bv("L_" + name, 3, 1, 6) if lmode == "sym" else lmode
        S = ctx.bv("S_" + name, 6, 0, nmax + 1) if smode == "sym" else smode
        if smode == "sym":
            ctx.assume(S <= n + 1)
        tags_arg = tags
        if isinstance(tags, tuple) and tags and tags[0] == "@shared":
            # one set object of the caller's, handed to several fields
            tags = tags[1:]
            if not shared_tags:
                shared_tags.append(set(tags))
            tags_arg = shared_tags[0]
        tagset = set(tags.split()) if isinstance(tags, str) else set(tags)
        f = MF(name, req, L, S, tagset)
        anc = [ancestor(req, p) for p, k in req]
        if req not in handles:
            if req:
                h = call(bf, {p: vals[k] for p, k in req},
                         [(g, vals[k]) for g, (p, k) in zip(anc, req)])
                if h is None:
                    return False
            else:
                h = bf
            handles[req] = h
        h = handles[req]
        try:
            h.add_field(name, length=L, start_at=S,
                        tags=(tags_arg if tags else None))
        except ValueError as e:
            ctx.observe("add_field", name, "ValueError")
            if S is None:
                ctx.prove(False, "add-field-unexpected-rejection", str(e))
            else:
                ctx.witness("explicit-rejected")
            return False
        ctx.observe("add_field", name, "ok")
        if S is not None:
            any_explicit_start[0] = True
            width = L if L is not None else 1
            ctx.prove(S + width <= n, "explicit-overflow-accepted",
                      (name, S, width, n))
            for g in fields:
                if g.s is None:
                    continue
                gw = g.l if g.l is not None else 1
                ctx.prove(simplies(compat(f, g),
                                   sor(S + width <= g.s, g.s + gw <= S)),
                          "explicit-overlap-accepted",
                          (name, S, width, g.name, g.s, gw))
        f.handle = h
        fields.append(f)
        if shared_tags:
            ctx.witness("shared-tags-set")
            ctx.prove(shared_tags[0] == set(SHARED_TAGS),
                      "caller-tags-set-modified", sorted(shared_tags[0]))
        for g in anc:
            g.tags |= tagset
        del live[:]
        return True

    def check_layout():
        for f in fields:
            ctx.prove(sand(f.s >= 0, f.l >= 1, f.s + f.l <= n),
                      "field-outside-bitfield", (f.name, f.s, f.l, n))
            if f.values:
                ctx.prove(sand(*[x < (1 << f.l) for x in f.values]),
                          "field-too-narrow", (f.name, f.l, f.values))
        for f, g in combinations(fields, 2):
            pre = compat(f, g)
            if pre is False:
                continue
            ctx.prove(simplies(pre, sor(f.s + f.l <= g.s,
                                        g.s + g.l <= f.s)),
                      "fields-overlap",
                      (f.name, f.s, f.l, g.name, g.s, g.l))

    def assign():
        fit = fits()
        try:
            bf.assign_fields()
        except ValueError as e:
            ctx.observe("assign_fields", "ValueError")
            ctx.witness("assign-failed")
            if not any_explicit_start[0]:
                ctx.prove(snot(fit),
                          FRAG if frag else "assign-incomplete", str(e))
            return False
        ctx.witness("assigned")
        for f in fields:
            try:
                s, l = f.handle.get_location_and_length(f.name)
            except ValueError:
                ctx.prove(False, "field-unassigned-after-assign", f.name)
                return False
            ctx.observe(f.name, s, l)
            if f.S is not None:
                ctx.prove(s == f.S, "explicit-start-moved", f.name)
            if f.L is not None:
                ctx.prove(l == f.L, "explicit-length-changed", f.name)
            if f.l is not None and f.s is not None:
                ctx.prove(sand(s == f.s, l == f.l), "assigned-field-moved",
                          f.name)
            f.s, f.l = s, l
        check_layout()
        # the unqualified bit field sees exactly the unconditional fields
        top = [f for f in fields if not f.req]
        ctx.prove(bf.get_mask() == _or_all(_bits(f.s, f.l) for f in top),
                  "mask-not-union", "root")
        return True

    def complete():
        """Give a value to every field that is (or becomes) enabled."""
        h = bf
        given = {}
        changed = True
        while changed:
            changed = False
            for f in fields:
                if f.name in given:
                    continue
                if all(p in given and bool(given[p][1] == vals[k])
                       for p, k in f.req):
                    x = ctx.bv("x_" + f.name, vbits)
                    h = call(h, {f.name: x}, [(f, x)])
                    if h is None:
                        return False
                    given[f.name] = (f, x)
                    changed = True
        live.append((h, given))
        return True

    def readback(h, given):
        ctx.witness("readback")
        try:
            v = h.get_value()
            m = h.get_mask()
        except Exception as e:
            ctx.observe("get_value", type(e).__name__)
            ctx.prove(False, "get-value-failed", repr(e))
            return None
        ctx.observe("key", v, m)
        en = [f for f, x in given.values()]
        want = _or_all(_bits(f.s, f.l) for f in en)
        ctx.prove(m == want, "mask-not-union", (m, want))
        ctx.prove((v | m) == m, "value-outside-mask", (v, m))
        for f, x in given.values():
            ctx.prove(((v >> f.s) & ((1 << f.l) - 1)) == x,
                      "readback-mismatch", (f.name, v, f.s, f.l, x))
            ctx.prove(sand(h.get_value(field=f.name) == (x << f.s),
                           h.get_mask(field=f.name) == _bits(f.s, f.l)),
                      "single-field-value-or-mask", f.name)
            ctx.prove(h.get_tags(f.name) == f.tags, "tags-wrong",
                      (f.name, sorted(f.tags)))
        tagged = {}
        alltags = set()
        for f in fields:
            alltags |= f.tags
        for t in sorted(alltags):
            sel = [f for f in en if t in f.tags]
            try:
                mt = h.get_mask(tag=t)
                vt = h.get_value(tag=t)
            except UnknownTagError:
                ctx.prove(not sel, "tagged-fields-not-found", t)
                continue
            ctx.witness("tag-mask")
            wt = _or_all(_bits(f.s, f.l) for f in sel)
            ctx.prove(sand(mt == wt, vt == (v & wt)), "tag-mask-wrong",
                      (t, mt, wt))
            tagged[t] = (vt, mt)
        return v, m, tagged

    def readback_all():
        keys = []
        for h, given in live:
            r = readback(h, given)
            if r is None:
                return False
            keys.append((given, r[0], r[1], r[2]))
        for (g1, v1, m1, t1), (g2, v2, m2, t2) in combinations(keys, 2):
            common = [(g1[nm][1], g2[nm][1]) for nm in g1
                      if nm in g2 and g1[nm][0] is g2[nm][0]]
            if not common:
                continue
            ctx.witness("two-assignments")
            differ = sor(*[x1 != x2 for x1, x2 in common])
            ctx.prove(simplies(differ, ((v1 ^ v2) & m1 & m2) != 0),
                      "distinct-assignments-match", (v1, m1, v2, m2))
            for t in sorted(set(t1) & set(t2)):
                # assignments that differ in a field carrying the tag give
                # tagged key/mask pairs that do not match either
                dt = sor(*[g1[nm][1] != g2[nm][1] for nm in g1
                           if nm in g2 and g1[nm][0] is g2[nm][0] and
                           t in g1[nm][0].tags])
                ctx.prove(simplies(dt, ((t1[t][0] ^ t2[t][0]) &
                                        t1[t][1] & t2[t][1]) != 0),
                          "distinct-assignments-match-under-tag", t)
            if (set(g1) != set(g2) or
                    any(g1[nm][0] is not g2[nm][0] for nm in g1)):
                # different sets of present fields: some common field differs
                ctx.prove(differ, "harness-enabled-sets", None)
        return True

    def make_handles():
        """A handle for every scope of the shape whose parent fields are
        already defined: kept, and asked again after later definitions."""
        for spec in shape:
            req = tuple(spec[1])
            if not req or req in handles:
                continue
            try:
                anc = [ancestor(req[:i] if i else (), p) if False else
                       ancestor(req, p) for i, (p, k) in enumerate(req)]
            except AssertionError:
                continue
            h = call(bf, {p: vals[k] for p, k in req},
                     [(g, vals[k]) for g, (p, k) in zip(anc, req)])
            if h is None:
                return False
            handles[req] = h
        ctx.witness("handles-kept")
        return True

    def query_handles():
        """get_mask() of every retained handle: the union of the bits of
        the fields enabled under the handle's own values, now."""
        for req, h in sorted(handles.items(), key=lambda kv: len(kv[0])):
            en = []
            for f in fields:
                cond = sand(*[sor(*[vals[k] == vals[kk] for q, kk in req
                                    if q == p] or [False])
                              for p, k in f.req])
                if cond is False:
                    continue
                en.append((f, cond))
            if any(f.s is None or f.l is None for f, c in en):
                continue
            try:
                m = h.get_mask()
            except Exception as e:
                ctx.observe("handle mask", len(req), type(e).__name__)
                ctx.prove(False, "get-value-failed", repr(e))
                return False
            ctx.observe("handle mask", len(req), m)
            want = const(0, bv=True)
            for f, c in en:
                b = _bits(f.s, f.l)
                if isinstance(b, int):
                    b = const(b, bv=True)
                want = want | ite(c, b, const(0, bv=True))
            ctx.prove(m == want, "mask-not-union",
                      ("retained handle", len(req), m, want))
        return True

    # -- the history ---------------------------------------------------
    assigned_since_define = False
    for step in prog:
        if step == "H":
            if not make_handles():
                return
        elif step == "A":
            if not assign():
                return
            assigned_since_define = True
            if not query_handles():
                return
            if not readback_all():
                return
        elif step == "V":
            if not complete():
                return
        else:
            if not define(step):
                return
            assigned_since_define = False
    if assigned_since_define:
        # values given after the layout was fixed: widths still suffice
        check_layout()
        readback_all()


# ----------------------------------------------------------------------
def h_log(ctx):
    """The floor(log2) model equals rig's int(log(x, 2)) (plain floats)."""
    xs = set(range(1, 4097))
    for k in range(1, 48):
        xs.update((2 ** k - 1, 2 ** k, 2 ** k + 1))
    bad = [x for x in sorted(xs) if int(math.log(x, 2)) != x.bit_length() - 1]
    ctx.observe(len(xs), bad)
    ctx.prove(not bad, "log-model-differs-from-math.log", bad[:5])


# ----------------------------------------------------------------------
# Shapes: (identifier, ((parent, value key), ...), length, start, tags)
# length/start: None automatic, "sym" explicit symbolic, "?" either
# ----------------------------------------------------------------------
def flat(k, lm=None, sm=None):
    lm = lm if isinstance(lm, (list, tuple)) else [lm] * k
    sm = sm if isinstance(sm, (list, tuple)) else [sm] * k
    return tuple(("f%d" % i, (), lm[i], sm[i], ()) for i in range(k))


def reuse(lm=None, sm=None, extra=False):
    """parent a; b when a=k0; another b when a=k1 (k0 != k1)."""
    lm = lm if isinstance(lm, tuple) else (lm, lm)
    sm = sm if isinstance(sm, tuple) else (sm, sm)
    s = [("a", (), None, None, ()),
         ("b", (("a", "k0"),), lm[0], sm[0], ()),
         ("b", (("a", "k1"),), lm[1], sm[1], ())]
    if extra:
        s.append(("c", (), None, None, ()))
    return tuple(s)


def siblings(lm=None, sm=None):
    """parent a; c when a=k0; d when a=k1; k0 == k1 possible."""
    lm = lm if isinstance(lm, tuple) else (lm, lm)
    sm = sm if isinstance(sm, tuple) else (sm, sm)
    return (("a", (), None, None, ()),
            ("c", (("a", "k0"),), lm[0], sm[0], ()),
            ("d", (("a", "k1"),), lm[1], sm[1], ()))


def chain(lm=None, sm=None, plm=None, psm=None, tags=(), extra=False):
    s = [("a", (), plm, psm, ()),
         ("b", (("a", "k0"),), None, None, ()),
         ("c", (("a", "k0"), ("b", "k1")), lm, sm, tags)]
    if extra:
        s.append(("u", (), None, None, "other"))
    return tuple(s)


def tagtree():
    """The outermost requirement already carries the leaves' tag; the field
    in between is declared without it and must inherit it."""
    return (("a", (), None, None, ("t",)),
            ("b", (("a", "k0"),), None, None, ()),
            ("c", (("a", "k0"), ("b", "k1")), None, None, ("t",)),
            ("d", (("a", "k0"), ("b", "k2")), None, None, ("t",)))


def taginherit():
    """The root inherits the tag from one branch before a deeper tagged leaf
    is defined in another branch below an untagged field."""
    return (("a", (), None, None, ()),
            ("c", (("a", "k0"),), None, None, ("t",)),
            ("b", (("a", "k1"),), None, None, ()),
            ("d", (("a", "k1"), ("b", "k2")), None, None, ("t",)))


SHARED_TAGS = ("r",)


def tagshared():
    """Two unconditional fields given the caller's one set object as their
    tags; a field in the scope of the first brings a tag of its own."""
    return (("a", (), None, None, ("@shared",) + SHARED_TAGS),
            ("b", (), None, None, ("@shared",) + SHARED_TAGS),
            ("x", (("a", "k0"),), None, None, ("p",)))


def tagtwo():
    """A tagged field in a scope keyed on two unconditional fields, the
    first of which already carries the tag."""
    return (("a", (), None, None, ()),
            ("b", (), None, None, ()),
            ("x", (("a", "k0"),), None, None, ("t",)),
            ("y", (("a", "k1"), ("b", "k2")), None, None, "t"))


def chains2():
    return (("a", (), None, None, ()),
            ("b", (("a", "k0"),), None, None, ()),
            ("b", (("a", "k1"),), None, None, ()),
            ("c", (("a", "k0"), ("b", "k2")), None, None, ()),
            ("c", (("a", "k1"), ("b", "k3")), None, None, ()))


def two_parents():
    return (("a", (), None, None, ()),
            ("b", (), None, None, ()),
            ("x", (("a", "k0"),), None, None, ()),
            ("y", (("b", "k1"),), None, None, ()),
            ("z", (("a", "k2"),), None, None, ()))


def two_parents_b_last():
    """As two_parents, the scope of the second parent defined last (the
    layout pass then meets it after both scopes of the first parent)."""
    return (("a", (), None, None, ()),
            ("b", (), None, None, ()),
            ("x", (("a", "k0"),), None, None, ()),
            ("z", (("a", "k2"),), None, None, ()),
            ("y", (("b", "k1"),), None, None, ()))


def order(shape, which):
    """The history: field indices (define), "V" (a complete assignment of
    values), "A" (assign_fields)."""
    idx = list(range(len(shape)))
    top = [i for i in idx if not shape[i][1]]
    rest = [i for i in idx if shape[i][1]]
    if which == "DVA":        # define, values, layout
        return tuple(idx) + ("V", "V", "A")
    if which == "DAV":        # define, layout, values
        return tuple(idx) + ("A", "V", "V")
    if which == "DAVA":       # ... and a second layout call: nothing moves
        return tuple(idx) + ("A", "V", "V", "A")
    if which == "PCA":        # parents, values, layout; children, values,
        return tuple(top) + ("V", "A") + tuple(rest) + ("V", "V", "A")
    if which == "PHCA":       # as PCA with a handle per scope made early
        return tuple(top) + ("V", "H", "A") + tuple(rest) + ("V", "V", "A")
    if which == "DVDVA":      # values given between the definitions
        return tuple(top) + ("V",) + tuple(rest) + ("V", "V", "A")
    raise ValueError(which)


def units(tier, seed):
    us = [Unit("log model", h_log)]
    base = ("assigned", "readback", "two-assignments")

    def add(name, shape, which, blen, vbits=3, distinct=(), frag=False,
            w=(), **kw):
        us.append(Unit("%s %s len=%s w=%d" % (name, which, blen, vbits),
                       h_bitfield,
                       dict(shape=shape, prog=order(shape, which), blen=blen,
                            vbits=vbits, distinct=distinct, frag=frag),
                       witnesses=base + tuple(w), **kw))

    R = (("k0", "k1"),)
    FAIL = ("assign-failed",)
    REJ = ("value-rejected",)
    XR = ("explicit-rejected",)
    # ---- flat -------------------------------------------------------
    add("flat2 auto", flat(2), "DVA", 8, 6, w=FAIL)
    add("flat3 auto", flat(3), "DVA", 8, w=FAIL)
    add("flat3 auto", flat(3), "DAV", (8, 12, 32), w=REJ)
    add("flat2 auto", flat(2), "DVA", "sym", 6, w=FAIL, split=4)
    add("flat2 explicit", flat(2, "?", "?"), "DVA", 8, 3, w=FAIL + XR,
        split=4)
    # ---- one parent, two scoped children re-using a name ------------
    add("reuse auto", reuse(), "DVA", 5, distinct=R, w=FAIL, split=4)
    add("reuse auto", reuse(), "DAV", 5, distinct=R, w=REJ)
    add("reuse auto", reuse(), "PCA", 5, distinct=R, w=FAIL + REJ, split=4)
    add("reuse explicit", reuse(("?", None), ("?", None)), "DVA", 8,
        distinct=R, w=FAIL + XR, split=5)
    # ---- children whose enabling values may coincide ------------------
    add("siblings auto", siblings(), "DVA", 7, w=FAIL, split=4)
    # ---- child of child --------------------------------------------------
    add("chain auto", chain(), "DVA", 8, w=FAIL, split=4)
    add("chain auto", chain(), "DVDVA", 8, w=FAIL, split=4)
    # handles on the scopes made before their fields exist, asked for their
    # mask before and after the later definitions
    add("siblings auto", siblings(), "PHCA", 8, w=("handles-kept",), split=4)
    add("reuse auto", reuse(), "PHCA", 8, distinct=R, w=("handles-kept",),
        split=4)
    add("chain tags", chain(tags=("t",), extra=True), "DVA", 12,
        w=("tag-mask",), split=4)
    # ---- tags whose propagation must pass an already tagged ancestor --
    add("tag tree", tagtree(), "DVA", 8, 2, w=("tag-mask",), split=5)
    add("tag two keys", tagtwo(), "DVA", 8, 2, w=("tag-mask",), split=5)
    add("tags one set for two fields", tagshared(), "DVA", 8, 2,
        w=("tag-mask", "shared-tags-set"), split=4)
    add("tag inherited", taginherit(), "DVA", 8, 2, distinct=R,
        w=("tag-mask",), split=5)
    # ---- known finding: fragmentation with two independent parents ---
    add("two parents", two_parents(), "DVA", 8, 2,
        distinct=(("k0", "k2"),), frag=True, w=FAIL, split=5)
    add("two parents b last", two_parents_b_last(), "DVA", 8, 2,
        distinct=(("k0", "k2"),), frag=True, split=5)
    if tier != "thorough":
        return us
    Q = ("?", None)
    add("flat4 auto", flat(4), "DVA", 8, w=FAIL, split=4)
    add("flat4 auto", flat(4), "PCA", 8, w=FAIL, split=4)
    add("flat3 auto", flat(3), "DVA", 12, 6, w=FAIL, split=4)
    add("flat3 auto", flat(3), "DVA", "sym", w=FAIL, split=5)
    add("flat3 auto", flat(3), "DAVA", "sym", w=REJ, split=4)
    add("flat2 explicit", flat(2, "?", "?"), "DVA", "sym", w=FAIL + XR,
        split=7)
    add("flat2 explicit", flat(2, "?", "?"), "DVA", (12, 32), 6,
        w=FAIL + XR, split=7)
    add("flat2 explicit", flat(2, "?", "?"), "DAVA", 8, w=REJ + XR, split=5)
    add("flat3 explicit", flat(3, ("?", "?", None), ("?", "?", None)), "DVA",
        8, w=FAIL + XR, split=8)
    add("reuse explicit both", reuse(Q, "?"), "DVA", 8, distinct=R,
        w=FAIL + XR, split=8)
    add("reuse explicit", reuse(Q, Q), "PCA", 8, distinct=R,
        w=FAIL + XR + REJ, split=6)
    add("reuse explicit", reuse(Q, Q), "DAV", 8, distinct=R,
        w=XR + REJ, split=6)
    add("reuse+1 auto", reuse(extra=True), "DVA", 7, distinct=R, w=FAIL,
        split=6)
    add("reuse+1 auto", reuse(extra=True), "PCA", 7, distinct=R, w=FAIL,
        split=6)
    add("siblings auto", siblings(), "PCA", 7, w=FAIL, split=5)
    add("siblings auto", siblings(), "DAV", 7, w=REJ, split=5)
    add("siblings explicit", siblings(Q, Q), "DVA", 8, w=FAIL + XR,
        split=7)
    add("chain auto", chain(), "PCA", 8, w=FAIL, split=5)
    add("chain auto", chain(), "DAV", 8, w=REJ, split=5)
    add("chain explicit leaf", chain("?", "?"), "DVA", 8, w=FAIL + XR,
        split=7)
    add("chain explicit parent", chain(plm="?", psm="?"), "DVA", 8,
        w=FAIL + XR, split=7)
    add("chain tags str", chain(tags="t u", extra=True), "DVA", 12,
        w=("tag-mask",), split=6)
    add("chain tags", chain(tags=("t",), extra=True), "PCA", 12,
        w=("tag-mask",), split=6)
    add("chain tags", chain(tags=("t",), extra=True), "DAV", 12,
        w=("tag-mask",) + REJ, split=6)
    add("tag tree", tagtree(), "PCA", 8, 2, w=("tag-mask",), split=6)
    add("tag tree", tagtree(), "DAV", 8, 2, w=("tag-mask",), split=6)
    add("tag two keys", tagtwo(), "PCA", 8, 2, w=("tag-mask",), split=6)
    add("chains2", chains2(), "DVA", 5, 2, distinct=R, w=FAIL, split=7)
    add("chains2", chains2(), "PCA", 5, 2, distinct=R, w=FAIL, split=7)
    add("two parents", two_parents(), "DVA", 9, 3,
        distinct=(("k0", "k2"),), frag=True, w=FAIL, split=8)
    return us
