import sys, time, warnings, itertools
warnings.simplefilter("ignore")
sys.path.insert(0, "/tmp/proto"); sys.path.insert(0, "/tmp/scr")
import z3
from symex import *
from rig.place_and_route.machine import Machine
from rig.place_and_route.route import ner
from rig.place_and_route.route.ner import route
from rig.place_and_route.routing_tree import RoutingTree
from rig.place_and_route.exceptions import MachineHasDisconnectedSubregion
from rig.netlist import Net
from rig.links import Links
import random as _r

class SymSet:
    def __init__(self, eng, keys, K):
        self.b = {k: z3.Bool("dead_%d_%d_%d" % (k[0], k[1], int(k[2]))) for k in keys}
        eng.solver.add(z3.PbLe([(v, 1) for v in self.b.values()], K))
    def __contains__(self, k): return SymBool(self.b[k])
    def copy(self): return self

def run(w, h, K, src, sinks):
    def body(eng):
        keys = [(x, y, l) for x in range(w) for y in range(h) for l in Links]
        m = Machine(w, h)
        m.dead_links = SymSet(eng, keys, K)
        vs = [object() for _ in range(1 + len(sinks))]
        pl = dict(zip(vs, [src] + list(sinks)))
        net = Net(vs[0], vs[1:])
        _r.seed(0)
        try:
            r = route({v: {} for v in vs}, [net], m, [], pl)
        except MachineHasDisconnectedSubregion:
            return "disc"
        # oracle: all hops alive
        conds = []
        seen = set()
        def rec(n):
            assert n.chip not in seen; seen.add(n.chip)
            for d, c in n.children:
                if isinstance(c, RoutingTree):
                    conds.append(z3.Not(m.dead_links.b[(n.chip[0], n.chip[1], Links(d))]))
                    dx, dy = Links(d).to_vector()
                    assert ((n.chip[0]+dx) % w, (n.chip[1]+dy) % h) == c.chip
                    rec(c)
        rec(r[net])
        ok = eng.prove(z3.And(*conds)) is None if conds else True
        return "ok" if ok else "VIOL"
    eng = Engine(); t = time.time(); eng.explore(body, max_paths=100000)
    from collections import Counter
    print("%dx%d K=%d src=%s sinks=%s paths=%d checks=%d wall=%.1f solver=%.1f" % (w, h, K, src, sinks, eng.paths, eng.checks, time.time()-t, eng.solver_time), dict(Counter(eng.results)))
    sys.stdout.flush()
run(2, 2, 1, (0,0), [(1,1)])
run(3, 3, 1, (0,0), [(2,2), (1,2)])
run(3, 3, 2, (0,0), [(2,2), (1,2)])
run(4, 4, 2, (0,0), [(3,2), (1,3), (2,0)])
