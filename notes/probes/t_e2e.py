import sys, time, warnings, itertools
warnings.simplefilter("ignore")
sys.path.insert(0, "/tmp/proto"); sys.path.insert(0, "/tmp/scr")
import z3
from symex import *
from rig.place_and_route import Machine, Cores
from rig.place_and_route.place.sequential import place
from rig.place_and_route.allocate.greedy import allocate
from rig.place_and_route.route.ner import route
from rig.place_and_route.constraints import ReserveResourceConstraint
from rig.routing_table import routing_tree_to_tables, minimise_tables, Routes
from rig.routing_table.ordered_covering import minimise as oc_min
from rig.routing_table.remove_default_routes import minimise as rdr_min
from rig.netlist import Net
from rig.links import Links

F = 0xffffffff
def run(w, h, nv, netspec, WIN, methods, cores_per_chip=3):
    def body(eng):
        m = Machine(w, h, chip_resources={Cores: cores_per_chip})
        vs = [("v%d" % i) for i in range(nv)]
        vr = {v: {Cores: 1} for v in vs}
        nets = [Net(vs[s], [vs[t] for t in ts]) for s, ts in netspec]
        cons = [ReserveResourceConstraint(Cores, slice(0, 1))]
        pl = place(vr, nets, m, cons)
        al = allocate(vr, nets, m, cons, pl)
        rt = route(vr, nets, m, cons, pl, al)
        P = SymInt.var("P", 0, F)
        keys = {}; masks = {}
        for i, n in enumerate(nets):
            mk = SymInt.var("m%d" % i, 0, WIN)
            kk = SymInt.var("k%d" % i, 0, WIN)
            mask = mk | (F & ~WIN)
            key = (P & (F & ~WIN)) | kk
            eng.assume((key & ~mask & F) == 0)
            keys[n] = key; masks[n] = mask
        for a, b in itertools.combinations(nets, 2):
            eng.assume(SymBool((keys[a].e & masks[b].e) != (keys[b].e & masks[a].e)))
        nk = {n: (keys[n], masks[n]) for n in nets}
        tabs = routing_tree_to_tables(rt, nk)
        tabs = minimise_tables(tabs, None, methods)
        # packet walk per net
        res = []
        for n in nets:
            pk = eng.fresh("pk", z3.BitVecSort(W))
            eng.solver.add(pk >= 0, pk <= F, (pk & masks[n].e) == keys[n].e)
            expected = set()
            for s in n.sinks:
                c = al[s][Cores]
                for core in range(c.start, c.stop):
                    expected.add((pl[s], core))
            delivered = []
            front = [(pl[n.source], None)]
            hops = 0
            while front:
                chip, arrived = front.pop()
                hops += 1
                assert hops < 50
                outs = None
                for e in tabs.get(chip, []):
                    if SymBool((pk & bv(e.mask)) == bv(e.key)):
                        outs = e.route; break
                if outs is None:
                    if arrived is None: return "DROP"
                    outs = {Routes(arrived)}   # default: continue same direction
                for r in outs:
                    if r.is_core: delivered.append((chip, r.core_num))
                    else:
                        dx, dy = Links(r).to_vector()
                        front.append((((chip[0]+dx) % w, (chip[1]+dy) % h), Links(r)))
            if sorted(delivered) != sorted(expected): return ("BAD", n, delivered, expected)
        return "ok"
    eng = Engine(); t = time.time(); eng.explore(body, max_paths=50000)
    from collections import Counter
    print("%dx%d nv=%d nets=%s WIN=%d methods=%d paths=%d checks=%d wall=%.1f solver=%.1f" % (w, h, nv, netspec, WIN, len(methods), eng.paths, eng.checks, time.time()-t, eng.solver_time), dict(Counter(r if isinstance(r, str) else r[0] for r in eng.results)))
    sys.stdout.flush()
run(2, 2, 4, [(0, [1, 2]), (1, [3])], 3, (rdr_min, oc_min), 2)
run(2, 2, 4, [(0, [1, 2]), (1, [3]), (2, [0, 3])], 3, (rdr_min, oc_min), 2)
run(3, 3, 6, [(0, [1, 5]), (1, [3, 4]), (2, [0, 5])], 7, (rdr_min, oc_min), 2)
