import z3, time
def Abs(e): return z3.If(e < 0, -e, e)
def Max(a,b): return z3.If(a > b, a, b)
def Min(a,b): return z3.If(a < b, a, b)
tot=0
for w in range(1, 13):
  for h in range(1, 13):
    x, y, a, b, c, k1, k2 = z3.Ints("x y a b c k1 k2")
    L = Min(Min(Max(x, y), w - x + y), Min(x + h - y, Max(w - x, h - y)))
    s = z3.Solver()
    s.add(0 <= x, x < w, 0 <= y, y < h)
    s.add(a - c == x + k1 * w, b - c == y + k2 * h)
    s.add(Abs(a) + Abs(b) + Abs(c) < L)
    t = time.time(); r = s.check(); dt = time.time() - t; tot += dt
    if r != z3.unsat or dt > 1: print(w, h, r, "%.2f" % dt)
print("total %.1f" % tot)
