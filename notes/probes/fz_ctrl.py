import sys, random, struct, warnings, collections
warnings.simplefilter("ignore")
sys.path.insert(0, "/tmp/proto")
import fakemachine as fm
from rig.machine_control import machine_controller as mcm, consts
from rig.machine_control.consts import AppState
from rig.machine_control.packets import SCPPacket
from rig.routing_table import RoutingTableEntry, Routes
from rig.links import Links
mcm.SCPConnection = fm.FakeConn
random.seed(1)
m = fm.Machine(2, 2, None, 64); fm.FakeConn.machine = m
mc = mcm.MachineController("h"); m.structs = mc.structs
# ---- C10 load
bad = 0
for it in range(300):
    n = random.randint(0, 5)
    ents = [RoutingTableEntry(set(random.sample(list(Routes), random.randint(0, 5))), random.getrandbits(32), random.getrandbits(32)) for _ in range(n)]
    x, y = random.choice(list(m.chips)); app = random.randint(1, 255)
    before = dict(m.chips[(x, y)].router)
    try:
        mc.load_routing_table_entries(ents, x=x, y=y, app_id=app)
    except mcm.SpiNNakerRouterError:
        assert m.chips[(x, y)].router == before; continue
    new = {k: v for k, v in m.chips[(x, y)].router.items() if k not in before}
    base = min(new) if new else None
    exp = [(e.key, e.mask, sum(1 << r for r in e.route), app) for e in ents]
    got = [new[k] for k in sorted(new)]
    if got != exp or (new and sorted(new) != list(range(base, base + n))): bad += 1; print("C10 load bad")
    # unpack
    for e in ents:
        route = sum(1 << r for r in e.route)
        rte, a, c = mcm.unpack_routing_table_entry(struct.pack("<2H3I", 0, app | (3 << 8), route, e.key, e.mask))
        if rte.route != e.route or rte.key != e.key or rte.mask != e.mask or a != app or c != 3: bad += 1; print("unpack bad")
print("C10 bad", bad)
# ---- C14 chip info decode (format as in SC&MP cmd_info)
class InfoConn(fm.FakeConn):
    def send_scp(self, buffer_size, x, y, p, cmd, arg1=0, arg2=0, arg3=0, data=b'', expected_args=3, timeout=0.0):
        if cmd == consts.SCPCommands.info:
            pk = SCPPacket(cmd_rc=0x80, arg1=self.reply[0], arg2=self.reply[1], arg3=self.reply[2], data=self.reply[3], dest_x=0, dest_y=0, dest_cpu=0, dest_port=0)
            return SCPPacket.from_bytestring(pk.bytestring, n_args=expected_args)
        return fm.FakeConn.send_scp(self, buffer_size, x, y, p, cmd, arg1, arg2, arg3, data, expected_args, timeout)
mcm.SCPConnection = InfoConn
mc = mcm.MachineController("h")
bad = 0
states = [s for s in AppState]
for it in range(2000):
    nc = random.randint(0, 18); links = random.getrandbits(6); rtr = random.getrandbits(11); eth = random.getrandbits(1); junk = random.getrandbits(6) << 26
    a1 = nc | (links << 8) | (rtr << 14) | (eth << 25) | junk | (random.getrandbits(3) << 5)
    a2 = random.getrandbits(32); a3 = random.getrandbits(32)
    cs = [random.choice(states) for _ in range(18)]
    ex, ey = random.getrandbits(8), random.getrandbits(8); ip = [random.getrandbits(8) for _ in range(4)]
    data = bytes(int(s) for s in cs) + struct.pack("<H", (ex << 8) | ey) + bytes(ip)
    mc.connections[None].reply = (a1, a2, a3, data)
    ci = mc.get_chip_info(0, 0)
    exp = (nc, cs[:nc], {l for l in Links if links & (1 << l)}, a2, a3, rtr, bool(eth), ".".join(map(str, ip)), (ex, ey))
    got = (ci.num_cores, ci.core_states, ci.working_links, ci.largest_free_sdram_block, ci.largest_free_sram_block, ci.largest_free_rtr_mc_block, ci.ethernet_up, ci.ip_address, ci.local_ethernet_chip)
    if exp != got: bad += 1; print("C14 info bad", exp, got); break
print("C14 info bad", bad)
# ---- C18 contexts
mcm.SCPConnection = fm.FakeConn
m = fm.Machine(3, 3, None, 64); fm.FakeConn.machine = m
mc = mcm.MachineController("h"); m.structs = mc.structs
def last(): return m.log[-1]
bad = 0
with mc(x=1, y=2):
    mc.read(0x100, 4); 
    with mc(x=2):
        try:
            with mc(y=0, app_id=7):
                mc.sdram_free(0x1234) if False else None
                mc.write(0x10, b"abcd", p=3)
                raise KeyError
        except KeyError: pass
        mc.fill(0x40, 1, 8, p=5); assert last()[:3] == (2, 2, 5), last()
    mc.fill(0x40, 1, 8, p=5); assert last()[:3] == (1, 2, 5), last()
try:
    mc.fill(0x40, 1, 8); print("no TypeError!"); bad += 1
except TypeError: pass
with mc.application(9):
    n = len(m.log)
assert m.log[-1][3] == consts.SCPCommands.signal and (m.log[-1][5] & 0xff) == 9 and (m.log[-1][5] >> 16) & 0xff == consts.AppSignal.stop, m.log[-1]
print("C18 smoke bad", bad)
