"""C18 -- commands go to the chip, core and application the caller named.

The real `use_contextual_arguments`-decorated methods of MachineController
and BMPController run, through the real ContextMixin / Context stack, the real
`_send_scp` / `_get_connection`, the real SCPConnection and packet encoder,
down to the bytes handed to a (stub) UDP socket.  Every contextual argument
(x, y, p, app_id; cabinet, frame, board) is supplied at every place it can be
supplied -- positionally, by keyword, by a context block at nesting level 1, 2
or 3, by the controller's initial context, by the method's default or nowhere
-- with a DISTINCT bit-vector symbol per place, so that the solver tells which
one reached the wire.

The oracle is written here, not taken from rig:

* precedence: explicit argument > innermost enclosing context that sets it >
  outer contexts > the controller's initial context > the method's default; a
  Required argument found nowhere => TypeError and no datagram;
* a block left normally or by an exception leaves the arguments in force as
  they were before it (a probe command after every exit is checked against
  the model's stack);
* `with mc.application(a)` stops exactly application `a` on exit;
* wire layout of a command (SDP/SCP header of C15; the bit-fields that carry
  an app_id, read from the SC&MP command documentation as quoted in the
  methods' comments): see SPEC below, one row per method;
* connection: the socket registered for the Ethernet chip of the 48-chip
  board holding (x, y) (board description of harness/c19.py, reduced modulo
  the machine size) when one is registered and the machine size and root chip
  are known, else the initial connection; BMP: the (cabinet, frame, board)
  connection, else the (cabinet, frame) one, else AssertionError and nothing
  sent.

Finding reported as known (C18:context-p-reaches-internal-memory-commands):
a `p` in force in a context is picked up by the read / write /
read_struct_field calls methods make for their own purposes without passing p,
so e.g. `with mc(x=1, y=2, p=5): mc.read_vcpu_struct_field("cpu_state")`
reads through core 5 while `mc.read_vcpu_struct_field("cpu_state", 1, 2, 5)`
reads through the monitor.
"""
import inspect
import io
import math

from sx.runner import Unit as _Unit
from sx.proxies import sand, sor, snot, is_sym

PROPERTY = "C18"

MC, BMP = "MachineController", "BMPController"
CTXNAMES = {MC: ("x", "y", "p", "app_id"), BMP: ("cabinet", "frame", "board")}
BITS = {"x": 8, "y": 8, "p": 5, "app_id": 8, "cabinet": 8, "frame": 8,
        "board": 5}
MAXV = {"p": 17, "board": 23}
# documented initial contexts of the two controllers
INIT = {MC: {"app_id": 66}, BMP: {"cabinet": 0, "frame": 0, "board": 0}}
REQ = "<required>"
KNOWN_LEAK = "C18:context-p-reaches-internal-memory-commands"

# (explicit?, context levels that set the argument): the ways one argument can
# be supplied.  The per-method units walk this menu with a different offset
# per argument (a Latin arrangement: every argument meets every entry, in
# changing company); the joint units take the full product.
MENU = (("kw", ()), ("kw", (1, 2, 3)), (None, (1,)), (None, (2,)),
        (None, (3,)), (None, (1, 2)), (None, (1, 3)), (None, (2, 3)),
        (None, (1, 2, 3)), (None, ()), ("kw", (2,)))
R = len(MENU)
SUBSETS = ((), (1,), (2,), (3,), (1, 2), (1, 3), (2, 3), (1, 2, 3))

BMP_HOSTS = (
    {(0, 0): "f00"},
    {(0, 0): "f00", (0, 0, 2): "b002"},
    {(0, 0): "f00", (0, 0, 2): "b002", (1, 3): "f13", (1, 3, 0): "b130",
     (0, 5, 1): "b051"},
)

META = {
    "bounds": "contextual arguments symbolic over their documented width "
              "(x, y, app_id, cabinet, frame 8 bits; p 0..17; board 0..23), "
              "one distinct symbol per place of supply.  Unit 'wiring': "
              "each covered method (quick: a seeded third = 13 "
              "MachineController + 3 BMPController methods; thorough: all "
              "38 + 7; application() has its own unit; five methods have a "
              "second row with another form of their arguments, see "
              "'pass-through') x every feasible "
              "length of the positional prefix x an 11-entry menu of supply "
              "patterns per argument (keyword / context levels {1}, {2}, "
              "{3}, {1,2}, {1,3}, {2,3}, {1,2,3} / nowhere / keyword over "
              "contexts; arguments inside the positional prefix are "
              "positional, with or without contexts), the menu rotated by "
              "4 (thorough: also by 7) per argument so that every argument "
              "meets every entry; tied to the rotation index: exit of the "
              "blocks normal or by an exception caught outside level 3, 2 "
              "or 1, initial context (documented default, empty, all "
              "symbolic), a block that also sets the contextual arguments "
              "the method does not take, the BMP host set; one probe call "
              "without explicit arguments after all blocks are left.  Unit "
              "'pass-through' (both tiers, same exploration as 'wiring'): "
              "the methods that hand their resolved arguments on to other "
              "decorated methods -- count_cores_in_state and "
              "wait_for_cores_to_reach_state with an iterable of 2-3 states "
              "(names and AppState members; every signal datagram's app_id "
              "field), load_application in count mode and with "
              "use_count=False (flood fill end, count / per-core vcpu "
              "reads at the target chip, start signal), "
              "load_routing_tables, sdram_alloc_as_filelike, sdram_alloc "
              "with clear=True (the fill), fill with an unaligned region "
              "(the write), get_iobuf, get_ip_address, get_working_links, "
              "get_num_working_cores, read / write_struct_field -- so that "
              "an explicit argument different from every context is on the "
              "wire of every inner command.  Unit "
              "'sources': the FULL product of (nowhere | keyword | "
              "positional) x (8 subsets of context levels) over the free "
              "arguments -- thorough: sdram_alloc (x, y, app_id), send_scp "
              "(x, y, p; keyword-only), read (x, y, p with default), BMP "
              "set_led (frame, board); quick: sdram_alloc (x, app_id), "
              "send_scp (y, p), BMP set_led (frame, board); the other "
              "arguments by keyword -- with probes before the blocks and "
              "after each level.  Unit 'history': all subsets of levels per "
              "free argument x 4 exit modes x 3 initial contexts, probes "
              "before and after every level -- thorough: sdram_alloc (x, y, "
              "app_id), read (x, p), BMP set_led (frame, board); quick: "
              "sdram_alloc (x, app_id), read (y, p).  Unit 're-entry' (both tiers; "
              "MachineController sdram_alloc with blocks setting x, y, "
              "app_id; send_signal with application() blocks; BMPController "
              "set_led with blocks setting board): SAVED context objects "
              "a, b and fresh contexts c entered as a-c-a, a then a again, "
              "a-b-a-b, a-a-c, c-a-c-a-b-a, the innermost left normally, by "
              "an exception caught right outside it or one passing through "
              "two or three blocks; a probe after every enter and every "
              "exit is held against a plain stack (enter pushes, exit pops "
              "the top); application() blocks: one stop per exit, for the "
              "block's own app.  Unit 'application': "
              "application() given its app_id positionally / by keyword / "
              "from the enclosing context, inside nothing / a context / "
              "another application block, containing nothing / a context / "
              "an application block, left normally or by an exception from "
              "the body or from the inner block, the caller having registered "
              "0, 1 or 3 clean-up functions of its own on the block's "
              "context (216 histories).  Unit "
              "'connection' (12 units per machine, by (y - root_y) mod 12): "
              "x, y symbolic integers inside the machine; quick: 24x24 "
              "root (0,0), 24x12 root (7,3); registered connections: every "
              "Ethernet chip, all but the root board's, all with the size "
              "unknown; through get_chip_info (x, y from a block) and read "
              "(by keyword); thorough adds 12x12 root (4,8), 24x24 root "
              "(1,0), 36x24 root (8,4), 48x24 root (0,0), the sets none / "
              "root board only / one other board, write and send_scp.  Unit "
              "'connection history' (24x12 root (7,3); thorough adds 24x24 "
              "root (0,0); 12 units each): commands to the same symbolic "
              "(x, y) interleaved with changes of mc.connections made as "
              "discover_connections makes them -- call, add, call, replace, "
              "call, remove, call and add, call, remove, call, add, call -- "
              "for the root board's connection (nothing else registered) "
              "and for each of its two triad neighbours (all other boards "
              "registered); every call is held against the connections "
              "registered at the time it is sent.  Unit "
              "'discover_connections 12x12': the real discover_connections "
              "(once, or twice) against a 12x12 three-board model whose "
              "Ethernet chips (0,0), (4,8), (8,4) report link up and an IP "
              "address; result 3 (then 0), connections exactly those three, "
              "each trial sver travels over the new connection, then "
              "get_chip_info / read to a symbolic (x, y) anywhere in the "
              "machine travels over its board's discovered connection.  "
              "BMP: hosts {(0,0)}, {(0,0),(0,0,2)}, {(0,0),(0,0,2),(1,3),"
              "(1,3,0),(0,5,1)} with symbolic cabinet, frame, board",
    "stubs": ["clock / select / socket: models/net.py, prompt fault-free "
              "network; the socket factory is replaced by one that tags each "
              "fake socket with the host name it was connected to and logs "
              "(tag, decoded datagram) in sending order",
              "the machine: a subclass of models/machine.py that answers "
              "every command with RC_OK, a non-zero arg1, zero memory "
              "(except sv.p2p_dims = 1x1; 12x12 in the discovery unit, where "
              "chip-info of the three Ethernet chips reports link up and "
              "IP 10.0.x.y) and payloads of the length each command's "
              "caller unpacks; replies are concrete",
              "struct shim in packets, scp_connection, machine_controller, "
              "bmp_controller; bytearray / memoryview / bytes of "
              "scp_connection and machine_controller as in C07",
              "controller.connections is replaced by a dict whose lookup "
              "with a key containing symbols compares it with each "
              "registered key of the same shape (a solver-decided branch "
              "per key) instead of hashing -- the meaning of dict.get for "
              "keys with value equality; used instead of ConcretisingDict "
              "so that cabinet / frame / x / y stay symbolic (the 12 x 12 "
              "board table of rig.geometry still concretises (x - root_x) "
              "mod 12)",
              "time in machine_controller and bmp_controller: the model "
              "clock (sleep only advances it); open() in machine_controller "
              "returns an 8-byte APLX image",
              "isinstance in bmp_controller treats a symbolic integer as "
              "int (set_led / set_power test isinstance(board, int))",
              "MachineController(structs=...) is given the parsed default "
              "sark.struct once per process instead of re-parsing it"],
    "assumptions": [
        "non-contextual parameters take one benign concrete value each",
        "contextual arguments are x, y, p, app_id (cabinet, frame, board): "
        "the documented ones",
        "initial contexts as documented: MachineController app_id=66, "
        "BMPController cabinet=frame=board=0",
        "board description for the connection choice: harness/c19.py "
        "(48-chip hexagon, Ethernet chips at root + (0,0), (4,8), (8,4) "
        "modulo 12), reduced modulo the machine size",
        "app_id bit-fields: alloc_free arg1 bits 8..15; router arg1 bits "
        "8..15; signal arg2 bits 0..7 with mask 0xff in bits 8..15 and the "
        "signal number in bits 16..23; flood-fill end arg2 bits 24..31",
        "memory commands a method issues for its own purposes (reading sv / "
        "vcpu structures, staging a routing table) are meant for the "
        "monitor, core 0, as they are when p is given explicitly; a p in "
        "force in a context reaching them is reported as the known finding "
        "C18:context-p-reaches-internal-memory-commands, any other core is "
        "a violation",
        "BMP set_power travels over the connection of board 0 of the frame "
        "(documented)",
    ],
    "outside_claim": [
        "discover_connections: 12x12 three-board machine with all links up "
        "(plus, as one of the wiring methods, a 1x1 machine without "
        "Ethernet link); failing trial commands / SCPError during "
        "discovery, dead chips and larger machines are not explored; "
        "boot() and get_machine() are not decorated and not covered",
        "the joint product of supply patterns over all arguments is "
        "explored for the representative methods listed; the other methods "
        "see every pattern per argument (rotation), not every combination",
        "nesting deeper than 3 blocks; contexts "
        "shared between controllers or threads; parameter names other "
        "than the documented contextual ones placed in a context",
        "later datagrams of multi-command methods are checked for their "
        "destination chip, core and command sequence; their other "
        "arguments only where listed in SPEC",
        "the destination fields of the datagram in the connection units "
        "(checked in all the other units)",
        "machine sizes that are not multiples of 12 and machines, root "
        "chips and connection sets other than those listed",
        "network faults and retransmission (C06/C07)",
    ],
}


# ----------------------------------------------------------------------
# environment: machine, sockets, patches
# ----------------------------------------------------------------------
class Boom(Exception):
    """Raised by the harness inside a context block."""


class GiveUp(Exception):
    """The path already recorded a violation and cannot go on."""


def stoppable(h):
    def run(ctx, **kw):
        try:
            return h(ctx, **kw)
        except GiveUp:
            return None
    run.__name__ = h.__name__
    return run


_MISSING = object()


class MatchDict(dict):
    """dict whose lookup with a key holding proxies compares it, component by
    component, with every registered key of the same shape: what dict.get
    means for keys with value equality, decided by the solver (one branch
    per registered key) instead of by hashing."""

    def _find(self, key):
        if not (isinstance(key, tuple) and any(is_sym(k) for k in key)):
            return key if dict.__contains__(self, key) else _MISSING
        for k in list(dict.keys(self)):
            if isinstance(k, tuple) and len(k) == len(key):
                c = sand(*[a == b for a, b in zip(k, key)])
                if (bool(c) if is_sym(c) else c):
                    return k
        return _MISSING

    def __getitem__(self, key):
        k = self._find(key)
        if k is _MISSING:
            raise KeyError(key)
        return dict.__getitem__(self, k)

    def get(self, key, default=None):
        k = self._find(key)
        return default if k is _MISSING else dict.__getitem__(self, k)

    def __contains__(self, key):
        return self._find(key) is not _MISSING


_STRUCTS = {}


def structs():
    import os
    key = os.environ.get("RIG_REPO", "")
    if key not in _STRUCTS:
        import pkg_resources
        from rig.machine_control import struct_file
        _STRUCTS[key] = struct_file.read_struct_file(
            pkg_resources.resource_string("rig", "boot/sark.struct"))
    return _STRUCTS[key]


APLX = bytes(range(8))


def _machine_class():
    from models.machine import Machine, Request, RC_OK
    import struct as rs

    class AckMachine(Machine):
        """Acknowledges everything; replies are concrete."""
        # command -> (args, payload length)
        REPLY = {26: ((1, 0, 0), 16), 48: ((), 48), 22: ((1, 0, 0), 0)}

        def __init__(self, ctx, buffer_size=256):
            Machine.__init__(self, ctx, buffer_size=buffer_size)
            self.mem = {}
            self.eth = {}       # Ethernet chip (x, y) -> its IP address
            self.mute = set()   # chips whose sver is refused (fatal code)
            self.no_ip = set()  # Ethernet chips whose info query is refused

        def cmd_31(self, q):
            # chip info: arg1 = cores | links << 8 | ... | ethernet up << 25;
            # payload 18 core states, local Ethernet chip, IP address
            if (not is_sym(q.dest_x) and not is_sym(q.dest_y) and
                    (int(q.dest_x), int(q.dest_y)) in self.no_ip):
                return self.reply(q, rc=0x88)       # fatal: RC_CPU
            if (self.eth and not is_sym(q.dest_x) and not is_sym(q.dest_y)
                    and (int(q.dest_x), int(q.dest_y)) in self.eth):
                x, y = int(q.dest_x), int(q.dest_y)
                octets = [int(o) for o in self.eth[(x, y)].split(".")]
                addr = sum(o << (8 * i) for i, o in enumerate(octets))
                return self.reply(q, args=(18 | (1 << 25), 0, 0),
                                  data=bytes(18) + rs.pack("<HI",
                                                           (x << 8) | y,
                                                           addr))
            return self.reply(q, args=(18, 0, 0), data=bytes(24))

        def reply(self, q, rc=RC_OK, args=(), data=b""):
            out = b"\0\0" + bytes(8) + rs.pack("<2H", rc, int(q.seq))
            for a in args:
                out += rs.pack("<I", a)
            return out + data

        def handle(self, data):
            q = Request(data)
            self.log.append(q)
            h = getattr(self, "cmd_%d" % int(q.cmd), None)
            if h is not None:
                return h(q)
            args, n = self.REPLY.get(int(q.cmd), ((0x60000100, 0, 0), 0))
            return self.reply(q, args=args, data=bytes(n))

        def cmd_0(self, q):
            if (not is_sym(q.dest_x) and not is_sym(q.dest_y) and
                    (int(q.dest_x), int(q.dest_y)) in self.mute):
                return self.reply(q, rc=0x88)       # fatal: RC_CPU
            name = b"SC&MP/SpiNNaker\0" + b"2.0.0\0"
            return self.reply(q, args=(0, (0xffff << 16) | self.buffer_size,
                                       0x5eed), data=name)

        def _read(self, addr, n):
            out = bytearray(n)
            if not is_sym(addr):
                for a, bs in self.mem.items():
                    for i, b in enumerate(bs):
                        if 0 <= a + i - addr < n:
                            out[a + i - addr] = b
            return bytes(out)

        def cmd_2(self, q):
            return self.reply(q, data=self._read(q.arg1, int(q.arg2)))

        def cmd_3(self, q):
            return self.reply(q)

        def cmd_5(self, q):
            return self.reply(q)

        def cmd_17(self, q):
            return self.reply(q, data=bytes(int(q.arg2)))

        def cmd_18(self, q):
            return self.reply(q)

    return AckMachine, Request


def _sym_isinstance(obj, types):
    from sx.proxies import SymInt
    if isinstance(obj, SymInt):
        ts = types if isinstance(types, tuple) else (types,)
        if int in ts:
            return True
    return isinstance(obj, types)


class Env(object):
    """Everything patched for one path; `wire` is the list of
    (socket tag, decoded datagram) in sending order."""

    def __init__(self, ctx, buf=256):
        from models.net import World
        from models.machine import ControllerPatch
        AckMachine, self.Request = _machine_class()
        self.ctx = ctx
        self.machine = AckMachine(ctx, buffer_size=buf)
        self.world = World(ctx, machine=self.machine, prompt=True)
        self.patch = ControllerPatch(self.world)
        self.wire = []

    def __enter__(self):
        from models.net import FakeSocket
        from sx.shims import struct as sstruct
        self.patch.__enter__()
        from rig.machine_control import scp_connection as sc
        from rig.machine_control import machine_controller as mcm
        from rig.machine_control import bmp_controller as bmpm
        env = self

        class Sock(FakeSocket):
            def send(self, data):
                env.wire.append((self.peer[0] if self.peer else None,
                                 env.Request(data)))
                return FakeSocket.send(self, data)

        class K(sc.socket):
            @staticmethod
            def socket(*a, **k):
                return Sock(env.world)
        sc.socket = K           # (restored by the net patch)
        self.mcm, self.bmpm = mcm, bmpm
        self.saved = (mcm.time, bmpm.time, bmpm.struct)
        mcm.time = sc.time
        bmpm.time = sc.time
        bmpm.struct = sstruct
        bmpm.isinstance = _sym_isinstance
        mcm.open = lambda *a, **k: io.BytesIO(APLX)
        sv = structs()[b"sv"]
        self.machine.mem[sv.base + sv[b"p2p_dims"].offset] = b"\x01\x01"
        return self

    def __exit__(self, *exc):
        mcm, bmpm = self.mcm, self.bmpm
        mcm.time, bmpm.time, bmpm.struct = self.saved
        del bmpm.__dict__["isinstance"]
        del mcm.__dict__["open"]
        return self.patch.__exit__(*exc)

    def controller(self, cls, init=None, hosts=None):
        """A fresh controller whose buffer size is already known (the sver
        query to (255, 255, 0) / the most specific BMP comes first)."""
        kw = {} if init is None else {"initial_context": dict(init)}
        if cls == MC:
            from rig.machine_control import MachineController
            c = MachineController("initial", structs=structs(), **kw)
        else:
            from rig.machine_control import BMPController
            c = BMPController(dict(hosts or BMP_HOSTS[0]), **kw)
        c.connections = MatchDict(c.connections)
        try:
            c.scp_data_length
        except Exception as e:
            self.ctx.observe("buffer size query", type(e).__name__)
            self.ctx.prove(False, "call-failed",
                           ("buffer size query", repr(e)))
            raise GiveUp()
        return c


# ----------------------------------------------------------------------
# SPEC: what each method puts on the wire
# ----------------------------------------------------------------------
class Spec(object):
    def __init__(self, vals=None, seq=(), cpu=0, x="x", y="y", xy="all",
                 app=(), extra=None, args=(), kwonly=None, kw=None, buf=256,
                 post=None, cores=None, via_board=None, method=None,
                 chips=None, mem=None):
        self.vals = vals or {}      # non-contextual parameters
        self.seq = tuple(seq)       # command codes of the datagrams sent
        # dest_cpu of each datagram: an argument name, a constant, or "M":
        # a memory command the method issues for its own purposes (reading
        # sv / vcpu structures, staging a table), meant for the monitor
        self.cores = tuple(cores) if cores else \
            (cpu,) + (0,) * (len(self.seq) - 1)
        self.x, self.y = x, y       # destination chip (argument or constant)
        self.xy = xy                # which datagrams go to that chip
        self.app = tuple(app)       # (datagram index, arg number, shift)
        self.extra = extra          # further (cond, label, detail) items
        self.args = tuple(args)     # *args of var-positional methods
        self.kwonly = kwonly or {}  # their keyword-only contextual defaults
        self.kw = kw or {}          # their other keyword arguments
        self.buf = buf
        self.post = post
        # BMP: the board whose connection carries the command when that is
        # not the `board` argument (set_power is documented to go through
        # board 0 whatever boards it switches)
        self.via_board = via_board
        # a second row for the same method (another form of its arguments)
        self.method = method
        # {datagram index: (x, y)}: datagrams addressed elsewhere than x, y
        self.chips = chips or {}
        # {address: bytes}: memory content this form needs
        self.mem = mem or {}


_SPECS = {}


def specs():
    if _SPECS:
        return _SPECS
    from rig.links import Links
    from rig.routing_table import RoutingTableEntry, Routes
    from rig.machine_control.consts import AppState
    st = structs()
    vcpu, sv = st[b"vcpu"], st[b"sv"]
    VS = vcpu.size
    A = 0x60000000
    entry = RoutingTableEntry({Routes.east}, 0x1, 0xff)
    targets = {(0, 0): {1}}

    def vaddr(i, field):
        # the i-th datagram accesses vcpu_base (0 in the model) + the core's
        # block + the field's offset
        off = vcpu[field].offset if field else 0
        return lambda sent, v: [(sent[i][1].arg1 == VS * v["p"] + off,
                                 "command-wrong-address",
                                 (sent[i][1].arg1, v["p"]))]

    def sig(i, number):
        # signal: arg2 = signal number << 16 | app mask 0xff << 8 | app_id
        return lambda sent, v: [
            (sand((sent[i][1].arg2 >> 16) == number,
                  ((sent[i][1].arg2 >> 8) & 0xff) == 0xff),
             "signal-wrong-kind", (sent[i][1].arg2,))]

    def both(*fs):
        return lambda sent, v: [it for f in fs for it in f(sent, v)]

    def mask(i):
        return lambda sent, v: [(sent[i][1].arg2 == (1 << v["board"]),
                                 "command-wrong-board-mask",
                                 (sent[i][1].arg2, v["board"]))]

    def undiscover(c):
        # forget what discover_connections learnt, so that later calls of
        # the path meet the controller as the first one did
        c._width = c._height = c._root_chip = None

    FF = (20, 20, 2, 23, 20)
    m = _SPECS[MC] = {
        "send_scp": Spec(args=(0,), kwonly={"x": REQ, "y": REQ, "p": REQ},
                         seq=(0,), cpu="p"),
        "get_software_version": Spec({"processor": 3}, seq=(0,), cpu=3),
        "get_ip_address": Spec(seq=(31,)),
        "write": Spec({"address": A, "data": b"\1\2\3\4"}, seq=(3,),
                      cpu="p"),
        "read": Spec({"address": A, "length_bytes": 4}, seq=(2,), cpu="p"),
        "write_across_link": Spec({"address": A, "data": b"\1\2\3\4",
                                   "link": Links.north}, seq=(18,)),
        "read_across_link": Spec({"address": A, "length_bytes": 4,
                                  "link": Links.north}, seq=(17,)),
        "read_struct_field": Spec({"struct_name": "sv",
                                   "field_name": "sdram_sys"}, seq=(2,),
                                  cpu="p"),
        "write_struct_field": Spec({"struct_name": "sv",
                                    "field_name": "random", "values": 5},
                                   seq=(3,), cpu="p"),
        "read_vcpu_struct_field": Spec({"field_name": "user0"}, seq=(2, 2),
                                       cores="MM",
                                       extra=vaddr(1, b"user0")),
        "write_vcpu_struct_field": Spec({"field_name": "user0", "value": 7},
                                        seq=(2, 3), cores="MM",
                                        extra=vaddr(1, b"user0")),
        "get_processor_status": Spec(seq=(2, 2), cores="MM",
                                     extra=vaddr(1, None)),
        "get_iobuf": Spec(seq=(2, 2, 2), cores="MMM",
                          extra=vaddr(2, b"iobuf")),
        "get_iobuf_bytes": Spec(seq=(2, 2, 2), cores="MMM",
                                extra=vaddr(2, b"iobuf")),
        "get_router_diagnostics": Spec(seq=(2,), cores="M"),
        "iptag_set": Spec({"iptag": 1, "addr": "127.0.0.1", "port": 50000},
                          seq=(26,)),
        "iptag_get": Spec({"iptag": 1}, seq=(26,)),
        "iptag_clear": Spec({"iptag": 1}, seq=(26,)),
        "set_led": Spec({"led": 1, "action": True}, seq=(25,)),
        "fill": Spec({"address": A, "data": 0, "size": 8}, seq=(5,),
                     cpu="p"),
        "sdram_alloc": Spec({"size": 16, "tag": 0, "clear": False},
                            seq=(28,), app=((0, 1, 8),)),
        "sdram_alloc_as_filelike": Spec({"size": 16, "tag": 0,
                                         "clear": False}, seq=(28,),
                                        app=((0, 1, 8),)),
        "sdram_free": Spec({"ptr": A + 0x100}, seq=(28,)),
        "flood_fill_aplx": Spec(args=("a.aplx", targets),
                                kwonly={"app_id": REQ}, kw={"wait": True},
                                seq=FF, x=255, y=255, app=((4, 2, 24),),
                                cores=(0, 0, "M", 0, 0)),
        "load_application": Spec(args=("a.aplx", targets),
                                 kwonly={"app_id": REQ}, seq=FF + (22, 22),
                                 x=255, y=255, cores=(0, 0, "M", 0, 0, 0, 0),
                                 app=((4, 2, 24), (5, 2, 0), (6, 2, 0)),
                                 extra=sig(6, 3)),
        "send_signal": Spec({"signal": "pause"}, seq=(22,), x=255, y=255,
                            app=((0, 2, 0),), extra=sig(0, 6)),
        "count_cores_in_state": Spec({"state": "wait"}, seq=(22,), x=255,
                                     y=255, app=((0, 2, 0),)),
        "wait_for_cores_to_reach_state": Spec(
            {"state": "wait", "count": 1, "poll_interval": 0.1,
             "timeout": None}, seq=(22,), x=255, y=255, app=((0, 2, 0),)),
        # -- other forms of the same methods: the resolved arguments are
        # handed on to further decorated methods
        "count_cores_in_state[iterable]": Spec(
            {"state": ("wait", AppState.run, "idle")},
            method="count_cores_in_state", seq=(22, 22, 22), x=255, y=255,
            app=((0, 2, 0), (1, 2, 0), (2, 2, 0))),
        "wait_for_cores_to_reach_state[iterable]": Spec(
            {"state": [AppState.wait, "run"], "count": 2,
             "poll_interval": 0.1, "timeout": None},
            method="wait_for_cores_to_reach_state", seq=(22, 22), x=255,
            y=255, app=((0, 2, 0), (1, 2, 0))),
        "load_application[use_count=False]": Spec(
            args=("a.aplx", {(2, 3): {1}}), kwonly={"app_id": REQ},
            kw={"use_count": False}, method="load_application",
            seq=FF + (2, 2, 22), x=255, y=255,
            chips={5: (2, 3), 6: (2, 3)},
            cores=(0, 0, "M", 0, 0, "M", "M", 0),
            app=((4, 2, 24), (7, 2, 0)), extra=sig(7, 3),
            # core 1 waits: vcpu_base (0) + its block + cpu_state
            mem={VS * 1 + vcpu[b"cpu_state"].offset: b"\x05"}),
        "sdram_alloc[clear]": Spec({"size": 16, "tag": 0, "clear": True},
                                   method="sdram_alloc", seq=(28, 5),
                                   app=((0, 1, 8),)),
        "fill[unaligned]": Spec({"address": A + 1, "data": 7, "size": 3},
                                method="fill", seq=(3,), cpu="p"),
        "set_led[iterable]": Spec({"led": (0, 2), "action": None},
                                  method="set_led", seq=(25,)),
        "load_routing_tables": Spec({"routing_tables": {(1, 2): [entry]}},
                                    seq=(28, 2, 3, 29), x=1, y=2,
                                    cores=(0, "M", "M", 0),
                                    app=((0, 1, 8), (3, 1, 8))),
        "load_routing_table_entries": Spec({"entries": [entry]},
                                           seq=(28, 2, 3, 29),
                                           cores=(0, "M", "M", 0),
                                           app=((0, 1, 8), (3, 1, 8))),
        "get_routing_table_entries": Spec(seq=(2, 2), cores="MM",
                                          buf=0x4000),
        "clear_routing_table_entries": Spec(seq=(28,), app=((0, 1, 8),)),
        "get_p2p_routing_table": Spec(seq=(2, 2), cores="MM"),
        "get_chip_info": Spec(seq=(31,)),
        "get_working_links": Spec(seq=(31,)),
        "get_num_working_cores": Spec(seq=(2,), cores="M"),
        "get_system_info": Spec(seq=(2, 2, 31), xy=(0, 1),
                                cores=("M", "M", 0)),
        "discover_connections": Spec(seq=(2, 2, 0, 31), xy=(0, 1),
                                     cores=("M", "M", 0, 0),
                                     post=undiscover),
    }
    assert sv[b"random"].length == 1 and vcpu[b"user0"].length == 1
    _SPECS[BMP] = {
        "send_scp": Spec(args=(0,), kwonly={"cabinet": REQ, "frame": REQ,
                                            "board": REQ},
                         seq=(0,), cpu="board", x=0, y=0),
        "get_software_version": Spec(seq=(0,), cpu="board", x=0, y=0),
        "set_power": Spec({"state": False, "delay": 0.0,
                           "post_power_on_delay": 0.0}, seq=(57,), cpu=0,
                          x=0, y=0, extra=mask(0), via_board=0),
        "set_led": Spec({"led": 1, "action": True}, seq=(25,), cpu="board",
                        x=0, y=0, extra=mask(0)),
        "read_fpga_reg": Spec({"fpga_num": 1, "addr": 0x40}, seq=(17,),
                              cpu="board", x=0, y=0),
        "write_fpga_reg": Spec({"fpga_num": 1, "addr": 0x40, "value": 5},
                               seq=(18,), cpu="board", x=0, y=0),
        "read_adc": Spec(seq=(48,), cpu="board", x=0, y=0),
    }
    del m
    return _SPECS


class Plan(object):
    """How to call one method: parameter order, which parameters are
    contextual, their declared defaults."""

    def __init__(self, cls, name):
        import rig.machine_control as rmc
        from rig.utils.contexts import Required
        self.cls, self.name = cls, name
        self.spec = spec = specs()[cls][name]
        self.method = spec.method or name
        fn = getattr(getattr(rmc, cls), self.method)
        self.params = []            # (name, default) positional-or-keyword
        self.varargs = False
        for p in list(inspect.signature(fn).parameters.values())[1:]:
            if p.kind == p.VAR_POSITIONAL:
                self.varargs = True
            elif p.kind == p.POSITIONAL_OR_KEYWORD:
                d = p.default
                if d is p.empty or d is Required:
                    d = REQ
                self.params.append((p.name, d))
        names = CTXNAMES[cls]
        self.index = {}
        self.default = {}
        self.cargs = []
        for i, (n, d) in enumerate(self.params):
            if n in names:
                self.cargs.append(n)
                self.index[n] = i
                self.default[n] = d
        for n, d in spec.kwonly.items():
            self.cargs.append(n)
            self.index[n] = None
            self.default[n] = d
        # positional prefix lengths that can be called
        lead = 0
        for n, d in self.params:
            if n in names or d is not REQ:
                break
            lead += 1
        top = len(self.params)
        for i, (n, d) in enumerate(self.params):
            if n not in names and n not in spec.vals:
                top = i
                break
        self.lead = lead
        self.npos = list(range(lead, top + 1))
        first = [i for i, (n, d) in enumerate(self.params) if n in names]
        self.probe_npos = min(first[0] if first else top, top)

    def build(self, npos, explicit):
        spec = self.spec
        pos, kw = list(spec.args), dict(spec.kw)
        for i, (n, d) in enumerate(self.params):
            if n in self.index:
                if n in explicit:
                    if i < npos:
                        pos.append(explicit[n])
                    else:
                        kw[n] = explicit[n]
                else:
                    assert i >= npos, (self.name, n, npos)
            elif n in spec.vals:
                if i < npos:
                    pos.append(spec.vals[n])
                else:
                    kw[n] = spec.vals[n]
            else:
                assert i >= npos
        for n in spec.kwonly:
            if n in explicit:
                kw[n] = explicit[n]
        return pos, kw


_PLANS = {}


def plan(cls, name):
    k = (cls, name)
    if k not in _PLANS:
        _PLANS[k] = Plan(cls, name)
    return _PLANS[k]


# ----------------------------------------------------------------------
# proving
# ----------------------------------------------------------------------
def prove_all(ctx, items, prefix=""):
    """All (cond, label, detail) items hold; one solver query when they do,
    one per item (to name the culprit) when they do not."""
    if not items:
        return True
    conj = sand(*[c for c, _, _ in items])
    if ctx.symbolic and is_sym(conj) and len(items) > 1:
        if not ctx.reachable(snot(conj)):
            return ctx.prove(True, prefix + items[0][1])
    ok = True
    for c, label, detail in items:
        ok = ctx.prove(c, prefix + label, detail) and ok
    return ok


def sym(ctx, arg, place):
    v = ctx.bv("%s_%s" % (arg, place), BITS[arg])
    if arg in MAXV:
        ctx.assume(v <= MAXV[arg])
    return v


def bmp_connection_items(tag, v, hosts, via_board=None):
    """The datagram went out on the most specific connection registered for
    (cabinet, frame, board); tag None: no datagram, AssertionError."""
    probe = (v["cabinet"], v["frame"],
             v["board"] if via_board is None else via_board)

    def eq(k):
        return sand(*[a == b for a, b in zip(k, probe)])
    keys = list(hosts)
    if tag is None:
        c = snot(sor(False, *[eq(k) for k in keys]))
    else:
        key = [k for k in keys if hosts[k] == tag]
        if not key:
            return [(False, "command-wrong-connection", (tag, probe))]
        key = key[0]
        c = eq(key)
        if len(key) == 2:
            c = sand(c, snot(sor(False, *[eq(k) for k in keys
                                          if len(k) == 3])))
    return [(c, "command-wrong-connection", (tag, probe))]


class Scenario(object):
    """One controller, three nested blocks, the calls made in and after them
    and the model of what must be in force."""

    def __init__(self, ctx, env, ctl, pl, init, hosts=None):
        self.ctx, self.env, self.ctl, self.pl = ctx, env, ctl, pl
        self.init = init
        self.hosts = hosts
        self.levels = {1: {}, 2: {}, 3: {}}
        self.explicit = {}

    def resolved(self, explicit, active):
        out = {}
        for a in self.pl.cargs:
            if a in explicit:
                out[a] = explicit[a]
                continue
            for lv in reversed(tuple(active)):
                if a in self.levels[lv]:
                    out[a] = self.levels[lv][a]
                    break
            else:
                out[a] = self.init[a] if a in self.init \
                    else self.pl.default[a]
        return out

    def in_force(self, a, active):
        """Value of argument `a` set by the blocks / initial context."""
        for lv in reversed(tuple(active)):
            if a in self.levels[lv]:
                return self.levels[lv][a]
        return self.init.get(a)

    def call(self, npos, explicit, active, prefix=""):
        ctx, pl, env, spec = self.ctx, self.pl, self.env, self.pl.spec
        pos, kw = pl.build(npos, explicit)
        mark = len(env.wire)
        outcome, err = "ok", None
        try:
            r = getattr(self.ctl, pl.method)(*pos, **kw)
            res = type(r).__name__
        except TypeError as e:
            outcome, err, res = "TypeError", repr(e), None
        except Exception as e:
            outcome, err, res = type(e).__name__, repr(e), None
        if spec.post is not None:
            spec.post(self.ctl)
        sent = env.wire[mark:]
        first = sent[0] if sent else (None, None)
        ctx.observe(prefix + pl.name, outcome, res, len(sent), first[0],
                    (first[1].dest_x, first[1].dest_y, first[1].dest_cpu,
                     first[1].cmd) if sent else None)
        v = self.resolved(explicit, active)
        missing = [a for a in pl.cargs if v[a] is REQ]
        if missing:
            ctx.witness("rejected")
            ctx.prove(outcome == "TypeError",
                      prefix + "required-argument-missing-not-rejected",
                      (pl.name, missing, outcome, err))
            ctx.prove(not sent,
                      prefix + "required-argument-missing-but-sent",
                      (pl.name, missing, len(sent)))
            return
        if pl.cls == BMP and outcome == "AssertionError":
            ctx.witness("no-connection")
            ctx.prove(not sent, prefix + "rejected-but-sent", pl.name)
            prove_all(ctx, bmp_connection_items(None, v, self.hosts,
                                                spec.via_board), prefix)
            return
        if not ctx.prove(outcome == "ok", prefix + "call-failed",
                         (pl.name, outcome, err)):
            return
        ctx.witness("sent")
        cmds = tuple(int(q.cmd) for _, q in sent)
        if not ctx.prove(cmds == spec.seq, prefix + "command-sequence",
                         (pl.name, cmds, spec.seq)):
            return
        items, leak = [], []
        x = v[spec.x] if isinstance(spec.x, str) else spec.x
        y = v[spec.y] if isinstance(spec.y, str) else spec.y
        which = range(len(sent)) if spec.xy == "all" else spec.xy
        for i in which:
            q = sent[i][1]
            cx, cy = spec.chips.get(i, (x, y))
            items.append((sand(q.dest_x == cx, q.dest_y == cy),
                          "command-wrong-chip",
                          (pl.name, i, (q.dest_x, q.dest_y), (cx, cy))))
        ctxp = self.in_force("p", active)
        for i, (_, q) in enumerate(sent):
            c = spec.cores[i]
            if c == "M":
                # the monitor; rig lets a `p` that is in force in a context
                # (never an explicit one) reach these commands: reported
                # under its own signature, and nothing else is tolerated
                if ctxp is None:
                    items.append((q.dest_cpu == 0, "command-wrong-core",
                                  (pl.name, i, q.dest_cpu, 0)))
                else:
                    items.append((sor(q.dest_cpu == 0, q.dest_cpu == ctxp),
                                  "command-wrong-core",
                                  (pl.name, i, q.dest_cpu, (0, ctxp))))
                    leak.append((q.dest_cpu == 0, KNOWN_LEAK,
                                 (pl.name, i, q.dest_cpu, ctxp)))
            else:
                cpu = v[c] if isinstance(c, str) else c
                items.append((q.dest_cpu == cpu, "command-wrong-core",
                              (pl.name, i, q.dest_cpu, cpu)))
        for i, argno, shift in spec.app:
            field = (getattr(sent[i][1], "arg%d" % argno) >> shift) & 0xff
            items.append((field == v["app_id"], "command-wrong-app-id",
                          (pl.name, i, field, v["app_id"])))
        if spec.extra is not None:
            items.extend(spec.extra(sent, v))
        if pl.cls == BMP:
            tags = set(t for t, _ in sent)
            items.append((len(tags) == 1, "command-wrong-connection",
                          sorted(tags)))
            items.extend(bmp_connection_items(sent[0][0], v, self.hosts,
                                              spec.via_board))
        else:
            # machine size unknown: the initial connection
            items.append((all(t == "initial" for t, _ in sent),
                          "command-wrong-connection",
                          [t for t, _ in sent]))
        prove_all(ctx, items, prefix)
        prove_all(ctx, leak)

    def run(self, npos, em, probe_after):
        """with L1: with L2: with L3: call; exit mode em: 0 normal, k: an
        exception raised after the call and caught outside level 4 - k.
        probe_after: levels after whose exit a probe call (no explicit
        argument) is made; 0: before entering any block."""
        ctl, pl = self.ctl, self.pl
        catch = (4 - em) if em else None

        def probe(active, where):
            self.call(pl.probe_npos, {}, active, prefix="after-block-")

        if 0 in probe_after:
            self.call(pl.probe_npos, {}, (), prefix="before-block-")

        def enter(lv):
            if lv == 4:
                self.call(npos, self.explicit, (1, 2, 3))
                if em:
                    raise Boom()
                return
            if catch == lv:
                try:
                    with ctl(**self.levels[lv]):
                        enter(lv + 1)
                except Boom:
                    self.ctx.witness("left-by-exception")
            else:
                with ctl(**self.levels[lv]):
                    enter(lv + 1)
            if lv in probe_after:
                probe(tuple(range(1, lv)), lv)
        enter(1)


def scenario(ctx, cls, name, npos, sources, em, init_mode="default",
             probe_after=(1,), hosts_i=0, ambient=0, dflt=False):
    """sources: {argument: (None | 'kw' | 'pos', levels)}; ambient: level of
    a block that also sets the contextual arguments the method does NOT
    take (they must not matter), 0: none."""
    pl = plan(cls, name)
    explicit, levels = {}, {1: {}, 2: {}, 3: {}}
    for a in pl.cargs:
        E, C = sources[a]
        if E:
            explicit[a] = sym(ctx, a, "arg")
            if dflt and pl.default[a] is not REQ and \
                    pl.default[a] is not None:
                # the caller names the very value the signature defaults to
                explicit[a] = pl.default[a]
                ctx.witness("explicit-default")
        for lv in C:
            levels[lv][a] = sym(ctx, a, "c%d" % lv)
    if ambient:
        for a in CTXNAMES[cls]:
            if a not in pl.cargs:
                levels[ambient][a] = sym(ctx, a, "amb")
    if init_mode == "default":
        init, model_init = None, INIT[cls]
    elif init_mode == "empty":
        init = model_init = {}
    else:
        init = model_init = {a: sym(ctx, a, "init") for a in CTXNAMES[cls]}
    hosts = BMP_HOSTS[hosts_i] if cls == BMP else None
    with Env(ctx, buf=pl.spec.buf) as env:
        ctl = env.controller(cls, init, hosts)
        env.machine.mem.update(pl.spec.mem)
        s = Scenario(ctx, env, ctl, pl, model_init, hosts)
        s.levels, s.explicit = levels, explicit
        s.run(npos, em, probe_after)
        # nothing is left on the stack
        ctx.prove(len(ctl._ContextMixin__context_stack) == 1,
                  "context-stack-not-unwound")


# ----------------------------------------------------------------------
# harnesses
# ----------------------------------------------------------------------
@stoppable
def h_wiring(ctx, cls, names, strides=(4,)):
    """Every method: each contextual argument, supplied in each way, reaches
    its field of the datagram(s)."""
    name = ctx.pick(names)
    pl = plan(cls, name)
    npos = ctx.pick(pl.npos)
    stride = ctx.pick(strides)
    r = ctx.choose(R)
    sources = {}
    for i, a in enumerate(pl.cargs):
        E, C = MENU[(r + stride * i) % R]
        if pl.index[a] is not None and pl.index[a] < npos:
            E = "pos"
        sources[a] = (E, C)
    em = (r + npos) % 4
    scenario(ctx, cls, name, npos, sources, em, hosts_i=r % len(BMP_HOSTS),
             probe_after=(1,) if cls == MC else (),
             ambient=(0, 1, 0, 3, 0, 2)[r % 6],
             init_mode=("default", "empty", "default", "sym")[r % 4])


@stoppable
def h_explicit_default(ctx, cls, names):
    """An argument given explicitly with the very value (the same object)
    its signature defaults to is still an explicit argument: the enclosing
    blocks, which set it to something else, must not win."""
    name = ctx.pick(names)
    pl = plan(cls, name)
    if not any(pl.default[a] is not REQ and pl.default[a] is not None
               for a in pl.cargs):
        ctx.observe("no defaulted contextual argument")
        return
    npos = ctx.pick(pl.npos)
    C = ctx.pick(((1,), (1, 2, 3)))
    sources = {}
    for a in pl.cargs:
        E = "pos" if (pl.index[a] is not None and
                      pl.index[a] < npos) else "kw"
        sources[a] = (E, C)
    scenario(ctx, cls, name, npos, sources, 0, probe_after=(),
             dflt=True)


def _free_sources(ctx, pl, free, npos, explicit_ways):
    sources = {}
    for a in pl.cargs:
        if a not in free:
            sources[a] = ("pos" if (pl.index[a] is not None and
                                    pl.index[a] < npos) else "kw", ())
            continue
        if pl.index[a] is not None and pl.index[a] < npos:
            E = "pos"
        else:
            E = ctx.pick(explicit_ways)
        sources[a] = (E, ctx.pick(SUBSETS))
    return sources


@stoppable
def h_sources(ctx, cls, name, free, probes=(0, 1, 2, 3), hosts_i=0):
    """Full product of the ways of supplying the `free` arguments of one
    method; probes after the levels listed."""
    pl = plan(cls, name)
    npos = ctx.pick(pl.npos)
    sources = _free_sources(ctx, pl, free, npos, (None, "kw"))
    scenario(ctx, cls, name, npos, sources, 0, probe_after=probes,
             hosts_i=hosts_i)


@stoppable
def h_history(ctx, cls, name, free, probes=(0, 1, 2, 3), hosts_i=0):
    """Nestings x exit paths x initial contexts, arguments from the blocks
    only; probes before the blocks and after the levels listed."""
    pl = plan(cls, name)
    npos = pl.lead
    em = ctx.choose(4)
    init_mode = ctx.pick(("default", "sym", "empty"))
    sources = _free_sources(ctx, pl, free, npos, (None,))
    scenario(ctx, cls, name, npos, sources, em, init_mode=init_mode,
             probe_after=probes, hosts_i=hosts_i)


@stoppable
def h_application(ctx):
    """`with mc.application(a)`: a is in force inside, the stop signal for
    exactly a is sent on the way out (normal or exceptional), the enclosing
    app is back in force afterwards."""
    outer = ctx.pick(("none", "ctx", "app"))
    way = ctx.pick(("pos", "kw", "ctx"))
    inner = ctx.pick(("none", "ctx", "app"))
    exits = ["normal", "exc-body"] + (["exc-inner"] if inner != "none"
                                      else [])
    how = ctx.pick(exits)
    # the caller's own clean-up functions registered on the block's context
    # (before_close) next to the stop the block registers itself
    extra = ctx.pick((0, 1, 2))
    ran = []
    a0, a1, a2 = (sym(ctx, "app_id", "outer"), sym(ctx, "app_id", "app"),
                  sym(ctx, "app_id", "inner"))
    STOP, START = 2, 3          # AppSignal numbers (consts.AppSignal docs)
    expected = []               # (signal number, app) in sending order
    with Env(ctx) as env:
        mc = env.controller(MC)
        # what an explicit stop of a1 looks like
        mc.send_signal("stop", a1)
        ref = env.wire[-1][1]
        mark = len(env.wire)

        def probe(app):
            mc.send_signal("start")
            expected.append((START, app))

        encl = 66
        outcome = "ok"
        try:
            def middle():
                probe(encl if outer == "none" else a0)
                eff = a1 if way != "ctx" else (encl if outer == "none"
                                               else a0)
                cm = (mc.application(a1) if way == "pos" else
                      mc.application(app_id=a1) if way == "kw" else
                      mc.application())
                if extra >= 1:
                    cm.before_close(lambda: ran.append("f"))
                if extra == 2:
                    cm.before_close(lambda: ran.append("g"),
                                    lambda: ran.append("h"))
                    ctx.witness("own clean-up functions")
                try:
                    with cm:
                        probe(eff)
                        if inner == "ctx":
                            with mc(app_id=a2):
                                probe(a2)
                                if how == "exc-inner":
                                    raise Boom()
                        elif inner == "app":
                            try:
                                with mc.application(a2):
                                    probe(a2)
                                    if how == "exc-inner":
                                        raise Boom()
                            finally:
                                expected.append((STOP, a2))
                        probe(eff)
                        if how == "exc-body":
                            raise Boom()
                except Boom:
                    ctx.witness("left-by-exception")
                finally:
                    expected.append((STOP, eff))
                probe(encl if outer == "none" else a0)
            if outer == "none":
                middle()
            elif outer == "ctx":
                with mc(app_id=a0):
                    middle()
            else:
                with mc.application(a0):
                    middle()
                expected.append((STOP, a0))
            probe(encl)
        except Exception as e:
            outcome = type(e).__name__ + ": " + str(e)[:200]
        sent = env.wire[mark:]
        ctx.observe(outcome, len(sent),
                    [(q.arg2, t) for t, q in sent], list(ran))
        if not ctx.prove(outcome == "ok", "call-failed", outcome):
            return
        ctx.witness("application-left")
        ctx.prove(ran == ["f", "g", "h"][:(0, 1, 3)[extra]],
                  "before-close-functions-not-each-called-once", list(ran))
        if not ctx.prove(len(sent) == len(expected),
                         "application-stop-signal-count",
                         (len(sent), [e[0] for e in expected])):
            return
        items = []
        for (t, q), (number, app) in zip(sent, expected):
            items.append((sand(q.dest_x == 255, q.dest_y == 255,
                               q.dest_cpu == 0, q.cmd == 22, t == "initial"),
                          "signal-not-broadcast", None))
            label = ("application-stop-signal-wrong-app" if number == STOP
                     else "command-wrong-app-id")
            items.append((sand((q.arg2 & 0xff) == app), label,
                          (number, q.arg2, app)))
            items.append((sand((q.arg2 >> 16) == number,
                               ((q.arg2 >> 8) & 0xff) == 0xff,
                               q.arg3 == 0xffff),
                          "application-stop-signal-malformed",
                          (number, q.arg2, q.arg3)))
            if number == STOP:
                # identical to an explicit send_signal("stop", app) but for
                # the app id
                items.append((sand(q.arg1 == ref.arg1, q.arg3 == ref.arg3,
                                   (q.arg2 >> 8) == (ref.arg2 >> 8)),
                              "application-stop-signal-malformed",
                              (q.arg1, q.arg2, ref.arg1, ref.arg2)))
        prove_all(ctx, items)
        ctx.prove(len(mc._ContextMixin__context_stack) == 1,
                  "context-stack-not-unwound")


def eth_chips(w, h, rx, ry):
    """Ethernet chips of a w x h machine of whole 12 x 12 cells."""
    from harness.c19 import ETH
    return sorted(set(((rx + ex + 12 * i) % w, (ry + ey + 12 * j) % h)
                      for ex, ey in ETH for i in range(w // 12)
                      for j in range(h // 12)))


@stoppable
def h_conn_mc(ctx, row, dims, root, methods, menus):
    """The connection of the board holding (x, y), else the initial one."""
    from harness.c19 import board_of
    w, h = dims
    rx, ry = root
    every = eth_chips(w, h, rx, ry)
    rootb = (rx % w, ry % h)
    menu = ctx.pick(menus)
    known = True
    if menu == "none":
        keys = []
    elif menu == "all":
        keys = list(every)
    elif menu == "root":
        keys = [rootb]
    elif menu == "not-root":
        keys = [k for k in every if k != rootb]
    elif menu == "other":
        keys = [k for k in every if k != rootb][-1:]
    else:
        keys, known = list(every), False
    name = ctx.pick(methods)
    # x, y by keyword or from a block (alternating with the method)
    way = ("ctx", "kw")[methods.index(name) % 2]
    # mathematical integers: the board geometry is arithmetic modulo 12
    x, y = ctx.int("x", 0, w - 1), ctx.int("y", 0, h - 1)
    ctx.assume((y - ry) % 12 == row)
    with Env(ctx) as env:
        from rig.machine_control.scp_connection import SCPConnection
        mc = env.controller(MC)
        for k in keys:
            mc.connections[k] = SCPConnection("eth-%d-%d" % k)
        if known:
            mc._width, mc._height, mc._root_chip = w, h, (rx, ry)
        else:
            mc._root_chip = (rx, ry)
        outcome, tags, nsent = _conn_call(ctx, env, mc, name, way, x, y)
        ctx.observe(name, outcome, nsent, tags)
        if not ctx.prove(outcome == "ok" and len(tags) == 1, "call-failed",
                         (name, outcome, tags)):
            return
        tag = tags[0]
        items = []
        bx, by = board_of(x, y, rx, ry)
        ex, ey = bx % w, by % h
        detail = (tag, (x, y), (ex, ey), keys, known)
        if not known:
            ctx.witness("size-unknown")
            items.append((tag == "initial", "command-wrong-connection",
                          detail))
        elif tag == "initial":
            ctx.witness("fallback")
            items.append((snot(sor(False, *[sand(ex == kx, ey == ky)
                                            for kx, ky in keys])),
                          "command-wrong-connection", detail))
        else:
            ctx.witness("local-board")
            key = [k for k in keys if "eth-%d-%d" % k == tag]
            items.append((sand(ex == key[0][0], ey == key[0][1])
                          if key else False,
                          "command-wrong-connection", detail))
        prove_all(ctx, items)


def _conn_call(ctx, env, mc, name, way, x, y):
    """One command to chip (x, y); returns (outcome, tags of its
    datagrams)."""
    pl = plan(MC, name)
    explicit = {"x": x, "y": y}
    for a in pl.cargs:
        if a not in explicit:
            explicit[a] = 1
    mark = len(env.wire)
    outcome = "ok"
    try:
        if way == "kw":
            pos, kw = pl.build(pl.lead, explicit)
            getattr(mc, name)(*pos, **kw)
        else:
            rest = {a: v for a, v in explicit.items() if a not in ("x", "y")}
            pos, kw = pl.build(pl.lead, rest)
            with mc(x=x, y=y):
                getattr(mc, name)(*pos, **kw)
    except Exception as e:
        # numpy turns anything raised by __index__ (the table lookup of
        # rig.geometry) into IndexError, the engine's control flow
        # included: let a pending stop / timeout through
        from sx import engine as _E
        _E._poll_alarm()
        outcome = type(e).__name__ + ": " + str(e)[:200]
    sent = env.wire[mark:]
    return outcome, sorted(set(t for t, _ in sent)), len(sent)


def _conn_items(tag, ex, ey, cur, detail):
    """`tag` is the socket for Ethernet chip (ex, ey) among the connections
    registered NOW (cur: {chip: tag}), else the initial one."""
    if tag == "initial":
        return [(snot(sor(False, *[sand(ex == kx, ey == ky)
                                   for kx, ky in cur])),
                 "command-wrong-connection", detail)]
    key = [k for k in cur if cur[k] == tag]
    return [(sand(ex == key[0][0], ey == key[0][1]) if key else False,
             "command-wrong-connection", detail)]


@stoppable
def h_conn_history(ctx, row, dims, root):
    """The connection is chosen among those known AT THE TIME of sending:
    commands to the same symbolic chip before and after a connection for a
    board is registered (by assignment into mc.connections, as
    discover_connections does), replaced, removed."""
    from harness.c19 import board_of
    w, h = dims
    rx, ry = root
    every = eth_chips(w, h, rx, ry)
    rootb = (rx % w, ry % h)
    # the board whose connection comes and goes: the root board (nothing
    # else registered) or one of its two neighbours in the triad (every
    # other board registered); between them they have chips in every row
    k = ctx.pick((rootb, ((rx + 4) % w, (ry + 8) % h),
                  ((rx + 8) % w, (ry + 4) % h)))
    base = [] if k == rootb else [c for c in every if c != k]
    script = ctx.pick((("call", "add", "call", "replace", "call", "remove",
                        "call"),
                       ("add", "call", "remove", "call", "add", "call")))
    name, way = (("get_chip_info", "ctx") if script[0] == "call"
                 else ("read", "kw"))
    x, y = ctx.int("x", 0, w - 1), ctx.int("y", 0, h - 1)
    ctx.assume((y - ry) % 12 == row)
    bx, by = board_of(x, y, rx, ry)
    ex, ey = bx % w, by % h
    with Env(ctx) as env:
        from rig.machine_control.scp_connection import SCPConnection
        mc = env.controller(MC)
        cur = {}
        gen = [0]

        def register(chip):
            gen[0] += 1
            cur[chip] = "eth-%d-%d#%d" % (chip + (gen[0],))
            mc.connections[chip] = SCPConnection(cur[chip])
        for b in base:
            register(b)
        mc._width, mc._height, mc._root_chip = w, h, (rx, ry)
        for n, step in enumerate(script):
            if step in ("add", "replace"):
                register(k)
            elif step == "remove":
                mc.connections.pop(k).close()
                del cur[k]
            else:
                outcome, tags, nsent = _conn_call(ctx, env, mc, name, way,
                                                  x, y)
                ctx.observe(n, name, outcome, nsent, tags)
                if not ctx.prove(outcome == "ok" and len(tags) == 1,
                                 "call-failed", (name, outcome, tags)):
                    return
                ctx.witness("fallback" if tags[0] == "initial"
                            else "local-board")
                if n > 0 and k in cur and tags[0] == cur[k]:
                    ctx.witness("switched-to-new-connection")
                prove_all(ctx, _conn_items(
                    tags[0], ex, ey, cur,
                    (n, script[:n], tags[0], (x, y), (ex, ey), dict(cur))))


@stoppable
def h_discover(ctx, rows, faults=False):
    """The real discover_connections() against a 12 x 12 machine of three
    boards whose Ethernet chips (0,0), (4,8), (8,4) answer with their IP
    address; afterwards a command to a symbolic chip travels over the
    connection discovered for its board."""
    from harness.c19 import board_of, ETH
    w = h = 12
    times = ctx.pick((1, 2))
    name = ctx.pick(("get_chip_info", "read"))
    way = "ctx" if name == "read" else "kw"
    x, y = ctx.int("x", 0, w - 1), ctx.int("y", rows[0], rows[-1])
    bx, by = board_of(x, y, 0, 0)
    ex, ey = bx % w, by % h
    with Env(ctx) as env:
        mc = env.controller(MC)
        sv = structs()[b"sv"]
        env.machine.mem[sv.base + sv[b"p2p_dims"].offset] = b"\x0c\x0c"
        env.machine.eth = {k: "10.0.%d.%d" % k for k in ETH}
        ip = dict(env.machine.eth)
        bad = None
        if faults:
            # one of the two other boards does not tell its address, or its
            # new connection does not answer the trial command: it is left
            # out (and its chips are reached over the initial connection)
            bad = ctx.pick([(4, 8), (8, 4)])
            if ctx.choose(2):
                env.machine.no_ip.add(bad)
            else:
                env.machine.mute.add(bad)
            del ip[bad]
            ctx.witness("board-left-out")
        mark = len(env.wire)
        outcome, found = "ok", []
        try:
            for _ in range(times):
                found.append(mc.discover_connections())
        except Exception as e:
            outcome = type(e).__name__ + ": " + str(e)[:200]
        keys = sorted((k for k in mc.connections if k is not None))
        ctx.observe(outcome, found, keys, mc._width, mc._height)
        # (the refusals concern the discovery only)
        env.machine.mute.clear()
        env.machine.no_ip.clear()
        if not ctx.prove(outcome == "ok", "call-failed", outcome):
            return
        ctx.prove(found == [len(ip), 0][:times] and keys == sorted(ip) and
                  (mc._width, mc._height) == (w, h),
                  "discovery-wrong-result", (found, keys))
        # the trial command on each new connection goes over that connection
        trials = [(t, (int(q.dest_x), int(q.dest_y)))
                  for t, q in env.wire[mark:] if int(q.cmd) == 0 and
                  (int(q.dest_x), int(q.dest_y)) in ip]
        if not faults:
            ctx.prove(len(trials) == 3 and all(t == ip[c] for t, c in trials),
                      "discovery-trial-not-over-new-connection", trials)
        else:
            ctx.prove(all(t == ip[c] for t, c in trials),
                      "discovery-trial-not-over-new-connection", trials)
        outcome, tags, nsent = _conn_call(ctx, env, mc, name, way, x, y)
        ctx.observe(name, outcome, nsent, tags)
        if not ctx.prove(outcome == "ok" and len(tags) == 1, "call-failed",
                         (name, outcome, tags)):
            return
        ctx.witness("local-board")
        cur = {c: t for c, t in ip.items()}
        prove_all(ctx, _conn_items(
            "initial" if tags[0] not in cur.values() else tags[0], ex, ey,
            cur, (tags[0], (x, y), (ex, ey), times, bad)))


# saved context objects entered more than once: (object, blocks inside it,
# raise Boom at the end of its body, catch Boom outside it).  "a", "b" are
# created once and re-used; "c" is a fresh context at every entry.
REENTRY = {
    "a-c-a": [("a", [("c", [("a", [], 0, 0)], 0, 0)], 0, 0)],
    "a-c-a, innermost left by exception":
        [("a", [("c", [("a", [], 1, 1)], 0, 0)], 0, 0)],
    "a-c-a, exception through a and c":
        [("a", [("c", [("a", [], 1, 0)], 0, 1)], 0, 0)],
    "a, then a again": [("a", [], 0, 0), ("a", [("c", [], 0, 0)], 0, 0)],
    "a-b-a-b": [("a", [("b", [("a", [("b", [], 0, 0)], 0, 0)], 0, 0)], 0,
                 0)],
    "a-b-a-b, exception through b, a, b":
        [("a", [("b", [("a", [("b", [], 1, 0)], 0, 0)], 0, 1)], 0, 0)],
    "a-a-c": [("a", [("a", [("c", [], 0, 0)], 0, 0), ("c", [], 0, 0)], 0,
               0)],
    "c-a-c-a-b-a": [("c", [("a", [("c", [("a", [("b", [("a", [], 0, 0)], 0,
                                                  0)], 0, 0)], 0, 0)], 0,
                            0)], 0, 0)],
}


@stoppable
def h_reentry(ctx, cls, name, sets, app, subsets=None):
    """Saved context objects re-entered while active / after being left /
    interleaved; a probe after every enter and every exit is held against a
    plain stack (enter pushes the object's arguments, exit pops the top).
    `sets`: the arguments the objects set; `app`: a, b are application()
    blocks (their exits also send stop for their own app)."""
    script = REENTRY[ctx.pick(sorted(REENTRY))]
    pl = plan(cls, name)
    # `subsets`: the saved objects set different arguments each (an object
    # made up front must add to whatever encloses it WHEN IT IS ENTERED)
    levels = {o: {a: sym(ctx, a, o) for a in (
        sets if subsets is None else subsets[o])} for o in "abc"}
    with Env(ctx) as env:
        ctl = env.controller(cls, None, BMP_HOSTS[0])
        s = Scenario(ctx, env, ctl, pl, INIT[cls], BMP_HOSTS[0])
        s.levels = levels
        if app:
            saved = {o: ctl.application(levels[o]["app_id"]) for o in "ab"}
        else:
            saved = {o: ctl(**levels[o]) for o in "ab"}
        model, stops = [], []
        mark = len(env.wire)

        def probe(what):
            s.call(pl.probe_npos, {}, tuple(model), prefix="re-entry-")

        def block(o, children, raise_here, catch_here):
            cm = saved[o] if o in saved else ctl(**levels[o])
            if o in saved and o in model:
                ctx.witness("re-entered")
            try:
                try:
                    with cm:
                        model.append(o)
                        probe("entered")
                        for ch in children:
                            block(*ch)
                        if raise_here:
                            raise Boom()
                finally:
                    # plain stack: leaving pops the top, whatever it is
                    model.pop()
                    if app and o in saved:
                        stops.append(levels[o]["app_id"])
            except Boom:
                if not catch_here:
                    raise
                ctx.witness("left-by-exception")
            probe("left")

        outcome = "ok"
        try:
            probe("start")
            for b in script:
                block(*b)
        except Exception as e:
            outcome = type(e).__name__ + ": " + str(e)[:200]
        ctx.observe(outcome)
        if not ctx.prove(outcome == "ok", "call-failed", outcome):
            return
        ctx.prove(len(ctl._ContextMixin__context_stack) == 1,
                  "context-stack-not-unwound")
        if app:
            # stop signals (signal number 2; the probes send "pause" = 6)
            got = [q for _, q in env.wire[mark:]
                   if int(q.cmd) == 22 and int(q.arg2 >> 16) == 2]
            if ctx.prove(len(got) == len(stops),
                         "application-stop-signal-count",
                         (len(got), len(stops))):
                prove_all(ctx, [((q.arg2 & 0xff) == a,
                                 "application-stop-signal-wrong-app",
                                 (i, q.arg2, a))
                                for i, (q, a) in enumerate(zip(got, stops))])


@stoppable
def h_bmp_boards(ctx):
    """BMP set_led / set_power with an iterable of boards, given explicitly
    or by a block: the bit mask names every board, and set_led is sent to
    (and over the connection of) the FIRST board named."""
    hosts = BMP_HOSTS[ctx.choose(len(BMP_HOSTS))]
    b1 = sym(ctx, "board", "first")
    b2 = sym(ctx, "board", "second")
    b3 = sym(ctx, "board", "third")
    ctx.assume(sand(b1 != b2, b1 != b3, b2 != b3))
    how = ctx.pick(["keyword", "block"])
    with Env(ctx) as env:
        bc = env.controller(BMP, None, hosts)
        mark = len(env.wire)
        outcome = "ok"
        try:
            if how == "keyword":
                bc.set_led(1, True, board=(b1, b2, b3))
            else:
                with bc(board=[b1, b2, b3]):
                    bc.set_led(1, True)
        except AssertionError:
            outcome = "AssertionError"
        except Exception as e:
            outcome = type(e).__name__ + ": " + str(e)[:200]
        sent = env.wire[mark:]
        ctx.observe(how, outcome, len(sent))
        v = {"cabinet": 0, "frame": 0, "board": b1}
        if outcome == "AssertionError":
            # no connection for that board: nothing may have been sent
            ctx.witness("no-connection")
            ctx.prove(not sent, "command-sent-without-connection")
            prove_all(ctx, bmp_connection_items(None, v, hosts))
            return
        if not ctx.prove(outcome == "ok" and len(sent) == 1, "call-failed",
                         (outcome, len(sent))):
            return
        tag, q = sent[0]
        ctx.witness("sent")
        prove_all(ctx, [
            (q.dest_cpu == b1, "command-wrong-board", (q.dest_cpu, b1)),
            (q.arg2 == ((1 << b1) | (1 << b2) | (1 << b3)),
             "command-wrong-board-mask", (q.arg2, b1, b2, b3)),
            (int(q.cmd) == 25, "command-wrong-kind", int(q.cmd)),
        ] + bmp_connection_items(tag, v, hosts))


@stoppable
def h_update(ctx, cls, name, sets):
    """update_current_context(): changes the innermost context of THAT
    controller only -- the base context when no block is open (then it stays
    after blocks are left), the block's own context inside a block (then it
    goes when the block is left).  Other controllers, created before or
    after, keep the documented initial context."""
    pl = plan(cls, name)
    hosts = BMP_HOSTS[0] if cls == BMP else None
    with Env(ctx) as env:
        A = env.controller(cls, None, hosts)
        B = env.controller(cls, None, hosts)
        sA = Scenario(ctx, env, A, pl, dict(INIT[cls]), hosts)
        sB = Scenario(ctx, env, B, pl, dict(INIT[cls]), hosts)

        def probe(s, active, tag):
            s.call(pl.probe_npos, {}, active, prefix="update-" + tag + "-")
        outcome = "ok"
        try:
            probe(sA, (), "start-A")
            u1 = {a: sym(ctx, a, "u1") for a in sets}
            A.update_current_context(**u1)
            sA.init.update(u1)
            probe(sA, (), "base-A")
            probe(sB, (), "base-B")
            lv = {a: sym(ctx, a, "blk") for a in sets[:1]}
            sA.levels = {1: dict(lv)}
            with A(**lv):
                probe(sA, (1,), "block-A")
                u2 = {a: sym(ctx, a, "u2") for a in sets}
                A.update_current_context(**u2)
                sA.levels[1].update(u2)
                probe(sA, (1,), "block-updated-A")
                probe(sB, (), "block-B")
            probe(sA, (), "left-A")
            C = env.controller(cls, None, hosts)
            sC = Scenario(ctx, env, C, pl, dict(INIT[cls]), hosts)
            probe(sC, (), "new-C")
            ctx.witness("updated")
        except Exception as e:
            outcome = type(e).__name__ + ": " + str(e)[:200]
        ctx.observe(outcome)
        ctx.prove(outcome == "ok", "call-failed", outcome)


# ----------------------------------------------------------------------
def specs_names(cls):
    return list(specs()[cls])


def covered_methods():
    s = specs()
    return sorted(s[MC]), sorted(s[BMP])


def Unit(*a, **kw):
    # generous budgets: nothing comes near them on an idle machine, they
    # only keep a heavily loaded one from reporting "inconclusive"
    kw.setdefault("timeout_ms", 120000)
    kw.setdefault("path_timeout_s", 240)
    return _Unit(*a, **kw)


def units(tier, seed):
    import random
    quick = tier == "quick"
    # (kept free of rig imports: the names are those of SPEC)
    mc_names = sorted([
        "send_scp", "get_software_version", "get_ip_address", "write",
        "read", "write_across_link", "read_across_link", "read_struct_field",
        "write_struct_field", "read_vcpu_struct_field",
        "write_vcpu_struct_field", "get_processor_status", "get_iobuf",
        "get_iobuf_bytes", "get_router_diagnostics", "iptag_set",
        "iptag_get", "iptag_clear", "set_led", "fill", "sdram_alloc",
        "sdram_alloc_as_filelike", "sdram_free", "flood_fill_aplx",
        "load_application", "send_signal", "count_cores_in_state",
        "wait_for_cores_to_reach_state", "load_routing_tables",
        "load_routing_table_entries", "get_routing_table_entries",
        "clear_routing_table_entries", "get_p2p_routing_table",
        "get_chip_info", "get_working_links", "get_num_working_cores",
        "get_system_info", "discover_connections"])
    bmp_names = sorted(["send_scp", "get_software_version", "set_power",
                        "set_led", "read_fpga_reg", "write_fpga_reg",
                        "read_adc"])
    # methods that hand their resolved arguments on to other decorated
    # methods (always driven, also in quick), including the second forms
    passing = sorted([
        "count_cores_in_state[iterable]",
        "wait_for_cores_to_reach_state[iterable]",
        "wait_for_cores_to_reach_state", "load_application",
        "load_application[use_count=False]", "load_routing_tables",
        "sdram_alloc_as_filelike", "sdram_alloc[clear]", "fill[unaligned]",
        "set_led[iterable]",
        "get_iobuf", "get_ip_address", "get_working_links",
        "get_num_working_cores", "write_struct_field",
        "read_struct_field"])
    # (all methods in both tiers: a seeded third in quick was the first
    # sizing; the whole set costs under a minute)
    us = []
    W = ("sent", "rejected", "left-by-exception")
    strides = (4,) if quick else (4, 7)
    us.append(Unit("wiring MachineController: %s" % ",".join(mc_names),
                   h_wiring, dict(cls=MC, names=mc_names, strides=strides),
                   split=2, witnesses=W))
    us.append(Unit("pass-through MachineController: %s" % ",".join(passing),
                   h_wiring, dict(cls=MC, names=passing, strides=strides),
                   split=2, witnesses=W))
    us.append(Unit("wiring BMPController: %s" % ",".join(bmp_names),
                   h_wiring, dict(cls=BMP, names=bmp_names, strides=strides),
                   split=2, witnesses=W + ("no-connection",)))
    all_mc = sorted(set(specs_names(MC)))
    us.append(Unit("explicit value equal to the default", h_explicit_default,
                   dict(cls=MC, names=all_mc), split=3,
                   witnesses=("sent", "explicit-default")))
    P = (0, 1, 2, 3)
    SR, SE = ("sent", "rejected"), ("sent", "left-by-exception")
    if quick:
        joint = [(MC, "sdram_alloc", ("x", "app_id"), P, SR),
                 (MC, "send_scp", ("y", "p"), P, SR),
                 (BMP, "set_led", ("frame", "board"), (1,), ("sent",))]
        hist = [(MC, "sdram_alloc", ("x", "app_id"), P, SE),
                (MC, "read", ("y", "p"), P, SE)]
    else:
        joint = [(MC, "sdram_alloc", ("x", "y", "app_id"), P, SR),
                 (MC, "send_scp", ("x", "y", "p"), P, SR),
                 (MC, "read", ("x", "y", "p"), P, SR),
                 (BMP, "set_led", ("frame", "board"), (1,), ("sent",))]
        hist = [(MC, "sdram_alloc", ("x", "y", "app_id"), P, SE),
                (MC, "read", ("x", "p"), P, SE),
                (BMP, "set_led", ("frame", "board"), (0, 1),
                 SE + ("rejected", "no-connection"))]
    for cls, name, free, probes, wit in joint:
        us.append(Unit("sources %s.%s free=%s" % (cls, name, ",".join(free)),
                       h_sources, dict(cls=cls, name=name, free=free,
                                       probes=probes),
                       split=3, witnesses=wit))
    for cls, name, free, probes, wit in hist:
        us.append(Unit("history %s.%s free=%s" % (cls, name, ",".join(free)),
                       h_history, dict(cls=cls, name=name, free=free,
                                       probes=probes),
                       split=3, witnesses=wit))
    for cls, name, sets, app in (
            (MC, "sdram_alloc", ("x", "y", "app_id"), False),
            (MC, "send_signal", ("app_id",), True),
            (BMP, "set_led", ("board",), False)):
        us.append(Unit("re-entry %s.%s %s" % (
            cls, name, "application() blocks" if app else ",".join(sets)),
            h_reentry, dict(cls=cls, name=name, sets=sets, app=app),
            witnesses=("sent", "re-entered", "left-by-exception")))
    us.append(Unit("re-entry MachineController.sdram_alloc, objects setting "
                   "different arguments", h_reentry,
                   dict(cls=MC, name="sdram_alloc", sets=(), app=False,
                        subsets={"a": ("x", "y"), "b": ("app_id",),
                                 "c": ("y", "app_id")}),
                   witnesses=("sent", "re-entered", "left-by-exception")))
    us.append(Unit("re-entry BMPController.set_led, objects setting "
                   "different arguments", h_reentry,
                   dict(cls=BMP, name="set_led", sets=(), app=False,
                        subsets={"a": ("board",), "b": ("frame",),
                                 "c": ("cabinet", "frame")}),
                   witnesses=("sent", "re-entered")))
    for cls, name, sets in ((MC, "send_signal", ("app_id",)),
                            (MC, "sdram_alloc", ("x", "y", "app_id")),
                            (BMP, "set_led", ("board", "frame"))):
        us.append(Unit("update_current_context %s.%s %s" % (
            cls, name, ",".join(sets)), h_update,
            dict(cls=cls, name=name, sets=sets),
            witnesses=("sent", "updated")))
    us.append(Unit("BMP set_led with an iterable of boards", h_bmp_boards, {},
                   split=3, witnesses=("sent",)))
    us.append(Unit("application blocks", h_application, {}, split=2,
                   witnesses=("application-left", "left-by-exception",
                              "own clean-up functions")))
    if quick:
        machines = [((24, 24), (0, 0)), ((24, 12), (7, 3))]
        methods = ("get_chip_info", "read")
        menus = ("all", "not-root", "unknown")
    else:
        # (root chips (4, 8) and (8, 4) give the same lattice of Ethernet
        # chips as (0, 0); (7, 3), (1, 0) do not)
        machines = [((24, 24), (0, 0)), ((24, 12), (7, 3)),
                    ((12, 12), (4, 8)), ((24, 24), (1, 0)),
                    ((36, 24), (8, 4)), ((48, 24), (0, 0))]
        methods = ("get_chip_info", "read", "write", "send_scp")
        menus = ("none", "all", "root", "not-root", "other", "unknown")
    hist_machines = [((24, 12), (7, 3))] if quick else \
        [((24, 12), (7, 3)), ((24, 24), (0, 0))]
    for dims, root in hist_machines:
        for row in range(12):
            us.append(Unit(
                "connection history %dx%d root %s row %d" % (
                    dims + (root, row)),
                h_conn_history, dict(row=row, dims=dims, root=root),
                witnesses=("fallback", "local-board",
                           "switched-to-new-connection")))
    for rows in ((0, 1, 2), (3, 4, 5), (6, 7, 8), (9, 10, 11)):
        us.append(Unit("discover_connections 12x12, then chip in rows "
                       "%d..%d" % (rows[0], rows[-1]), h_discover,
                       dict(rows=rows), witnesses=("local-board",)))
    for rows in ((0, 5), (6, 11)):
        us.append(Unit("discover_connections 12x12 with a board that does "
                       "not join, then chip in rows %d..%d" % rows,
                       h_discover, dict(rows=rows, faults=True),
                       witnesses=("local-board", "board-left-out")))
    for dims, root in machines:
        for row in range(12):
            us.append(Unit(
                "connection %dx%d root %s row %d" % (dims + (root, row)),
                h_conn_mc, dict(row=row, dims=dims, root=root,
                                methods=methods, menus=menus),
                witnesses=("size-unknown", "local-board")))
    return us
