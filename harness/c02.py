"""C02 -- every placer returns a feasible, constraint-respecting placement or
fails with one of the two documented errors.

The real `place()` of the sequential, breadth-first, Hilbert, RCM, random and
simulated-annealing (Python kernel) placers runs on symbolic (unbounded,
mathematical-integer) vertex demands, chip capacities and reservation bounds;
the solver proves, for all values at once, that the returned placement does not
exceed any chip's capacity minus its reservations.  Random number generators
are replaced by a stub whose every outcome is explored.  The annealer is
claimed through (i) the real `sa.place` up to and including the construction
of the kernel (base case of the kernel's consistency invariant), its trivial
exits, a cut-short anneal and the final expansion, and (ii) one inductive
`PythonKernel.run_steps(1, ...)` from an arbitrary state satisfying the
invariant."""
import importlib
import itertools
from collections.abc import Sequence

from sx.runner import Unit
from sx.proxies import sand, snot

PROPERTY = "C02"

META = {
    "bounds": "vertices <= 4 (quick: <= 3 for the random placer and the "
              "annealer, whose RNG outcomes multiply the paths; thorough: 4 "
              "for every placer); <= 2 resources; machines 1x1, 2x1, 2x2 with "
              "0-1 dead chip and 0-1 chip_resource_exceptions entry (on a "
              "live chip); nets from the menu {none, chain, fan-out (weight "
              "2), self-loop + zero-weight net}; constraint mixes from the "
              "menu {none; location (every live chip); two vertices located "
              "on one chip; two independently located vertices; same-chip "
              "pair; chained same-chip pairs; same-chip with a duplicated "
              "member + singleton + empty group; the same pair twice; two "
              "disjoint groups; same-chip group whose members are all (or "
              "only one of them) located on one chip; one or two global "
              "reservations; per-chip reservation (every live chip); "
              "location + global + per-chip reservation + same-chip pair}, "
              "in list order or reversed; vertices that omit a resource or "
              "need nothing at all; no vertices at all; sequential placer "
              "with every permutation of the vertices as vertex_order and "
              "plain/reversed/rotated chip orders (list or iterator) that "
              "also name dead and non-existent chips; breadth-first with a "
              "custom chip order; Hilbert with and without breadth-first "
              "ordering; every iteration order of set(vertices) for the "
              "breadth-first/Hilbert/RCM placers (vertex objects with "
              "permuted hashes); annealer effort 0.0 and 0.1.  All demands, "
              "default and exceptional capacities and both bounds of every "
              "reservation slice are unbounded symbolic integers >= 0 "
              "(reservations larger than a chip included).  Kernel step: "
              "2x1, 2x2 (thorough: 3x1) machines, <= 3 (thorough 4) vertices "
              "anywhere on the live chips with 0-1 of them fixed, 0-1 dead "
              "chip, location lists in every order, wrap-around on/off, "
              "distance limit 1 or 2, temperature 0.5 or 1e100, every RNG "
              "outcome, symbolic demands and free amounts.",
    "stubs": [
        "the `random=` argument of rand.place / sa.place / PythonKernel is a "
        "stub whose outcomes are all explored: random() is a solver real in "
        "[0, 1); randint/choice/shuffle/sample enumerate every result "
        "(ctx.choose); sample() rejects non-sequences with TypeError exactly "
        "as Python >= 3.11 does.  Separate units use the real random.Random "
        "(seeds derived from VERIF_SEED) and the real module-level generator",
        "rig.place_and_route.place.utils.MergedVertex is rebound to a "
        "subclass whose hash is a per-run sequence number instead of the "
        "object's address, so that set iteration orders (breadth-first / "
        "RCM vertex orders) are reproducible when the engine re-executes a "
        "path; behaviour is otherwise identical",
        "sa.place is given kernel=<subclass of PythonKernel that records the "
        "instance> (to examine the state handed to the kernel), "
        "kernel_kwargs={'no_warn': True} and, for the cut-short anneal, "
        "on_temperature_change=lambda *a: False (documented way to stop)",
        "C kernel units: rig.place_and_route.place.sa.c_kernel.rig_c_sa and "
        ".ffi are rebound to a contract model of the compiled library "
        "(ModelSA): it stores exactly what CKernel hands over (per-vertex "
        "resource vectors, movability, initial chips, nets, per-chip free "
        "amounts by resource index) and every sa_run_steps call makes at "
        "most one chosen move of a movable vertex to a chip on which it "
        "fits ACCORDING TO THOSE FIGURES (at most two moves per anneal); "
        "CKernel.__init__ and get_placements are rig's real code, "
        "getrandbits() of the RNG stub returns 0 (the seed is ignored)",
    ],
    "assumptions": [
        "constraint sets are consistent (the menu above); every resource a "
        "vertex names is a resource of the machine",
        "completeness clause: every demand is 0 or 1 unit of the first "
        "resource and 0 of any other, no same-chip groups, every reservation "
        "fits the chips it applies to, located vertices fit their chips, "
        "total free capacity >= total demand",
        "kernel step: the pre-state is an arbitrary one satisfying the "
        "invariant (placements <-> location lists agree, free = capacity - "
        "placed >= 0 for every live chip and resource, occupied chips have a "
        "chip_resource_exceptions entry); it is a superset of the states "
        "real runs reach, and the base case is proved on the real sa.place",
        "kernel step: the destination-selection loop (`while dst_location == "
        "src_location`) is explored for at most two draws per step; the loop "
        "body is memoryless, so a second repeat adds no new state",
        "net weights are concrete (1.0, 2.0, 0): the cost arithmetic is "
        "floating-point and outside the solver; the accept/reject decision "
        "is still fully covered through the symbolic random()",
    ],
    "outside_claim": [
        "the compiled C kernel itself (rig_c_sa, cffi) -- cannot be encoded; "
        "its Python wrapper CKernel is covered against a contract model of "
        "the library (moves only where the marshalled figures say the "
        "vertex fits); swaps and more than two moves per anneal are not "
        "modelled",
        "the full annealing schedule with a symbolic RNG (floating-point "
        "temperature loop; unbounded number of steps): sa.place is claimed "
        "through constraint handling, _initial_placement, kernel "
        "construction, trivial exits, an anneal stopped by the callback "
        "after the first temperature, the inductive kernel step and the "
        "final expansion; complete anneals are run only with real "
        "generators for a few seeds (symbolic quantities)",
        "more vertices / larger machines / other constraint mixes than "
        "stated; inconsistent constraint sets other than a location "
        "constraint naming a dead or non-existent chip",
        "two LocationConstraints for one vertex (same chip): the placers "
        "subtract the vertex twice and may raise InsufficientResourceError "
        "on a feasible problem (same for a same-chip group with several "
        "located members; groups are excluded from the completeness clause)",
        "machines whose chip_resource_exceptions name a dead chip "
        "(Machine.__eq__ itself raises IndexError on them; with a global "
        "reservation every placer raises IndexError) and per-chip "
        "reservations naming a dead chip (IndexError)",
        "vertices demanding a resource the machine does not list (silently "
        "ignored by subtract_resources)",
        "hash orders of string vertices other than PYTHONHASHSEED=0's (set "
        "iteration orders are covered with hash-permuted vertex objects, "
        "arbitrary vertex orders through sequential.place's vertex_order)",
    ],
}

NAMES = ["va", "vb", "vc", "vd", "ve"]


class V(object):
    """A vertex object whose hash is chosen by the harness: in CPython a
    small set of objects with distinct hashes below 8 iterates in ascending
    hash order, so permuting the hashes produces every iteration order of
    `set(vertices)` (breadth-first and RCM vertex orders start from
    set.pop())."""
    __slots__ = ("name", "h")

    def __init__(self, name, h):
        self.name = name
        self.h = h

    def __hash__(self):
        return self.h

    def __repr__(self):
        return self.name


def _items(p):
    return sorted(p.items(), key=repr)


def _mod(name):
    # rig.place_and_route.place is rebound to a function by the package
    return importlib.import_module("rig.place_and_route.place." + name)


# ----------------------------------------------------------------------
# Random stub
# ----------------------------------------------------------------------
class SymRandom(object):
    """Stands in for a random.Random instance: every outcome is explored."""

    def __init__(self, ctx, max_randint=None):
        self.ctx = ctx
        self.max_randint = max_randint
        self.nrandint = 0
        self.calls = set()

    def random(self):
        self.calls.add("random")
        r = self.ctx.real("random", 0, 1)
        self.ctx.assume(r < 1)
        return r

    def uniform(self, a, b):
        return a + (b - a) * self.random()

    def randint(self, a, b):
        self.calls.add("randint")
        a, b = int(a), int(b)
        if b < a:
            raise ValueError("empty range for randrange()")
        self.nrandint += 1
        if self.max_randint is not None and self.nrandint > self.max_randint:
            self.ctx.assume(False)     # see META assumptions
        return a + self.ctx.choose(b - a + 1)

    def randrange(self, a, b=None):
        if b is None:
            a, b = 0, a
        return self.randint(a, b - 1)

    def choice(self, seq):
        self.calls.add("choice")
        self.nrandint = 0              # one choice() opens each kernel step
        if len(seq) == 0:
            raise IndexError("Cannot choose from an empty sequence")
        return seq[self.ctx.choose(len(seq))]

    def shuffle(self, lst):
        self.calls.add("shuffle")
        for i in reversed(range(1, len(lst))):
            j = self.ctx.choose(i + 1)
            lst[i], lst[j] = lst[j], lst[i]

    def sample(self, population, k):
        self.calls.add("sample")
        if not isinstance(population, Sequence):
            raise TypeError("Population must be a sequence.  For dicts or "
                            "sets, use sorted(d).")
        pool = list(population)
        if not 0 <= k <= len(pool):
            raise ValueError("Sample larger than population or is negative")
        return [pool.pop(self.ctx.choose(len(pool))) for _ in range(k)]

    def __getattr__(self, name):
        from sx.engine import Unsupported
        raise Unsupported("random.%s is not modelled" % name)


# ----------------------------------------------------------------------
# Deterministic hashing of merged vertices
# ----------------------------------------------------------------------
class _det_merged(object):
    """Context manager: utils.MergedVertex hashes by creation order."""

    def __enter__(self):
        self.utils = utils = _mod("utils")
        self.saved = base = utils.MergedVertex
        if getattr(base, "_sx_det", False):
            base = base.__mro__[1]
        counter = [0]

        class MergedVertex(base):
            _sx_det = True

            def __init__(self, vertices):
                base.__init__(self, vertices)
                counter[0] += 1
                self._sx_n = counter[0]

            def __hash__(self):
                # odd slots of a small hash table (V objects use even ones)
                return 0x4d560 + (2 * self._sx_n - 1) % 8

        MergedVertex.__qualname__ = base.__qualname__
        utils.MergedVertex = MergedVertex
        return self

    def __exit__(self, *exc):
        self.utils.MergedVertex = self.saved
        return False


class _Bits(object):
    """A random source that also answers getrandbits (the C kernel seeds the
    library's generator with it; the contract model ignores the seed)."""

    def __init__(self, inner):
        self.inner = inner

    def getrandbits(self, n):
        return 0

    def __getattr__(self, name):
        return getattr(self.inner, name)


# ----------------------------------------------------------------------
# Contract model of the C annealing library (rig_c_sa)
# ----------------------------------------------------------------------
class _CObj(object):
    pass


class ModelFFI(object):
    NULL = None

    @staticmethod
    def gc(obj, destructor):
        return obj

    @staticmethod
    def new(ctype):
        return [0]


class ModelSA(object):
    """Stands in for the compiled module rig_c_sa inside
    rig.place_and_route.place.sa.c_kernel: the data structure CKernel fills
    in, and a kernel that obeys the library's contract ON THAT DATA -- each
    sa_run_steps call makes at most one arbitrary (chosen) move of a movable
    vertex to a chip on which, according to the resource figures it was
    given, the vertex fits.  The Python side (CKernel.__init__,
    get_placements) is rig's real code; if it marshals the problem wrongly
    the contract-abiding kernel returns a placement that is infeasible for
    the real problem."""

    def __init__(self, ctx):
        self.ctx = ctx
        self.ffi = ModelFFI
        self.moves = 0

    def srand(self, seed):
        pass

    def sa_new(self, width, height, nres, nv, nn):
        s = _CObj()
        s.width, s.height, s.nres = width, height, nres
        s.vertices = [None] * nv
        s.nets = [None] * nn
        s.free = {}                 # chip -> [free amount per index]
        s.has_wrap_around_links = False
        s.num_movable_vertices = 0
        return s

    def sa_free(self, s):
        pass

    def sa_new_vertex(self, s, nnets):
        v = _CObj()
        v.vertex_resources = [0] * s.nres
        v.x = v.y = None
        v.movable = False
        return v

    def sa_add_vertex_to_chip(self, s, v, x, y, movable):
        v.x, v.y, v.movable = x, y, bool(movable)

    def sa_new_net(self, s, n):
        net = _CObj()
        net.weight = 0.0
        net.vertices = []
        return net

    def sa_add_vertex_to_net(self, s, n, v):
        n.vertices.append(v)

    def sa_set_chip_resources(self, s, x, y, i, value):
        s.free.setdefault((x, y), [0] * s.nres)[i] = value

    def sa_get_total_cost(self, s):
        return 1.0

    def sa_run_steps(self, s, n, dlimit, temperature, pacc, pcd, pcsd):
        pacc[0], pcd[0], pcsd[0] = 0, 0.0, 1.0
        movable = [v for v in s.vertices if v is not None and v.movable]
        chips = sorted(s.free)
        if not movable or not chips or self.moves >= 2:
            return
        k = self.ctx.choose(1 + len(movable) * len(chips))
        if k == 0:
            return
        v = movable[(k - 1) // len(chips)]
        dst = chips[(k - 1) % len(chips)]
        src = (v.x, v.y)
        if dst == src:
            return
        fits = sand(*[v.vertex_resources[i] <= s.free[dst][i]
                      for i in range(s.nres)])
        if not fits:                # solver-decided branch
            return
        for i in range(s.nres):
            s.free[dst][i] = s.free[dst][i] - v.vertex_resources[i]
            if src in s.free:
                s.free[src][i] = s.free[src][i] + v.vertex_resources[i]
        v.x, v.y = dst
        self.moves += 1
        pacc[0] = 1
        self.ctx.witness("c-kernel-moved")


# ----------------------------------------------------------------------
# Scenarios
# ----------------------------------------------------------------------
class Scenario(object):
    pass


def _build(ctx, dims, nv, nres, dead, exc, nets, cons, sparse, rev, nowrap,
           unit_demands=False, hperm=False, exc_rev=False):
    from rig.place_and_route import Machine, Cores, SDRAM
    from rig.place_and_route.constraints import (
        LocationConstraint, SameChipConstraint, ReserveResourceConstraint)
    from rig.netlist import Net
    from rig.links import Links

    sc = Scenario()
    w, h = dims
    sc.dims = dims
    sc.chips = [(x, y) for x in range(w) for y in range(h)]
    sc.dead = set() if dead is None else {tuple(dead)}
    sc.live = [c for c in sc.chips if c not in sc.dead]
    sc.resources = resources = [Cores, SDRAM][:nres]

    # -- machine --------------------------------------------------------
    capd = {r: ctx.int("cap%d" % j, 0) for j, r in enumerate(resources)}
    exceptions = {}
    if exc is not None:
        exceptions[tuple(exc)] = {r: ctx.int("capx%d" % j, 0)
                                  for j, r in enumerate(resources)}
        if exc_rev:
            # the caller wrote the exception's resources in another order
            exceptions[tuple(exc)] = dict(reversed(list(
                exceptions[tuple(exc)].items())))
    dead_links = set()
    if nowrap:
        # enough dead wrap-around links for has_wrap_around_links() == False
        for x in range(w):
            dead_links.add((x, 0, Links.south))
            dead_links.add((x, h - 1, Links.north))
        for y in range(h):
            dead_links.add((0, y, Links.west))
            dead_links.add((w - 1, y, Links.east))
    sc.machine = Machine(w, h, chip_resources=dict(capd),
                         chip_resource_exceptions={
                             c: dict(d) for c, d in exceptions.items()},
                         dead_chips=set(sc.dead), dead_links=dead_links)
    sc.cap = {c: dict(exceptions.get(c, capd)) for c in sc.live}
    sc.res = {c: {r: 0 for r in resources} for c in sc.live}

    # -- vertices ---------------------------------------------------------
    sc.vertices = vertices = NAMES[:nv]
    if hperm:
        hs = ctx.pick(list(itertools.permutations([0, 2, 4, 6][:nv])))
        sc.vertices = vertices = [V(n, x) for n, x in zip(NAMES[:nv], hs)]
    sc.vr = vr = {}
    for i, v in enumerate(vertices):
        if sparse and nv >= 2 and i == nv - 1:
            vr[v] = {}                     # a vertex needing nothing
            continue
        vr[v] = {}
        for j, r in enumerate(resources):
            if sparse and i == 0 and j == 1:
                continue                   # does not mention resource 1
            if unit_demands and j > 0:
                if i % 2:
                    vr[v][r] = 0
                continue
            vr[v][r] = ctx.int("dem_%s_%d" % (NAMES[i], j), 0,
                               1 if unit_demands else None)

    # -- nets -----------------------------------------------------------
    v = vertices
    if nets == "none" or nv == 0:
        sc.nets = []
    elif nets == "chain":
        sc.nets = [Net(v[i], [v[i + 1]]) for i in range(nv - 1)]
    elif nets == "fan":
        sc.nets = [Net(v[0], list(v[1:]), 2.0)] if nv > 1 else []
    elif nets == "self":
        sc.nets = [Net(v[0], [v[0]]), Net(v[-1], [v[0]], 0)]
        if nv > 1:
            sc.nets.append(Net(v[0], [v[1]]))
    elif nets == "repeat":
        # a vertex listed twice in one net (repeated sink; source among its
        # own sinks), each net first reached from another member
        sc.nets = [Net(v[0], [v[1], v[1]]), Net(v[1], [v[1], v[0]])]
        if nv > 2:
            sc.nets.append(Net(v[2], [v[0], v[0], v[2]]))
    else:
        raise ValueError(nets)

    # -- constraints --------------------------------------------------------
    sc.loc = {}          # vertex -> chip it must be on
    sc.groups = []       # lists of vertices that must share a chip
    sc.expect_invalid = False
    cs = []

    def reserve(j, location, tag):
        r = resources[min(j, nres - 1)]
        s = ctx.int("%s_start" % tag, 0)
        e = ctx.int("%s_stop" % tag, 0)
        ctx.assume(s <= e)
        for c in sc.live:
            if location is None or c == location:
                sc.res[c][r] = sc.res[c][r] + (e - s)
        if location is None:
            cs.append(ReserveResourceConstraint(r, slice(s, e)))
        else:
            cs.append(ReserveResourceConstraint(r, slice(s, e), location))

    def locate(vertex, chip):
        sc.loc[vertex] = chip
        cs.append(LocationConstraint(vertex, chip))

    def group(members):
        if len(set(members)) > 1:
            sc.groups.append(list(members))
        cs.append(SameChipConstraint(list(members)))

    L0 = None
    for atom in cons:
        if atom == "loc":
            L0 = ctx.pick(sc.live)
            locate(v[0], L0)
        elif atom == "loc2":            # a second vertex on the same chip
            locate(v[1], L0)
        elif atom == "locb":            # another vertex somewhere else
            locate(v[-1], ctx.pick(sc.live))
        elif atom == "same":
            group([v[0], v[1]])
        elif atom == "same12":
            group([v[1], v[2]])
        elif atom == "chain":
            group([v[0], v[1]])
            group([v[1], v[2]])
        elif atom == "dup":
            group([v[0], v[1], v[0]])
            group([v[-1]])
            group([])
        elif atom == "dup23":
            group([v[2], v[3], v[2]])
        elif atom == "twice":
            group([v[0], v[1]])
            group([v[0], v[1]])
        elif atom == "sameloc":
            group([v[0], v[1]])
            L0 = ctx.pick(sc.live)
            locate(v[0], L0)
            locate(v[1], L0)
        elif atom == "sameloc1":
            group([v[0], v[1]])
            L0 = ctx.pick(sc.live)
            locate(v[1], L0)
        elif atom == "resg":
            reserve(0, None, "resg")
        elif atom == "resg2":
            reserve(1, None, "resh")
        elif atom == "resl":
            reserve(0, ctx.pick(sc.live), "resl")
        elif atom == "resl2":
            reserve(1, ctx.pick(sc.live), "resm")
        elif atom == "baddead":
            sc.expect_invalid = True
            cs.append(LocationConstraint(v[0], sorted(sc.dead)[0]))
        elif atom == "badout":
            sc.expect_invalid = True
            cs.append(LocationConstraint(v[0], (w, 0)))
        else:
            raise ValueError(atom)
    if rev:
        cs.reverse()
    sc.constraints = cs
    return sc


def _total(sc, vs, r):
    return sum((sc.vr[v].get(r, 0) for v in vs), 0)


def _check_placement(ctx, sc, p):
    """The oracle on a returned placement."""
    ok = isinstance(p, dict) and set(p) == set(sc.vertices)
    ctx.prove(ok, "placement-vertex-set",
              sorted(map(repr, p)) if isinstance(p, dict) else repr(p))
    if not ok:
        return
    for v in sc.vertices:
        c = p[v]
        ok = (isinstance(c, tuple) and len(c) == 2 and
              all(type(i) is int for i in c) and c in sc.live)
        ctx.prove(ok, "placement-not-on-a-live-chip", (repr(v), repr(c)))
        if not ok:
            return
    ctx.observe(repr(_items(p)))
    conds = []
    for c in sc.live:
        here = [v for v in sc.vertices if p[v] == c]
        if not here:
            # nothing placed here: nothing can exceed anything (a reservation
            # larger than an unused chip breaks ReserveResourceConstraint's
            # documented precondition, not the placement)
            continue
        for r in sc.resources:
            conds.append(_total(sc, here, r) <= sc.cap[c][r] - sc.res[c][r])
    ctx.prove(sand(*conds), "placement-exceeds-chip-resources",
              (repr(_items(p)),
               [(c, [(_total(sc, [v for v in sc.vertices if p[v] == c], r),
                      sc.cap[c][r], sc.res[c][r]) for r in sc.resources])
                for c in sc.live]))
    for v, c in sc.loc.items():
        ctx.prove(p[v] == c, "location-constraint-broken",
                  (repr(v), c, p[v]))
    for g in sc.groups:
        ctx.prove(len(set(p[v] for v in g)) == 1,
                  "same-chip-constraint-broken",
                  [(repr(v), p[v]) for v in g])


def _feasible(sc):
    """Completeness clause (unit demands of resource 0, no groups): is there
    a feasible placement?"""
    r0 = sc.resources[0]
    conds = []
    for c in sc.live:
        for r in sc.resources:
            conds.append(sc.cap[c][r] - sc.res[c][r] >= 0)
        fixed = [v for v in sc.vertices if sc.loc.get(v) == c]
        conds.append(_total(sc, fixed, r0) <= sc.cap[c][r0] - sc.res[c][r0])
    free = sum((sc.cap[c][r0] - sc.res[c][r0] for c in sc.live), 0)
    conds.append(_total(sc, sc.vertices, r0) <= free)
    conds.append(len(sc.live) > 0)
    return sand(*conds)


def _kernel_invariant(ctx, label, placements, l2v, machine, vr, live,
                      resources, base, fixed_at):
    """PythonKernel's consistency invariant, in terms of its attributes:
    `placements` maps every vertex of `vertices_resources` to a live chip;
    `l2v[c]` lists exactly the vertices placed on c, once each, for every
    live chip c; `machine[c][r] == base[c][r] - sum of the demands placed on
    c` and is >= 0; fixed vertices are where they were put."""
    ok = (set(placements) == set(vr) and
          all(c in live for c in placements.values()) and
          set(l2v) == set(live))
    ctx.prove(ok, label + ":placements-domain")
    if not ok:
        return False
    for c in live:
        want = sorted((v for v in placements if placements[v] == c), key=id)
        got = sorted(l2v[c], key=id)
        ok = len(want) == len(got) and all(a is b for a, b in zip(want, got))
        ctx.prove(ok, label + ":location-lists-disagree-with-placements",
                  (c, repr(l2v[c])))
        if not ok:
            return False
    conds = []
    for c in live:
        free = machine[c]
        ok = set(free) == set(resources)
        ctx.prove(ok, label + ":resource-keys")
        if not ok:
            return False
        for r in resources:
            used = sum((vr[v].get(r, 0) for v in placements
                        if placements[v] == c), 0)
            conds.append(free[r] == base[c][r] - used)
            conds.append(free[r] >= 0)
    good = ctx.prove(sand(*conds), label + ":free-resources-inconsistent",
                     [(c, [machine[c][r] for r in resources]) for c in live])
    for v, c in fixed_at.items():
        ctx.prove(placements[v] == c, label + ":fixed-vertex-moved", (v, c))
    return good


# ----------------------------------------------------------------------
# Harness 1: a whole place() call
# ----------------------------------------------------------------------
def h_place(ctx, placer, dims=(2, 1), nv=2, nres=1, dead=None, exc=None,
            nets="none", cons=(), sparse=False, rev=False, nowrap=False,
            complete=False, rng="sym", mseed=0, order=None, effort=0.0,
            bf=True, stop=True, hperm=False, ck=False, exc_rev=False,
            again=None):
    from rig.place_and_route.exceptions import (
        InsufficientResourceError, InvalidConstraintError)
    import random as real_random

    sc = _build(ctx, tuple(dims), nv, nres, dead, exc, nets, tuple(cons),
                sparse, rev, nowrap, unit_demands=complete, hperm=hperm,
                exc_rev=exc_rev)
    mod = _mod("sa.algorithm" if placer == "sa" else placer)
    kwargs = {}
    spies = []
    state = None

    if placer in ("rand", "sa"):
        if rng == "sym":
            kwargs["random"] = SymRandom(ctx, max_randint=4)
        elif rng == "module":
            state = real_random.getstate()
            real_random.seed(mseed)
        else:
            kwargs["random"] = real_random.Random(rng)
    if placer == "sequential" and order is not None:
        # every permutation of the vertices; chip orders that also name the
        # dead chip and a chip outside the machine
        perms = list(itertools.permutations(sc.vertices))
        kwargs["vertex_order"] = iter(ctx.pick(perms))
        chips = list(sc.chips) + [(sc.dims[0], 0), (0, sc.dims[1])]
        k = ctx.choose(3)
        if k == 1:
            chips.reverse()
        elif k == 2:
            chips = chips[2:] + chips[:2]
        kwargs["chip_order"] = chips if order == "list" else iter(chips)
    if placer == "breadth_first" and order is not None:
        chips = list(reversed(sc.chips)) + [(sc.dims[0], sc.dims[1])]
        kwargs["chip_order"] = chips
    if placer == "hilbert":
        kwargs["breadth_first"] = bf
    saved_c = None
    if placer == "sa" and ck:
        # the C kernel's Python side, against the contract model of the
        # compiled library
        ckm = _mod("sa.c_kernel")
        model = ModelSA(ctx)
        saved_c = (ckm, ckm.rig_c_sa, ckm.ffi)
        ckm.rig_c_sa, ckm.ffi = model, ModelFFI
        kwargs["kernel"] = ckm.CKernel
        kwargs["effort"] = effort
        kwargs["random"] = _Bits(kwargs.get("random"))
        if stop and effort:
            kwargs["on_temperature_change"] = lambda *a: False
    elif placer == "sa":
        pk = _mod("sa.python_kernel")

        class SpyKernel(pk.PythonKernel):
            def __init__(self, *a, **k):
                pk.PythonKernel.__init__(self, *a, **k)
                spies.append(self)
                # Base case of the kernel invariant, on the state the real
                # sa.place hands over (merged vertices, reservations and
                # fixed vertices already accounted for).
                ctx.witness("kernel-built")
                base = {c: {r: sc.cap[c][r] - sc.res[c][r]
                            for r in sc.resources} for c in sc.live}
                _kernel_invariant(
                    ctx, "kernel-init", self.placements, self.l2v,
                    self.machine, self.vertices_resources, sc.live,
                    sc.resources, base, {})
                ctx.prove(set(self.movable_vertices) | set(
                    self.fixed_vertices) == set(self.vertices_resources) and
                    not set(self.movable_vertices) & set(self.fixed_vertices),
                    "kernel-init:movable-fixed-partition")

        kwargs["kernel"] = SpyKernel
        kwargs["kernel_kwargs"] = {"no_warn": True}
        kwargs["effort"] = effort
        if stop and effort:
            # stop == n: the callback lets n - 1 temperatures pass
            left = [int(stop) - 1]

            def on_change(*a):
                ctx.witness("callback")
                left[0] -= 1
                return left[0] >= 0
            kwargs["on_temperature_change"] = on_change

    try:
        with _det_merged():
            try:
                p = mod.place(sc.vr, sc.nets, sc.machine, sc.constraints,
                              **kwargs)
            except InsufficientResourceError:
                ctx.observe("InsufficientResourceError")
                ctx.witness("insufficient")
                if complete:
                    ctx.prove(snot(_feasible(sc)), "placer-incomplete",
                              "InsufficientResourceError although unit "
                              "demands fit the free capacity")
                else:
                    ctx.prove(True, "failure-is-a-documented-error")
                return
            except InvalidConstraintError:
                ctx.observe("InvalidConstraintError")
                ctx.witness("invalid")
                ctx.prove(sc.expect_invalid,
                          "invalid-constraint-error-on-consistent-constraints")
                return
            except Exception as e:
                ctx.observe(type(e).__name__)
                ctx.prove(False, "placer-unexpected-exception",
                          "%s: %s" % (type(e).__name__, e))
                return
    finally:
        if state is not None:
            real_random.setstate(state)
        if saved_c is not None:
            saved_c[0].rig_c_sa, saved_c[0].ffi = saved_c[1], saved_c[2]

    ctx.witness("placed")
    ctx.prove(not sc.expect_invalid, "location-on-unavailable-chip-accepted")
    _check_placement(ctx, sc, p)
    if again is not None:
        # the caller's objects, handed to a second placer: the first call
        # must have left them usable (and the result is checked again)
        mod2 = _mod("sa.algorithm" if again == "sa" else again)
        kw2 = {}
        if again == "sa":
            pk = _mod("sa.python_kernel")
            kw2 = dict(random=SymRandom(ctx, max_randint=4), effort=0.0,
                       kernel=pk.PythonKernel,
                       kernel_kwargs={"no_warn": True})
        try:
            with _det_merged():
                p2 = mod2.place(sc.vr, sc.nets, sc.machine, sc.constraints,
                                **kw2)
        except InsufficientResourceError:
            ctx.observe("again: InsufficientResourceError")
            return
        except Exception as e:
            ctx.observe("again", type(e).__name__)
            ctx.prove(False, "second-placer-call-unexpected-exception",
                      "%s after %s: %s: %s" % (again, placer,
                                               type(e).__name__, e))
            return
        ctx.witness("placed-again")
        _check_placement(ctx, sc, p2)


# ----------------------------------------------------------------------
# Harness 2: one inductive kernel step
# ----------------------------------------------------------------------
def h_step(ctx, dims=(2, 1), nv=2, nres=1, nets="chain", nfixed=0, dead=None,
           temperature=0.5, d_limit=1, steps=1, nowrap_only=False):
    from rig.place_and_route import Machine, Cores, SDRAM
    from rig.netlist import Net
    pk = _mod("sa.python_kernel")

    w, h = dims
    chips = [(x, y) for x in range(w) for y in range(h)]
    deadset = set() if dead is None else {tuple(dead)}
    live = [c for c in chips if c not in deadset]
    resources = [Cores, SDRAM][:nres]
    vertices = NAMES[:nv]
    fixed = vertices[:nfixed]
    movable = vertices[nfixed:]

    vr = {}
    for i, v in enumerate(vertices):
        vr[v] = {r: ctx.int("dem_%s_%d" % (v, j), 0)
                 for j, r in enumerate(resources)}
    if nres == 2 and nv >= 2:
        del vr[vertices[-1]][resources[1]]       # a sparse demand

    if nets == "chain":
        netlist = [Net(vertices[i], [vertices[i + 1]])
                   for i in range(nv - 1)]
    elif nets == "fan":
        netlist = [Net(vertices[0], list(vertices[1:]), 2.0)]
    elif nets == "self":
        netlist = [Net(vertices[0], [vertices[0]]),
                   Net(vertices[0], [vertices[-1]])]
    else:
        raise ValueError(nets)

    # An arbitrary consistent state
    placements = {}
    for v in vertices:
        placements[v] = ctx.pick(live)
    occupied = set(placements.values())
    all_exc = ctx.choose(2)
    default = {r: ctx.int("free_default_%d" % j, 0)
               for j, r in enumerate(resources)}
    exceptions = {}
    for c in live:
        if c in occupied or all_exc:
            exceptions[c] = {r: ctx.int("free_%d_%d_%d" % (c[0], c[1], j), 0)
                             for j, r in enumerate(resources)}
    machine = Machine(w, h, chip_resources=dict(default),
                      chip_resource_exceptions=exceptions,
                      dead_chips=set(deadset))
    base = {}
    for c in live:
        base[c] = {}
        for r in resources:
            used = sum((vr[v].get(r, 0) for v in vertices
                        if placements[v] == c), 0)
            base[c][r] = machine[c][r] + used

    rng = SymRandom(ctx, max_randint=4)
    k = pk.PythonKernel(vr, set(movable), set(fixed), placements, netlist,
                        machine, rng, no_warn=True)
    k.has_wrap_around_links = (False if nowrap_only
                               else bool(ctx.choose(2)))
    for c in live:                 # location lists in an arbitrary order
        if len(k.l2v[c]) > 1:
            perms = list(itertools.permutations(k.l2v[c]))
            k.l2v[c][:] = ctx.pick(perms)
    fixed_at = {v: placements[v] for v in fixed}

    # the pre-state satisfies the invariant by construction (checked: the
    # check must not fail, it guards the harness itself)
    _kernel_invariant(ctx, "pre", k.placements, k.l2v, k.machine, vr, live,
                      resources, base, fixed_at)

    before = dict(k.placements)
    try:
        accepted, cost, std = k.run_steps(steps, d_limit, temperature)
    except Exception as e:
        ctx.observe(type(e).__name__)
        ctx.prove(False, "kernel-step-unexpected-exception",
                  "%s: %s" % (type(e).__name__, e))
        return
    ctx.observe(accepted, sorted(k.placements.items()))
    ctx.witness("accepted" if accepted else "not-accepted")
    if k.placements != before:
        ctx.witness("moved")
    if "random" in rng.calls and not accepted:
        ctx.witness("reverted")
    _kernel_invariant(ctx, "post", k.placements, k.l2v, k.machine, vr, live,
                      resources, base, fixed_at)
    if steps == 1 and not accepted:
        ctx.prove(k.placements == before, "rejected-step-changed-placements",
                  sorted(k.placements.items()))
    # what sa.place returns at the end is exactly this dictionary:
    # feasibility of get_placements() follows from the invariant
    ctx.prove(k.get_placements() is k.placements, "get-placements")


# ----------------------------------------------------------------------
def units(tier, seed):
    us = []
    thorough = tier == "thorough"
    KB = ("placed", "insufficient", "kernel-built")

    def add(placer, name, wit=("placed", "insufficient"), split=4,
            path_timeout_s=120, **kw):
        us.append(Unit("%s %s" % (placer, name), h_place,
                       dict(placer=placer, **kw), split=split,
                       witnesses=wit, path_timeout_s=path_timeout_s))

    seqlike = ("sequential", "breadth_first", "hilbert", "rcm")
    for placer in seqlike + ("rand", "sa"):
        # set iteration orders matter to the breadth-first / RCM orders only
        hp = placer in ("breadth_first", "hilbert", "rcm")
        # A: plain feasibility, dead chip + resource exception, two resources
        add(placer, "plain 2x2 dead exc", dims=(2, 2), nv=3, nres=2,
            dead=(0, 0), exc=(1, 0), nets="chain", sparse=True, split=6)
        add(placer, "plain 2x1 nv3", dims=(2, 1), nv=3, nres=1, exc=(0, 0),
            nets="fan", hperm=hp, split=5)
        # B: location + global + per-chip reservations
        add(placer, "loc+reservations 2x1", dims=(2, 1), nv=3, nres=2,
            exc=(1, 0), nets="chain", cons=("loc", "resg", "resl"), split=6)
        add(placer, "reservations reversed 2x2", dims=(2, 2), nv=2, nres=1,
            dead=(1, 1), exc=(0, 1), nets="self",
            cons=("resl", "resg", "locb"), rev=True, split=6)
        add(placer, "two located on one chip", dims=(2, 1), nv=3, nres=1,
            exc=(0, 0), nets="chain", cons=("loc", "loc2", "resg"), split=5)
        # C: same-chip groups
        add(placer, "same-chip chain", dims=(2, 1), nv=3, nres=1,
            nets="chain", cons=("chain",), hperm=hp, split=5)
        add(placer, "same-chip pair 2x2", dims=(2, 2), nv=3, nres=1,
            dead=(1, 0), exc=(0, 0), nets="fan", cons=("same12", "resl"),
            hperm=hp, split=6)
        add(placer, "same-chip dup+reservation", dims=(2, 1), nv=3, nres=2,
            exc=(1, 0), nets="fan", cons=("dup", "resg"), sparse=True,
            split=5)
        add(placer, "same-chip located", dims=(2, 1), nv=3, nres=1,
            exc=(0, 0), nets="chain", cons=("sameloc", "resl"), rev=True,
            split=5)
        add(placer, "same-chip twice + one located", dims=(2, 2), nv=3,
            nres=1, dead=(0, 1), nets="self", cons=("twice", "sameloc1"),
            split=5)
        # D: location constraint on a dead / non-existent chip
        add(placer, "location on dead chip", dims=(2, 1), nv=2, nres=1,
            dead=(1, 0), cons=("resg", "baddead"), wit=("invalid",), split=0)
        add(placer, "location outside machine", dims=(2, 1), nv=2, nres=1,
            cons=("badout", "resg"), wit=("invalid",), split=0)
        # E: completeness clause
        add(placer, "complete 2x2", dims=(2, 2), nv=3, nres=1, dead=(1, 0),
            exc=(0, 1), nets="chain", cons=("loc",), complete=True, split=6)
        add(placer, "complete reservations 2x1", dims=(2, 1), nv=3, nres=2,
            exc=(1, 0), nets="fan", cons=("loc", "loc2", "resg", "resl"),
            complete=True, split=6)
        # everything at once (4 vertices for the deterministic placers)
        add(placer, "mix 2x2", dims=(2, 2),
            nv=3 if placer in ("rand", "sa") else 4, nres=2, dead=(1, 0),
            exc=(0, 0), nets="chain",
            cons=("loc", "resg", "resl2", "same12"), split=7)
        # F: degenerate machines
        add(placer, "1x1", dims=(1, 1), nv=3, nres=2, nets="chain",
            cons=("resg", "same12"), sparse=True, split=0)
        add(placer, "no vertices", dims=(2, 1), nv=0, nres=1,
            cons=("resg",), wit=("placed",), split=0)

    # custom orders
    add("sequential", "custom orders 2x2", dims=(2, 2), nv=3, nres=1,
        dead=(0, 1), exc=(1, 1), cons=("same12", "resg"), order="iter",
        split=6)
    add("sequential", "custom orders located", dims=(2, 1), nv=3, nres=2,
        exc=(0, 0), cons=("loc", "same12"), order="list", split=6)
    add("breadth_first", "custom chip order", dims=(2, 2), nv=3, nres=1,
        dead=(0, 0), nets="fan", cons=("same",), order="list", hperm=True,
        split=5)
    add("hilbert", "no breadth-first", dims=(2, 2), nv=3, nres=1,
        dead=(1, 1), exc=(0, 0), nets="chain", cons=("same", "resl"),
        bf=False, split=5)

    # the random placer and the annealer with real generators
    for s in (seed, seed + 1):
        add("rand", "real Random(%d)" % s, dims=(2, 2), nv=3, nres=1,
            dead=(0, 1), exc=(1, 1), cons=("same", "resg"), rng=s, split=5)
    add("rand", "real module-level generator", dims=(2, 1), nv=3, nres=2,
        exc=(1, 0), cons=("loc",), rng="module", mseed=seed, split=5)
    add("sa", "real Random(%d) complete anneal" % seed, dims=(2, 1), nv=3,
        nres=1, nets="chain", cons=("resg",), rng=seed, effort=0.1,
        stop=False, nowrap=True, wit=KB, split=5)
    add("sa", "real Random(%d) complete anneal 2x2" % (seed + 1),
        dims=(2, 2), nv=3, nres=1, dead=(0, 1), nets="fan",
        cons=("resl",), rng=seed + 1, effort=0.1, stop=False, wit=KB,
        split=5)

    # the annealer: trivial exits other than effort == 0
    add("sa", "effort>0 1x1", dims=(1, 1), nv=2, nres=1, nets="chain",
        effort=0.1, split=0)
    add("sa", "effort>0 no nets", dims=(2, 1), nv=2, nres=1, nets="none",
        cons=("resl",), effort=0.1, split=4)
    add("sa", "effort>0 nothing movable", dims=(2, 1), nv=2, nres=1,
        nets="chain", cons=("loc", "loc2"), effort=0.1, split=4)
    # the annealer: kernel construction (base case) + cut-short anneal
    add("sa", "anneal stopped after first temperature 2x1", dims=(2, 1),
        nv=2, nres=1, nets="chain", cons=("resg",), effort=0.1, nowrap=True,
        wit=KB, split=7)
    add("sa", "anneal stopped, fixed + merged 2x1", dims=(2, 1), nv=3,
        nres=1, nets="chain", cons=("loc", "same12"), effort=0.1,
        nowrap=True, wit=KB, split=7)

    # the Hilbert curve beyond 2x2 (levels 2 and up of the generator): with
    # the default capacity possibly 0 every vertex may have to go to the one
    # exceptional chip, wherever on the curve it lies
    for dims, exc in (((4, 4), (3, 2)), ((4, 4), (0, 3)), ((3, 3), (2, 1)),
                      ((5, 2), (4, 1))):
        add("hilbert", "complete %dx%d exception at %s" % (dims + (exc,)),
            dims=dims, nv=2, nres=1, exc=exc, nets="chain", complete=True,
            bf=(exc[0] % 2 == 0), split=4)
    for placer, dims, exc, dead in (("rcm", (3, 3), (2, 1), (1, 1)),
                                    ("rcm", (4, 2), (3, 0), None),
                                    ("breadth_first", (3, 3), (0, 2), (1, 0)),
                                    ("sequential", (3, 2), (2, 1), None),
                                    ("rand", (3, 2), (1, 1), (0, 0))):
        add(placer, "complete %dx%d exception at %s" % (dims + (exc,)),
            dims=dims, nv=2, nres=1, exc=exc, dead=dead, nets="chain",
            complete=True, split=4)
    # nets that list a vertex twice, the vertex in a same-chip group
    for placer in ("breadth_first", "hilbert", "rcm", "sa"):
        add(placer, "repeated net members, same-chip group", dims=(2, 2),
            nv=3, nres=1, nets="repeat", cons=("same", "resl"), hperm=(
                placer != "sa"), split=5)
    # two placers, one after the other, on the same caller-owned objects
    add("hilbert", "then rcm on the same objects: group member as sink",
        dims=(2, 2), nv=3, nres=1, nets="fan", cons=("same12", "resl"),
        again="rcm", wit=("placed", "placed-again"), split=5)
    add("sequential", "then sa on the same objects: chain groups",
        dims=(2, 1), nv=3, nres=1, nets="chain", cons=("chain",),
        again="sa", wit=("placed", "placed-again"), split=5)
    # the C kernel's Python side (marshalling into / out of the library)
    CK = ("placed", "c-kernel-moved")
    add("sa", "C kernel 2x1 two resources, exception", dims=(2, 1), nv=3,
        nres=2, exc=(1, 0), nets="chain", effort=0.1, nowrap=True, ck=True,
        sparse=True, wit=CK, split=6)
    add("sa", "C kernel 2x1 exception in another key order", dims=(2, 1),
        nv=2, nres=2, exc=(1, 0), exc_rev=True, nets="chain", effort=0.1,
        nowrap=True, ck=True, wit=CK, split=6)
    add("sa", "C kernel 2x2 dead, fixed, merged, reserved", dims=(2, 2),
        nv=3, nres=1, dead=(1, 1), nets="fan", cons=("loc", "same12", "resg"),
        effort=0.1, ck=True, wit=CK, split=7)

    # an anneal whose callback is called (and lets a temperature pass) with
    # a same-chip group among the movable vertices
    for k in range(3):
        add("sa", "anneal, callback called twice, same-chip group 3x2 "
            "Random(%d)" % (seed + k), dims=(3, 2), nv=5, nres=1,
            nets="chain", cons=("same12",), effort=0.5, stop=2,
            rng=seed + k, nowrap=True, wit=("placed",), split=4)

    # the annealer: inductive step
    ALL = ("accepted", "not-accepted", "moved", "reverted")

    def step(name, wit=ALL, split=7, **kw):
        us.append(Unit("sa-step " + name, h_step, kw, split=split,
                       witnesses=wit, path_timeout_s=120))

    step("1x1", dims=(1, 1), nv=2, wit=("not-accepted",), split=0)
    step("2x1 nv2", dims=(2, 1), nv=2, nres=2, nets="chain")
    step("2x1 nv3 fixed", dims=(2, 1), nv=3, nres=1, nets="fan", nfixed=1)
    # two vertices fixed (possibly to the same chip, next to each other in
    # its list) and a movable one that needs their room
    step("2x1 nv3 two fixed", dims=(2, 1), nv=3, nres=1, nets="fan",
         nfixed=2)
    step("2x2 nv2 dead", dims=(2, 2), nv=2, nres=1, nets="chain",
         dead=(1, 1))
    step("2x1 nv2 hot", dims=(2, 1), nv=2, nres=1, nets="self",
         temperature=1e100, wit=("accepted", "not-accepted", "moved"))
    step("2x1 nv2 far", dims=(2, 1), nv=2, nres=1, nets="chain",
         d_limit=2, nowrap_only=True)

    if thorough:
        for placer in seqlike + ("rand", "sa"):
            hp = placer in ("breadth_first", "hilbert", "rcm")
            n = 3 if placer in ("rand", "sa") else 4
            add(placer, "t plain 2x2 nv%d" % n, dims=(2, 2), nv=n, nres=2,
                dead=(0, 1), exc=(1, 1), nets="fan", sparse=True, hperm=hp,
                split=8)
            add(placer, "t plain 2x2 nv4 one resource", dims=(2, 2), nv=4,
                nres=1, exc=(0, 1), nets="chain", split=8)
            add(placer, "t mix reversed 2x2", dims=(2, 2), nv=3, nres=2,
                exc=(1, 1), nets="self",
                cons=("resg2", "sameloc", "resg", "resl"), rev=True, split=8)
            add(placer, "t same-chip chain 2x2", dims=(2, 2), nv=4, nres=1,
                dead=(0, 0), nets="chain", cons=("chain", "resl"), hperm=hp,
                split=8)
            add(placer, "t two groups 2x2", dims=(2, 2), nv=4, nres=1,
                exc=(1, 0), nets="fan", cons=("same", "dup23"), rev=True,
                split=8)
            add(placer, "t complete 2x2", dims=(2, 2), nv=n, nres=2,
                dead=(1, 1), exc=(0, 0), nets="fan",
                cons=("loc", "locb", "resg", "resl"), complete=True, split=8)
            add(placer, "t complete no dead", dims=(2, 2), nv=4, nres=1,
                exc=(1, 0), nets="chain", cons=("resg",), complete=True,
                split=8)
        add("sequential", "t custom orders nv4", dims=(2, 2), nv=4, nres=1,
            dead=(1, 0), exc=(0, 1), cons=("chain", "resg"), order="iter",
            split=8)
        for s in (seed + 2, seed + 3):
            add("rand", "real Random(%d)" % s, dims=(2, 2), nv=4, nres=2,
                exc=(1, 1), cons=("loc", "resg"), rng=s, split=6)
            add("sa", "real Random(%d) complete anneal" % s, dims=(2, 2),
                nv=4, nres=1, dead=(0, 1), nets="chain",
                cons=("resl", "loc"), rng=s, effort=0.1, stop=False,
                wit=KB, split=6)
        add("sa", "t anneal stopped 2x2", dims=(2, 2), nv=2, nres=1,
            dead=(0, 0), nets="chain", cons=(), effort=0.1, nowrap=True,
            wit=KB, split=8)
        step("t 2x2 nv3", dims=(2, 2), nv=3, nres=1, nets="chain", split=9)
        step("t 2x2 nv3 fixed dead", dims=(2, 2), nv=3, nres=2, nets="fan",
             nfixed=1, dead=(0, 1), split=9)
        step("t 2x1 nv4", dims=(2, 1), nv=4, nres=1, nets="chain",
             nfixed=1, split=9)
        step("t 3x1 nv2 near", dims=(3, 1), nv=2, nres=1, nets="chain",
             d_limit=1, split=8)
        step("t 2x2 nv2 hot", dims=(2, 2), nv=2, nres=2, nets="self",
             temperature=1e100, wit=("accepted", "not-accepted", "moved"),
             split=8)
    return us
