"""Symbolic clock, select() and UDP socket for rig.machine_control.scp_connection.

The *network* is a nondeterministic environment (DESIGN 5.2/5.3): every
outcome it may produce for a datagram is a `ctx.choose` alternative, so the
engine explores all of them within the fault budget; the *clock* is a symbolic
real, so one path covers every timing with the same order of events.

Assumptions (part of every claim that uses this model):
* time.time() is non-decreasing;
* select() returns as soon as a datagram is readable and otherwise only after
  strictly more than its timeout has passed (a clock that stands still would
  give Zeno runs in which no deadline ever expires);
* a datagram handed to send() is lost, or reaches the machine exactly once; a
  reply is lost, delivered once or (fault) twice, after an arbitrary delay and
  in arbitrary order relative to other replies.
"""
import struct as _struct

from sx.shims import struct as sstruct

RC_OK = 0x80
RC_SUM = 0x82          # retryable
RC_P2P_BUSY = 0x8d     # retryable
RC_CPU = 0x88          # fatal


class Reply(object):
    __slots__ = ("data", "req", "kind")

    def __init__(self, data, req, kind):
        self.data = data      # bytes / SymBytes as read by recv()
        self.req = req        # index into World.sent (None for stale)
        self.kind = kind      # "ok" | "retry" | "fatal" | "stale"


class World(object):
    """Clock + network + (optional) machine."""

    def __init__(self, ctx, machine=None, faults=0,
                 kinds=("lose_req", "lose_rep", "dup", "retry", "fatal"),
                 multi_recv=True, reorder=True, prompt=False, timed=True,
                 delays=None):
        # delays: how many times select may idle although a reply is in
        # flight (None = unlimited; each such delay forces a retransmission)
        self.delays = delays
        # timed=False: the clock is concrete (it advances only when select
        # idles, by its timeout + 1): for properties whose subject is not
        # timing, only the network's choices are explored
        self.timed = timed
        # prompt: a deterministic, fault-free network -- every reply arrives
        # at once and in order (used where the network is not the subject)
        self.prompt = prompt
        self.ctx = ctx
        self.machine = machine or ack_machine
        self.faults = faults
        self.kinds = tuple(kinds)
        self.multi_recv = multi_recv
        self.reorder = reorder
        self.now = 0
        self.sent = []          # (seq, data, time, executed)
        self.send_marks = []    # len(received) at the time of each send
        self.in_flight = []     # Reply objects not yet delivered
        self.ready = []         # Replies readable in the current select round
        self.received = []      # Replies handed to recv(), in order
        self.fault_log = []
        self.selects = 0

    # -- clock ---------------------------------------------------------
    def time(self):
        if not self.prompt and self.timed:
            self.now = self.now + self.ctx.real("dt", 0)
        return self.now

    def sleep(self, seconds):
        self.now = self.now + seconds

    # -- socket --------------------------------------------------------
    def send(self, data):
        rc_seq = sstruct.unpack_from("<2H", data, 10)
        seq = rc_seq[1]
        idx = len(self.sent)
        fates = ["deliver"]
        if self.faults > 0:
            fates += [k for k in self.kinds]
        fate = self.ctx.pick(fates) if len(fates) > 1 else "deliver"
        if fate != "deliver":
            self.faults -= 1
            self.fault_log.append((idx, fate))
        executed = fate in ("deliver", "lose_rep", "dup")
        self.sent.append((seq, data, self.now, executed))
        self.send_marks.append(len(self.received))
        if fate == "lose_req":
            return len(data)
        if fate == "retry":
            rc = RC_SUM if idx % 2 else RC_P2P_BUSY
            self.in_flight.append(Reply(error_reply(data, rc), idx, "retry"))
            return len(data)
        if fate == "fatal":
            self.in_flight.append(Reply(error_reply(data, RC_CPU), idx,
                                        "fatal"))
            return len(data)
        reply = self.machine(data)
        if fate == "lose_rep":
            return len(data)
        self.in_flight.append(Reply(reply, idx, "ok"))
        if fate == "dup":
            self.in_flight.append(Reply(reply, idx, "ok"))
        return len(data)

    def inject_stale(self, seq):
        """A late ok-reply to a command of an earlier burst."""
        data = (b"\0\0" + bytes(8) + _struct.pack("<2H", RC_OK, seq) +
                bytes(12))
        self.in_flight.append(Reply(data, None, "stale"))

    def select(self, r, w, x, timeout=None):
        self.selects += 1
        n = len(self.in_flight)
        if self.prompt:
            if n:
                self.ready = [self.in_flight.pop(0)]
                return list(r), [], []
            self.now = self.now + (timeout or 0) + 1
            return [], [], []
        # 0 = nothing arrives before the timeout; k = reply k-1 arrives
        may_idle = (n == 0 or self.delays is None or self.delays > 0)
        if n and not self.reorder:
            k = self.ctx.choose(2) if may_idle else 1
        elif may_idle:
            k = self.ctx.choose(n + 1)
        else:
            k = 1 + self.ctx.choose(n)
        if k == 0 and n and self.delays is not None:
            self.delays -= 1
        t = timeout if timeout is not None else 0
        if not self.timed:
            if k == 0:
                self.now = self.now + t + 1
                return [], [], []
            self.ready = [self.in_flight.pop(k - 1)]
            return list(r), [], []
        if k == 0:
            d = self.ctx.real("idle")
            self.ctx.assume(d > t)
            self.ctx.assume(d > 0)
            self.now = self.now + d
            return [], [], []
        d = self.ctx.real("wait", 0)
        self.ctx.assume(d <= t)
        self.now = self.now + d
        self.ready = [self.in_flight.pop(k - 1)]
        return list(r), [], []

    def recv(self, n):
        if not self.ready:
            if (self.multi_recv and self.in_flight and not self.prompt and
                    self.received and self.ctx.choose(2)):
                k = (self.ctx.choose(len(self.in_flight))
                     if self.reorder else 0)
                self.ready = [self.in_flight.pop(k)]
            else:
                raise IOError("EWOULDBLOCK")
        rep = self.ready.pop(0)
        self.received.append(rep)
        # a datagram socket hands over at most n bytes of the datagram and
        # discards the rest
        return rep.data[:n] if len(rep.data) > n else rep.data


def ack_machine(data):
    """The reply of a machine that just acknowledges: same sequence number,
    RC_OK, and the request's arg1 echoed so the reply identifies its
    command."""
    hdr = sstruct.unpack_from("<2H", data, 10)
    seq = hdr[1]
    arg1 = sstruct.unpack_from("<I", data, 14)[0] if len(data) >= 18 else 0
    return (b"\0\0" + bytes(8) + sstruct.pack("<2H", RC_OK, seq) +
            sstruct.pack("<I", arg1) + bytes(8))


def error_reply(data, rc):
    seq = sstruct.unpack_from("<2H", data, 10)[1]
    return b"\0\0" + bytes(8) + sstruct.pack("<2H", rc, seq) + bytes(12)


class FakeSocket(object):
    def __init__(self, world):
        self.world = world
        self.blocking = True
        self.peer = None
        self.closed = False

    def connect(self, addr):
        self.peer = addr

    def setblocking(self, flag):
        self.blocking = flag

    def settimeout(self, t):
        pass

    def send(self, data):
        return self.world.send(data)

    def recv(self, n):
        return self.world.recv(n)

    def close(self):
        self.closed = True


class Patch(object):
    """Rebind time/select/socket (and optionally struct) of
    rig.machine_control.scp_connection for the duration of a `with` block."""

    def __init__(self, world, struct_shim=False):
        self.world = world
        self.struct_shim = struct_shim

    def __enter__(self):
        import socket as real_socket
        from rig.machine_control import scp_connection as sc
        from rig.machine_control import packets as pk
        w = self.world
        self.sc, self.pk = sc, pk
        self.saved = (sc.time, sc.select, sc.socket, sc.struct, pk.struct)

        class T(object):
            time = staticmethod(w.time)
            sleep = staticmethod(w.sleep)

        class S(object):
            select = staticmethod(w.select)

        class K(object):
            AF_INET = real_socket.AF_INET
            SOCK_DGRAM = real_socket.SOCK_DGRAM
            error = real_socket.error
            timeout = real_socket.timeout

            @staticmethod
            def socket(*a, **k):
                return FakeSocket(w)
        sc.time, sc.select, sc.socket = T, S, K
        if self.struct_shim:
            sc.struct = sstruct
            pk.struct = sstruct
        return self

    def __exit__(self, *exc):
        sc, pk = self.sc, self.pk
        sc.time, sc.select, sc.socket, sc.struct, pk.struct = self.saved
        return False
