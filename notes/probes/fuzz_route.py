import random, sys, itertools
from rig.place_and_route.machine import Machine, Cores
from rig.place_and_route.route.ner import route
from rig.place_and_route.routing_tree import RoutingTree
from rig.place_and_route.exceptions import MachineHasDisconnectedSubregion
from rig.netlist import Net
from rig.links import Links
from rig.routing_table import Routes

def connected(m):
    chips = list(m)
    if not chips: return True
    # directed reachability both ways? use: every chip reachable from chips[0] and can reach chips[0]
    def reach(fw):
        seen={chips[0]}; st=[chips[0]]
        while st:
            x,y=st.pop()
            for l in Links:
                dx,dy=l.to_vector()
                if fw:
                    n=((x+dx)%m.width,(y+dy)%m.height)
                    ok=(x,y,l) in m and n in m
                else:
                    n=((x-dx)%m.width,(y-dy)%m.height)
                    ok= n in m and (n[0],n[1],l) in m
                if ok and n not in seen: seen.add(n); st.append(n)
        return seen
    return reach(True)==set(chips) and reach(False)==set(chips)

def check(tree, m, src, sinks_xy):
    seen=set()
    def rec(node):
        assert node.chip not in seen, ("dup", node.chip)
        seen.add(node.chip)
        assert node.chip in m, ("deadchip", node.chip)
        for r,c in node.children:
            if isinstance(c, RoutingTree):
                l=Links(r)
                dx,dy=l.to_vector()
                assert (node.chip[0],node.chip[1],l) in m, ("deadlink", node.chip, l)
                assert ((node.chip[0]+dx)%m.width,(node.chip[1]+dy)%m.height)==c.chip, ("nonadj", node.chip, l, c.chip)
                rec(c)
    assert tree.chip==src
    rec(tree)
    assert sinks_xy <= seen, "missing sink"

random.seed(int(sys.argv[1]))
bad=0; n=0; exc=0; falsedisc=0
for it in range(int(sys.argv[2])):
    w=random.choice([1,2,3,4]); h=random.choice([1,2,3,4])
    alllinks=[(x,y,l) for x in range(w) for y in range(h) for l in Links]
    dead=set(random.sample(alllinks, random.randint(0,min(6,len(alllinks)))))
    if random.random()<0.5:
        # make symmetric
        for (x,y,l) in list(dead):
            dx,dy=l.to_vector(); dead.add(((x+dx)%w,(y+dy)%h,l.opposite))
    dchips=set()
    if w*h>2 and random.random()<0.3:
        dchips={(random.randrange(w),random.randrange(h))}
    m=Machine(w,h,dead_chips=dchips,dead_links=dead)
    chips=list(m)
    if not chips: continue
    vs=[object() for _ in range(random.randint(2,5))]
    pl={v:random.choice(chips) for v in vs}
    net=Net(vs[0], vs[1:])
    n+=1
    try:
        r=route({v:{} for v in vs},[net],m,[],pl,radius=random.choice([0,1,20]))
    except MachineHasDisconnectedSubregion:
        exc+=1
        if connected(m): falsedisc+=1; print("FALSE DISCONNECT", w,h,dead,dchips,[pl[v] for v in vs])
        continue
    except Exception as e:
        bad+=1; print("EXC", type(e).__name__, e, w,h,sorted(dead),dchips,[pl[v] for v in vs]); continue
    try:
        check(r[net], m, pl[vs[0]], set(pl[v] for v in vs[1:]))
    except AssertionError as e:
        bad+=1; print("BAD", e, w,h,sorted(dead),dchips,[pl[v] for v in vs])
print(n,"runs",bad,"bad",exc,"disc-exc",falsedisc,"false-disc")
