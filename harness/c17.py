"""C17 -- library calls neither modify their arguments nor remember earlier
calls.

Two obligations, both decided inside single engine paths (one path = one
process history; the engine re-executes the harness per path in one
interpreter, so module state left behind by a path would also be seen by the
next one -- every harness therefore starts and ends with a scan of rig's
process-wide state, see `StateGuard`).

(a) ARGUMENTS UNCHANGED.  The real placers, allocator, router, table generator
    and minimisers run on arguments with symbolic contents built by the owning
    properties' builders (harness.c02._build, harness.c04.make_table,
    harness.c03.SymLinkSet; allocate's and route's argument builders are
    written here after c05/c03, whose harnesses build them inline).  A deep
    snapshot of the argument structure (container types, lengths, order of
    dict keys, set contents, the attributes of Machine / Net / constraint /
    RoutingTree objects, identity of every element) is taken before the call
    and compared afterwards -- also when the call raises a documented error;
    proxies are immutable, so an element is unchanged if it is the same
    object or the solver proves it equal.

(b) HISTORY INDEPENDENCE.  In ONE path: the probe P(p) runs on a *fresh copy*
    of its defining module (its source executed again: module globals,
    default arguments and class attributes as in a new interpreter) -> ref;
    then on the long-lived module -> r1; then an interfering call A(a) with
    its own symbolic variables, other shapes and (mostly) another function;
    then P(p) again on the very same argument objects -> r2 and on freshly
    rebuilt equal arguments -> r3.  ref == r1 == r2 == r3 is demanded
    structurally (proxies through the solver).  Every symbolic decision
    inside P is cached by the engine per path, so a later P can only fork
    differently -- and then differ on some path, with a concrete witness --
    if state leaked.  Random generators: placers get a fresh
    random.Random(seed) per call; route()'s module-level `random` is a
    replaying generator whose i-th draw is the same symbolic value in every
    run of the probe (all outcomes explored).
    Object histories: Machine() with default arguments mutated through its
    public attributes, separate BitField instances, MachineControllers created
    one after another with a context change on the first, Context /
    ContextMixin objects created with the default dictionary.
    In addition no result may BE (contain, by identity) one of rig's
    process-wide containers: a caller is free to change what it was given.
"""
import collections
import enum
import importlib
import itertools
import random as real_random
import sys
import types

from sx.runner import Unit
from sx.proxies import sand, is_sym, const, SymInt, SymBool, SymReal

PROPERTY = "C17"

META = {
    "bounds":
        "HISTORIES: at most 5 library calls per path -- the probe on a fresh "
        "copy of its module, the probe, ONE interfering call, the probe on "
        "the same objects, the probe on rebuilt equal arguments ('interferer "
        "first' units: the interfering call precedes the first probe on the "
        "long-lived module).  Every unit fixes the shapes named in its title "
        "and explores all values of the symbolic quantities and all "
        "structural choices inside; the cross product of shapes is NOT "
        "complete (quick: 74 units, ~12 000 paths; thorough: 125 units, "
        "~66 000 paths).  "
        "(a) ARGUMENT SNAPSHOTS.  Placers sequential, breadth_first, "
        "hilbert, rcm, rand (random.Random(seed)), sa (effort 0, "
        "random.Random(seed); one unit effort 0.1 stopped after the first "
        "temperature) on harness.c02 scenarios: machines 2x1 / 2x2 with 0-1 "
        "dead chip and 0-1 resource exception, 3 vertices (thorough: 4), "
        "1-2 resources, nets chain / fan / self-loop, constraint mixes "
        "{same-chip pair whose members are located + per-chip reservation, "
        "list reversed; same-chip pair + per-chip reservation; chained "
        "same-chip pairs + global reservation; location + global + "
        "per-chip reservation + same-chip pair (quick: sequential, rand, "
        "sa); location on a dead chip (InvalidConstraintError); thorough: "
        "group with a duplicated member + singleton + empty group, two "
        "disjoint groups}, sequential also with explicit vertex_order "
        "(every permutation) and chip_order lists; all demands, capacities "
        "and reservation bounds unbounded symbolic integers >= 0.  "
        "allocate: 1-3 vertices on one chip (optionally 1 more on a second "
        "chip with a resource exception), 1 resource (thorough: 2), 0-1 "
        "(thorough 2) global and 0-1 per-chip reservations, alignment 1 / 2 "
        "/ 4, constraint list in both orders, feasible placements and "
        "(one unit) arbitrary ones; symbolic demands, capacities, "
        "reservation bounds.  route: 2x1, 2x2, 3x3 mesh and 2x2, 2x3 torus "
        "(thorough: 3x3 torus, 4x3 mesh), source on every chip (or the "
        "chips named), 1-2 sinks on every multiset of chips, K <= 1 "
        "(thorough 2) symbolic dead links, radius 0 / 1 / 20, sinks with a "
        "2-core allocation / no entry in allocations / an endpoint "
        "constraint / an empty entry, optionally a second net back to the "
        "source, allocations argument given or omitted.  "
        "routing_tree_to_tables: trees made by the real router on a 2x2 "
        "(thorough 3x2) mesh, 2-3 nets with separate or shared source, a "
        "symbolic 32-bit key and mask per net (equal keys included: "
        "MultisourceRouteError).  Minimisers remove_default_routes."
        "minimise, ordered_covering.minimise, ordered_covering."
        "ordered_covering without aliases and with the aliases dictionary "
        "returned by a first, merging call, minimise_table, minimise_tables "
        "(three chips, dictionary of targets): harness.c04 tables of N = 2 "
        "or 3 entries differing in a window of W = 2 bits (rdr and "
        "thorough: W = 3), symbolic target in [0, N+1] or None.  (b) "
        "FUNCTION HISTORIES (probe | interferer): allocate | "
        "sequential.place, allocate, ordered_covering; sequential.place | "
        "allocate, rand.place, sequential.place on another machine; "
        "rand.place and sa.place effort 0 with random.Random(seed) | "
        "sequential.place, rand.place; ordered_covering.minimise, "
        "ordered_covering.ordered_covering without aliases (returned "
        "aliases dictionary compared), minimise_table (thorough: "
        "minimise_tables) | ordered_covering[.minimise] on a 2-entry table "
        "that merges, allocate; routing_tree_to_tables | allocate "
        "(thorough: route); route 3x3 mesh from (0,2) / (2,0) with 2 sinks "
        "on every multiset of chips, radius 20 resp. 0 | route on a 2x1 "
        "mesh radius 0 resp. a 2x2 torus radius 20 with 1 symbolic dead "
        "link, both orders (for 2 of the source / sink combinations "
        "the content of the hexagon memo decides the tree); route 3x3 "
        "K=1; route 2x3 torus K=1 "
        "radius 1 | route 3x3 radius 20; route 2x2 mesh K=1 | "
        "sequential.place; thorough: 4x3 and 4x4 meshes.  (b) OBJECT "
        "HISTORIES: Machine(w, h) defaults after each of 5 kinds of public "
        "mutation (and all at once) of an earlier default Machine and of a "
        "copy(), symbolic sizes, coordinates and amounts; two BitFields of "
        "lengths 8 and 12 (thorough also 16 / 8) with the same identifiers, "
        "3-4 fields each (untagged parent with a tagged child, untagged "
        "leaf, explicit symbolic length / start; tags given as None, as "
        "strings and as a caller-owned `set` object), symbolic 2-bit "
        "values, the second defined and laid out after step 0, 2, 4 "
        "(thorough: every step) of the first, each also alone (with tag "
        "sets of its own) before and after; in the interleaved run ONE "
        "set object is the tags argument of a parent field of the first "
        "bit field -- which afterwards gets a differently tagged child -- "
        "and of a leaf of the second; every set handed to add_field is "
        "compared with its copy after every later add_field, and the "
        "second bit field's get_tags / get_mask(tag=..) / UnknownTagError "
        "are read during its definition and again after the first is "
        "complete; 4 "
        "MachineControllers, the second one's context changed in 6 ways "
        "(update_current_context, an open `with mc(app_id=..)`, "
        "get_new_context, an explicit initial_context dictionary, "
        "application(), a closed `with`) with symbolic app_id, x, y, "
        "observed through get_context_arguments() and the app_id byte of "
        "a `signal` command on the wire; ContextMixin / Context objects "
        "changed in 4 ways, observed through get_context_arguments() and "
        "two contextual methods.",
    "stubs": [
        "every stub of the owning properties' builders that is used here: "
        "harness.c02._det_merged (MergedVertex hashes by creation order, one "
        "counter per call), harness.c03.SymLinkSet as machine.dead_links "
        "(one solver boolean per directed link, budget K) and, on a torus, "
        "harness.c03.make_wrap_stub for machine.has_wrap_around_links "
        "(proved equal to the real method by C03), harness.c08.Stubs (exact "
        "floor-log2 / non-forking max in rig.bitfield)",
        "the name `random` in rig.geometry and rig.place_and_route.route."
        "utils is rebound to a replaying generator: the i-th draw of a run "
        "is a solver real in [0, 1) (materialised only when a comparison "
        "needs it) or an explored choice, and the same value in every run "
        "of the same probe ('the same seeded generator'); the interfering "
        "call draws from its own generator",
        "MachineController units: models.machine.ControllerPatch + "
        "models.net.World(prompt=True) (fault-free prompt network, struct "
        "shim) and a machine model that acknowledges the `signal` command",
        "a 'fresh copy' of a module is its source file executed again into "
        "a new module object that is not registered in sys.modules; modules "
        "it imports are the long-lived ones",
    ],
    "assumptions": [
        "'unchanged' is structural equality of the argument graph with "
        "identity of the contained objects (Net, constraint, vertex "
        "objects) and order of lists, dict keys and (for unmodified sets: "
        "necessarily) set iteration; a nested container that is replaced by "
        "an equal one counts as unchanged",
        "'the same result' is structural equality of the returned value: "
        "placements as sets of (vertex, chip), allocations slice by slice, "
        "routing trees by traversal with the order of children, tables "
        "entry by entry (route, key, mask, sources), aliases dictionaries "
        "in iteration order, exceptions by type",
        "process-wide state is scanned generically: every list / dict / set "
        "/ deque that is a module attribute, a class attribute or a default "
        "argument value of a function or method of a loaded rig module is "
        "compared (deeply, elements by identity or solver equality) with "
        "its value when the worker process first looked, at the start and "
        "at the end of every path, reported and restored; the hexagon memo "
        "of ner.py may grow but every entry must equal "
        "geometry.concentric_hexagons(radius) and the memo function must "
        "return that for radius 0, 1, 2, 3, 20",
        "Machine's documented defaults: chip_resources {Cores: 18, SDRAM: "
        "128 MiB, SRAM: 32 KiB}, no exceptions, no dead chips or links; "
        "MachineController's documented default context {'app_id': 66}",
        "the preconditions of the owning properties (C02-C05, C08) on the "
        "argument values",
    ],
    "outside_claim": [
        "histories with more than one interfering call; interfering "
        "functions and argument shapes other than those listed",
        "state that is not reachable as a module attribute, class attribute "
        "or default argument of a rig module (closures, C extensions, the "
        "operating system), and state in modules rig imports (numpy, six, "
        "the standard library) other than the `random` generators named",
        "the breadth-first / Hilbert / RCM placers (and the annealer with "
        "same-chip constraints) as history PROBES: their vertex order "
        "depends on the iteration order of sets of vertex / MergedVertex "
        "objects, i.e. on string hashing and object addresses (documented "
        "as needing an OrderedDict for determinism); they are covered for "
        "argument mutation only",
        "state kept where the scan does not look and which therefore "
        "survives into the next path of the same worker process: a history "
        "dependence through such state is still found by the comparison "
        "with the fresh-module reference on the first path that meets it, "
        "but the engine's concrete replay then runs in the already "
        "polluted interpreter and the run ends INCONCLUSIVE (exit 2) "
        "instead of with a replayed violation",
        "build_machine / build_core_constraints (pure readers of a "
        "SystemInfo; covered by the generic state scan only as far as their "
        "default arguments go); wrapper() and place_and_route_wrapper() on "
        "problems other than the one of WrapperCall (three vertices, 2x2 "
        "mesh, sequential placer, symbolic SDRAM demands, every flag "
        "combination, default or own constraints list)",
        "boot() (C20), the C annealing kernel, complete anneals with a "
        "symbolic generator",
        "argument sizes beyond the bounds above",
    ],
}


# ======================================================================
# Deep snapshots
# ======================================================================
class N(object):
    """A snapshot node.  kind: leaf / seq / map / set / obj."""
    __slots__ = ("kind", "typ", "obj", "kids")

    def __init__(self, kind, typ, obj, kids):
        self.kind, self.typ, self.obj, self.kids = kind, typ, obj, kids


_SEQ = (list, tuple, collections.deque)
_LEAF = (bool, int, float, str, bytes, type(None), enum.Enum, SymInt, SymBool,
         SymReal)


def _attr_names(x):
    """Attribute names that make up the value of a rig object (None: treat
    the object as an opaque leaf compared by identity / ==)."""
    t = type(x)
    name = t.__name__
    mod = getattr(t, "__module__", "") or ""
    if name == "Machine" and mod.startswith("rig."):
        return ("width", "height", "chip_resources",
                "chip_resource_exceptions", "dead_chips", "dead_links")
    if name == "Net" and mod.startswith("rig."):
        return ("source", "sinks", "weight")
    if name == "RoutingTree" and mod.startswith("rig."):
        return ("chip", "children")
    if name == "SymLinkSet":
        # the solver-side bookkeeping (var / known / ndead) grows as links
        # are examined; the *set* is (fixed, K, dead_chips) + the booleans
        return ("fixed", "dead_chips", "K", "w", "h")
    if mod == "rig.place_and_route.constraints":
        return tuple(sorted(vars(x)))
    if name in ("Context",) and mod.startswith("rig."):
        return ("context_arguments",)
    return None


def snap(x, depth=0):
    if depth > 60:
        return N("leaf", None, x, None)
    if isinstance(x, _LEAF):
        return N("leaf", None, x, None)
    if isinstance(x, slice):
        return N("obj", slice, None, [(a, snap(getattr(x, a), depth + 1))
                                      for a in ("start", "stop", "step")])
    if isinstance(x, _SEQ):
        return N("seq", type(x), None, [snap(e, depth + 1) for e in x])
    if isinstance(x, dict):
        return N("map", type(x), None,
                 [(snap(k, depth + 1), snap(v, depth + 1))
                  for k, v in list(x.items())])
    if isinstance(x, (set, frozenset)):
        return N("set", type(x), None, [snap(e, depth + 1) for e in list(x)])
    names = _attr_names(x)
    if names is not None:
        return N("obj", type(x), x, [(a, snap(getattr(x, a), depth + 1))
                                     for a in names])
    return N("leaf", None, x, None)


def has_sym(n):
    if n.kind == "leaf":
        return is_sym(n.obj)
    if n.kind == "map":
        return any(has_sym(k) or has_sym(v) for k, v in n.kids)
    if n.kind == "obj":
        return any(has_sym(v) for _, v in n.kids)
    return any(has_sym(k) for k in n.kids)


def unsnap(n):
    """Rebuild the containers of a snapshot (leaves and objects shared)."""
    if n.kind == "leaf":
        return n.obj
    if n.kind == "seq":
        items = [unsnap(k) for k in n.kids]
        if n.typ is list:
            return items
        if hasattr(n.typ, "_fields"):
            return tuple.__new__(n.typ, items)
        return n.typ(items)
    if n.kind == "map":
        d = collections.OrderedDict() if issubclass(
            n.typ, collections.OrderedDict) else {}
        for k, v in n.kids:
            d[unsnap(k)] = unsnap(v)
        return d
    if n.kind == "set":
        return n.typ(unsnap(k) for k in n.kids)
    if n.typ is slice:
        return slice(*[unsnap(v) for _, v in n.kids])
    return n.obj


class Diff(object):
    def __init__(self):
        self.diffs = []     # structural differences (strings)
        self.conds = []     # (condition to prove, where)


def _leaf_cmp(x, y, where, out):
    if x is y:
        return
    if is_sym(x) or is_sym(y):
        num = (int, SymInt, SymBool, SymReal, float)
        if isinstance(x, num) and isinstance(y, num) and not (
                isinstance(x, bool) ^ isinstance(y, bool)):
            out.conds.append((x == y, where))
        else:
            out.diffs.append("%s: %r became %r" % (where, x, y))
        return
    try:
        same = type(x) is type(y) and bool(x == y)
    except Exception:
        same = False
    if not same:
        out.diffs.append("%s: %r became %r" % (where, x, y))


def compare(a, b, ident, where, out):
    """a: before / reference, b: after / other.  ident: contained rig
    objects must be the very same objects."""
    if a.kind != b.kind or (a.kind != "leaf" and a.typ is not b.typ):
        out.diffs.append("%s: %s %s became %s %s" % (
            where, a.kind, getattr(a.typ, "__name__", ""), b.kind,
            getattr(b.typ, "__name__", "")))
        return
    if a.kind == "leaf":
        _leaf_cmp(a.obj, b.obj, where, out)
    elif a.kind == "seq":
        if len(a.kids) != len(b.kids):
            out.diffs.append("%s: length %d became %d" % (
                where, len(a.kids), len(b.kids)))
            return
        for i, (x, y) in enumerate(zip(a.kids, b.kids)):
            compare(x, y, ident, "%s[%d]" % (where, i), out)
    elif a.kind == "set":
        if len(a.kids) != len(b.kids):
            out.diffs.append("%s: set of %d became set of %d" % (
                where, len(a.kids), len(b.kids)))
            return
        if not has_sym(a) and not has_sym(b):
            try:
                if set(unsnap(k) for k in a.kids) == set(
                        unsnap(k) for k in b.kids):
                    return
            except TypeError:
                pass
        for i, (x, y) in enumerate(zip(a.kids, b.kids)):
            compare(x, y, ident, "%s{%d}" % (where, i), out)
    elif a.kind == "map":
        if len(a.kids) != len(b.kids):
            out.diffs.append("%s: %d keys became %d" % (
                where, len(a.kids), len(b.kids)))
            return
        if not ident and not any(has_sym(k) for k, _ in a.kids + b.kids):
            # results: dictionaries with plain keys are compared per key
            try:
                bd = dict((unsnap(k), v) for k, v in b.kids)
                for k, v in a.kids:
                    kk = unsnap(k)
                    if kk not in bd:
                        out.diffs.append("%s: key %r missing" % (where, kk))
                    else:
                        compare(v, bd[kk], ident, "%s[%r]" % (where, kk),
                                out)
                return
            except TypeError:
                pass
        for i, ((k1, v1), (k2, v2)) in enumerate(zip(a.kids, b.kids)):
            compare(k1, k2, ident, "%s.key%d" % (where, i), out)
            compare(v1, v2, ident, "%s.value%d" % (where, i), out)
    else:
        if ident and a.obj is not b.obj:
            out.diffs.append("%s: object replaced" % where)
            return
        for (n1, v1), (n2, v2) in zip(a.kids, b.kids):
            if n1 != n2:
                out.diffs.append("%s: attributes differ" % where)
                return
            compare(v1, v2, ident, "%s.%s" % (where, n1), out)


def unchanged(n, x, depth=0):
    """Fast path of `compare(n, snap(x), True, ...)`: True if x certainly
    still is what snapshot n recorded (same structure, every leaf the same
    object or an equal plain value); False means 'look closer'."""
    k = n.kind
    if k == "leaf":
        o = n.obj
        if o is x:
            return True
        if is_sym(o) or is_sym(x) or type(o) is not type(x):
            return False
        try:
            return bool(o == x)
        except Exception:
            return False
    if k == "seq":
        if type(x) is not n.typ or len(x) != len(n.kids):
            return False
        for c, e in zip(n.kids, x):
            if not unchanged(c, e, depth + 1):
                return False
        return True
    if k == "map":
        if type(x) is not n.typ or len(x) != len(n.kids):
            return False
        for (ck, cv), (xk, xv) in zip(n.kids, list(x.items())):
            if not (unchanged(ck, xk, depth + 1) and
                    unchanged(cv, xv, depth + 1)):
                return False
        return True
    if k == "set":
        if type(x) is not n.typ or len(x) != len(n.kids):
            return False
        for c, e in zip(n.kids, list(x)):
            if not unchanged(c, e, depth + 1):
                return False
        return True
    if n.typ is slice:
        return (type(x) is slice and
                all(unchanged(c, getattr(x, a), depth + 1)
                    for a, c in n.kids))
    if n.obj is not x:
        return False
    return all(unchanged(c, getattr(x, a, None), depth + 1)
               for a, c in n.kids)


def prove_same(ctx, a, b, ident, label, what):
    """a, b: snapshot nodes.  One structural obligation and one solver
    obligation; returns True if both hold."""
    out = Diff()
    compare(a, b, ident, what, out)
    ok = ctx.prove(not out.diffs, label, out.diffs[:4])
    if out.conds:
        if not ctx.prove(sand(*[c for c, _ in out.conds]), label,
                         [w for _, w in out.conds][:6]):
            ok = False
            for c, w in out.conds:
                ctx.prove(c, label, w)
    return ok


def clone(x, memo=None):
    """Rebuild an argument graph: new containers and new rig objects holding
    the same leaves (proxies, vertices, sentinels)."""
    if memo is None:
        memo = {}
    if id(x) in memo:
        return memo[id(x)][1]
    if isinstance(x, _LEAF):
        return x
    if isinstance(x, slice):
        return slice(clone(x.start, memo), clone(x.stop, memo),
                     clone(x.step, memo))
    if isinstance(x, list):
        r = [clone(e, memo) for e in x]
    elif isinstance(x, tuple):
        items = [clone(e, memo) for e in x]
        r = (tuple.__new__(type(x), items) if hasattr(x, "_fields")
             else tuple(items))
    elif isinstance(x, dict):
        r = collections.OrderedDict() if isinstance(
            x, collections.OrderedDict) else {}
        for k, v in x.items():
            r[clone(k, memo)] = clone(v, memo)
    elif isinstance(x, (set, frozenset)):
        r = type(x)(clone(e, memo) for e in x)
    else:
        names = _attr_names(x)
        t = type(x)
        if names is None or t.__name__ == "SymLinkSet":
            return x
        if t.__name__ == "Machine":
            r = t(x.width, x.height, clone(x.chip_resources, memo),
                  clone(x.chip_resource_exceptions, memo),
                  clone(x.dead_chips, memo), set())
            r.dead_links = clone(x.dead_links, memo)
            if "has_wrap_around_links" in vars(x):
                r.has_wrap_around_links = x.has_wrap_around_links
        elif t.__name__ == "Net":
            r = t(x.source, clone(x.sinks, memo), x.weight)
        elif t.__name__ == "RoutingTree":
            r = t(x.chip, clone(x.children, memo))
        else:
            r = t(**dict((a, clone(getattr(x, a), memo)) for a in names))
    memo[id(x)] = (x, r)
    return r


class _Unordered(list):
    """Observation of a set with symbolic elements: evaluated under the
    model it is put into the canonical order used in concrete mode."""

    def _sx_evaluate(self, m):
        from sx.proxies import evaluate
        return sorted((evaluate(e, m) for e in self), key=repr)


def plain(x):
    """Observation form: containers of proxies / numbers / strings."""
    if is_sym(x) or isinstance(x, (bool, int, float, str, type(None))):
        return x
    if isinstance(x, enum.Enum):
        return str(x)
    if isinstance(x, slice):
        return ("slice", plain(x.start), plain(x.stop))
    if isinstance(x, dict):
        return [(plain(k), plain(v)) for k, v in x.items()]
    if isinstance(x, (list, tuple)):
        return [plain(e) for e in x]
    if isinstance(x, (set, frozenset)):
        items = [plain(e) for e in x]
        if has_sym(snap(items)):
            return _Unordered(items)
        return sorted(items, key=repr)
    return repr(x)


# ======================================================================
# Process-wide state of the rig package
# ======================================================================
_CONTAINERS = (list, dict, set, collections.deque, bytearray)
RIG_MODULES = (
    "rig.place_and_route", "rig.place_and_route.machine",
    "rig.place_and_route.constraints", "rig.place_and_route.utils",
    "rig.place_and_route.wrapper", "rig.place_and_route.routing_tree",
    "rig.place_and_route.place.utils", "rig.place_and_route.place.sequential",
    "rig.place_and_route.place.breadth_first",
    "rig.place_and_route.place.hilbert", "rig.place_and_route.place.rcm",
    "rig.place_and_route.place.rand", "rig.place_and_route.place.sa",
    "rig.place_and_route.place.sa.algorithm",
    "rig.place_and_route.place.sa.python_kernel",
    "rig.place_and_route.allocate.greedy", "rig.place_and_route.route.ner",
    "rig.place_and_route.route.utils", "rig.geometry", "rig.netlist",
    "rig.links", "rig.routing_table", "rig.routing_table.entries",
    "rig.routing_table.utils", "rig.routing_table.minimise",
    "rig.routing_table.ordered_covering",
    "rig.routing_table.remove_default_routes", "rig.bitfield",
    "rig.utils.contexts", "rig.machine_control",
    "rig.machine_control.machine_controller",
    "rig.machine_control.scp_connection", "rig.machine_control.consts",
    "rig.machine_control.boot", "rig.machine_control.struct_file",
    "rig.machine",
)
MEMO = "rig.place_and_route.route.ner._concentric_hexagons"
RADII = (0, 1, 2, 3, 20)


class Site(object):
    """One piece of process-wide state: a container object, where it hangs
    and what it held when first seen."""
    __slots__ = ("label", "get", "obj", "base")

    def __init__(self, label, get, obj):
        self.label, self.get, self.obj = label, get, obj
        self.base = snap(obj)


class StateGuard(object):
    """Finds the process-wide containers of every loaded rig module; `check`
    compares them with their first-seen value, reports and restores."""
    sites = None
    nmods = -1

    @classmethod
    def _functions(cls, owner, name, f, out, seen):
        f = getattr(f, "__func__", f)
        depth = 0
        while f is not None and depth < 4:
            if isinstance(f, types.FunctionType) and id(f) not in seen:
                seen.add(id(f))
                for i, d in enumerate(f.__defaults__ or ()):
                    if isinstance(d, _CONTAINERS):
                        out.append(Site(
                            "default argument #%d of %s.%s" % (i, owner,
                                                               name),
                            (lambda f=f, i=i: (f.__defaults__ or ())[i]
                             if len(f.__defaults__ or ()) > i else None), d))
                for k, d in (f.__kwdefaults__ or {}).items():
                    if isinstance(d, _CONTAINERS):
                        out.append(Site(
                            "default argument %s of %s.%s" % (k, owner, name),
                            (lambda f=f, k=k: (f.__kwdefaults__ or {}).get(
                                k)), d))
            f = getattr(f, "__wrapped__", None)
            depth += 1

    @classmethod
    def _class(cls, modname, klass, out, seen, depth=0):
        if id(klass) in seen or depth > 2:
            return
        seen.add(id(klass))
        if issubclass(klass, enum.Enum):
            return              # members are created once, by the metaclass
        owner = "%s.%s" % (modname, klass.__qualname__)
        for a, v in list(vars(klass).items()):
            if a.startswith("__") and a not in ("__init__", "__new__",
                                                "__call__"):
                continue
            if isinstance(v, _CONTAINERS):
                out.append(Site("class attribute %s.%s" % (owner, a),
                                (lambda k=klass, a=a: vars(k).get(a)), v))
            elif isinstance(v, type):
                if v.__module__ == modname:
                    cls._class(modname, v, out, seen, depth + 1)
            elif isinstance(v, property):
                for g in (v.fget, v.fset):
                    if g is not None:
                        cls._functions(owner, a, g, out, seen)
            else:
                cls._functions(owner, a, v, out, seen)

    @classmethod
    def scan(cls):
        for m in RIG_MODULES:
            try:
                importlib.import_module(m)
            except ImportError:
                pass
        mods = sorted((n, m) for n, m in sys.modules.items()
                      if m is not None and (n == "rig" or
                                            n.startswith("rig.")))
        if cls.sites is not None and len(mods) == cls.nmods:
            return cls.sites
        old = dict((s.label, s) for s in (cls.sites or ()))
        out, seen = [], set()
        for name, mod in mods:
            for a, v in list(vars(mod).items()):
                if a.startswith("__"):
                    continue
                if isinstance(v, _CONTAINERS):
                    out.append(Site("%s.%s" % (name, a),
                                    (lambda m=mod, a=a: vars(m).get(a)), v))
                elif isinstance(v, type):
                    if v.__module__ == name:
                        cls._class(name, v, out, seen)
                elif isinstance(v, types.FunctionType):
                    if v.__module__ == name:
                        cls._functions(name, a, v, out, seen)
        # a site keeps the value it had when it was FIRST seen
        cls.sites = [old.get(s.label, s) for s in out]
        cls.nmods = len(mods)
        return cls.sites

    @classmethod
    def _restore(cls, s):
        want = unsnap(s.base)
        o = s.obj
        if isinstance(o, dict):
            o.clear()
            o.update(want)
        elif isinstance(o, set):
            o.clear()
            o.update(want)
        elif isinstance(o, (list, bytearray)):
            o[:] = want
        elif isinstance(o, collections.deque):
            o.clear()
            o.extend(want)

    @classmethod
    def _memo_problems(cls, memo, probe):
        geometry = importlib.import_module("rig.geometry")
        ner = importlib.import_module("rig.place_and_route.route.ner")
        bad = []
        for k, v in list(memo.items()):
            ok = (type(k) is int and k >= 0 and isinstance(v, (tuple, list))
                  and list(v) == list(geometry.concentric_hexagons(k)))
            if not ok:
                bad.append("memo[%r] holds %d points" % (
                    k, len(v) if hasattr(v, "__len__") else -1))
        if probe and not bad:
            for r in RADII:
                got = ner.memoized_concentric_hexagons(r)
                if list(got) != list(geometry.concentric_hexagons(r)):
                    bad.append("memoized_concentric_hexagons(%d) returns %d "
                               "points, not concentric_hexagons(%d)" % (
                                   r, len(got), r))
        return bad

    @classmethod
    def check(cls, ctx, when, probe_memo=False):
        """Report (one obligation per kind) and restore."""
        sites = cls.scan()
        rebound, changed, conds = [], [], []
        for s in sites:
            cur = s.get()
            if cur is not s.obj:
                rebound.append(s.label)
                continue
            if s.label == MEMO:
                bad = cls._memo_problems(s.obj, probe_memo)
                if bad:
                    changed.append("%s: %s" % (s.label, "; ".join(bad[:3])))
                    s.obj.clear()
                continue
            if unchanged(s.base, s.obj):
                continue
            out = Diff()
            compare(s.base, snap(s.obj), True, s.label, out)
            if out.diffs:
                changed.append(out.diffs[0])
                cls._restore(s)
            elif out.conds:
                conds.append((s, out.conds))
        for s, cs in conds:
            if not ctx.prove(sand(*[c for c, _ in cs]),
                             "process-state-changed " + when,
                             [w for _, w in cs][:4]):
                cls._restore(s)
        ctx.prove(not rebound, "process-state-rebound " + when, rebound[:4])
        ctx.prove(not changed, "process-state-changed " + when, changed[:4])

    @classmethod
    def shared_with(cls, x, depth=0, where="result"):
        """Label of the process-wide container that `x` (or a container
        inside it) IS, else None: a result must not hand out rig's own
        state -- the caller may change what it was given."""
        if depth == 0:
            cls._ids = dict((id(s.obj), s.label) for s in cls.scan())
        if isinstance(x, _CONTAINERS) and id(x) in cls._ids:
            return "%s is %s" % (where, cls._ids[id(x)])
        if depth >= 4:
            return None
        kids = ()
        if isinstance(x, dict):
            kids = list(x.values())
        elif isinstance(x, (list, tuple, set, frozenset)):
            kids = list(x)
        for i, k in enumerate(kids[:64]):
            if isinstance(k, (dict, list, tuple, set, frozenset)):
                r = cls.shared_with(k, depth + 1, "%s[%d]" % (where, i))
                if r:
                    return r
        return None

    @classmethod
    def restore_all(cls):
        """Silently (in `finally`): leave nothing behind for the next path."""
        for s in cls.sites or ():
            try:
                if s.get() is not s.obj:
                    continue
                if s.label == MEMO:
                    if cls._memo_problems(s.obj, False):
                        s.obj.clear()
                    continue
                if not unchanged(s.base, s.obj):
                    cls._restore(s)
            except Exception:
                pass


class guarded(object):
    """with guarded(ctx): ... -- state scan before and after."""

    def __init__(self, ctx, probe_memo=False):
        self.ctx = ctx
        self.probe_memo = probe_memo

    def __enter__(self):
        StateGuard.check(self.ctx, "before the first call of the path")
        return self

    def __exit__(self, et, ev, tb):
        done = False
        try:
            if et is None:
                StateGuard.check(self.ctx, "by the calls of this path",
                                 self.probe_memo)
                done = True     # everything found was restored
        finally:
            if not done:
                StateGuard.restore_all()
        return False


# ======================================================================
# Fresh copies of modules
# ======================================================================
_CODE = {}


def fresh_module(name):
    """The module's source executed again: globals, default arguments and
    class attributes as in a new interpreter."""
    orig = importlib.import_module(name)
    path = orig.__file__
    code = _CODE.get(path)
    if code is None:
        with open(path, "rb") as f:
            code = _CODE[path] = compile(f.read(), path, "exec")
    mod = types.ModuleType(name)
    mod.__file__ = path
    mod.__package__ = orig.__package__
    exec(code, mod.__dict__)
    return mod


def live_module(name):
    return importlib.import_module(name)


# ======================================================================
# Replaying random generator (route)
# ======================================================================
class _Lazy(object):
    """base + (a solver real in [0, 1) created on demand); the real lives in
    a cell shared by everything derived from one draw, so that replaying the
    draw yields the same value."""
    __slots__ = ("cell", "base")

    def __init__(self, cell, base):
        self.cell = cell
        self.base = base

    def value(self):
        if self.cell[1] is None:
            ctx = self.cell[0]
            r = ctx.real("rnd", 0, 1)
            ctx.assume(r < 1)
            self.cell[1] = r
        return self.base + self.cell[1]

    def __add__(self, o):
        if isinstance(o, int) and isinstance(self.base, int):
            return _Lazy(self.cell, self.base + o)
        return self.value() + o
    __radd__ = __add__

    def _cmp(self, o, op):
        if (isinstance(o, _Lazy) and isinstance(self.base, int) and
                isinstance(o.base, int)):
            a, b = self.base, o.base
            if o.cell is self.cell:
                return {"lt": a < b, "le": a <= b, "gt": a > b,
                        "ge": a >= b}[op]
            if a != b:
                return {"lt": a < b, "le": a < b, "gt": a > b,
                        "ge": a > b}[op]
        ov = o.value() if isinstance(o, _Lazy) else o
        v = self.value()
        return {"lt": lambda: v < ov, "le": lambda: v <= ov,
                "gt": lambda: v > ov, "ge": lambda: v >= ov}[op]()

    def __lt__(self, o): return self._cmp(o, "lt")
    def __le__(self, o): return self._cmp(o, "le")
    def __gt__(self, o): return self._cmp(o, "gt")
    def __ge__(self, o): return self._cmp(o, "ge")
    __hash__ = None


class ReplayRandom(object):
    """Stands in for the module `random`: `rewind()` makes the next run see
    the same sequence of draws (the same seeded generator)."""

    def __init__(self, ctx):
        self.ctx = ctx
        self.tape = []
        self.pos = 0
        self.desync = []

    def rewind(self):
        self.pos = 0

    def _draw(self, kind, make):
        if self.pos < len(self.tape):
            k, v = self.tape[self.pos]
            if k != kind:
                # the run asks for other draws than the recorded one: it
                # already behaves differently
                self.desync.append((self.pos, k, kind))
                v = make()
                self.tape[self.pos:] = [(kind, v)]
        else:
            v = make()
            self.tape.append((kind, v))
        self.pos += 1
        return v

    def random(self):
        return _Lazy(self._draw(("random",),
                                lambda: [self.ctx, None]), 0)

    def randint(self, a, b):
        return a + self._draw(("randint", a, b),
                              lambda: self.ctx.choose(b - a + 1))

    def choice(self, seq):
        return seq[self._draw(("choice", len(seq)),
                              lambda: self.ctx.choose(len(seq)))]

    def __getattr__(self, name):
        from sx.engine import Unsupported
        raise Unsupported("random.%s is not modelled" % name)


class route_rng(object):
    def __init__(self, rng):
        self.rng = rng

    def __enter__(self):
        self.geometry = importlib.import_module("rig.geometry")
        self.rutils = importlib.import_module(
            "rig.place_and_route.route.utils")
        self.saved = (self.geometry.random, self.rutils.random)
        self.geometry.random = self.rng
        self.rutils.random = self.rng
        return self.rng

    def __exit__(self, *exc):
        self.geometry.random, self.rutils.random = self.saved
        return False


# ======================================================================
# Calls: argument builders, runners, result normalisers
# ======================================================================
def _pmod(name):
    return "rig.place_and_route.place." + (
        "sa.algorithm" if name == "sa" else name)


class Call(object):
    """One library call: `args` (dict name -> argument object, the things
    that must stay unchanged), `run(module)` -> normalised outcome."""
    module = None           # name of the defining module
    documented = ()         # names of documented exceptions

    def run(self, mod):
        self.shared = None
        try:
            r = self._invoke(mod)
        except Exception as e:
            return (type(e).__name__,)
        self.shared = StateGuard.shared_with(r)
        return ("ok", self._norm(r))

    def rebuilt(self):
        c = object.__new__(type(self))
        c.__dict__.update(self.__dict__)
        c.args = clone(self.args)
        return c


class PlaceCall(Call):
    documented = ("InsufficientResourceError", "InvalidConstraintError")

    def __init__(self, ctx, placer, seed=0, order=None, effort=0.0, **sc):
        from harness.c02 import _build
        self.placer = placer
        self.module = _pmod(placer)
        self.seed = seed
        self.effort = effort
        p = dict(dims=(2, 1), nv=3, nres=1, dead=None, exc=None,
                 nets="none", cons=(), sparse=False, rev=False, nowrap=False)
        p.update(sc)
        s = _build(ctx, tuple(p["dims"]), p["nv"], p["nres"], p["dead"],
                   p["exc"], p["nets"], tuple(p["cons"]), p["sparse"],
                   p["rev"], p["nowrap"])
        self.sc = s
        self.args = collections.OrderedDict(
            vertices_resources=s.vr, nets=s.nets, machine=s.machine,
            constraints=s.constraints)
        if placer == "sequential" and order is not None:
            perms = list(itertools.permutations(s.vertices))
            self.args["vertex_order"] = list(ctx.pick(perms))
            chips = list(s.chips) + [(s.dims[0], 0)]
            if ctx.choose(2):
                chips.reverse()
            self.args["chip_order"] = chips

    def _invoke(self, mod):
        from harness.c02 import _det_merged, _mod
        a = self.args
        kw = dict((k, a[k]) for k in ("vertex_order", "chip_order")
                  if k in a)
        if self.placer in ("rand", "sa"):
            kw["random"] = real_random.Random(self.seed)
        if self.placer == "sa":
            kw["effort"] = self.effort
            kw["kernel"] = _mod("sa.python_kernel").PythonKernel
            kw["kernel_kwargs"] = {"no_warn": True}
            if self.effort:
                kw["on_temperature_change"] = lambda *a: False
        with _det_merged():
            return mod.place(a["vertices_resources"], a["nets"],
                             a["machine"], a["constraints"], **kw)

    def _norm(self, p):
        return sorted(((repr(v), c) for v, c in p.items()))


class AllocCall(Call):
    """Arguments of allocate, after harness.c05.h_alloc."""
    module = "rig.place_and_route.allocate.greedy"
    documented = ("InsufficientResourceError",)

    def __init__(self, ctx, tag="", nv=2, nres=1, ng=1, nl=0, alignment=1,
                 second_chip=False, feasible=True):
        from rig.place_and_route import Machine, Cores, SDRAM
        from rig.place_and_route.constraints import (
            ReserveResourceConstraint, AlignResourceConstraint)
        from rig.netlist import Net
        from sx.proxies import sor
        resources = [Cores, SDRAM][:nres]
        chipA, chipB = (0, 0), (1, 0)
        cap = {chipA: {r: ctx.int(tag + "capA", 0) for r in resources}}
        exceptions = {}
        if second_chip:
            cap[chipB] = {r: ctx.int(tag + "capB", 0) for r in resources}
            exceptions[chipB] = dict(cap[chipB])
        machine = Machine(2, 1, chip_resources=dict(cap[chipA]),
                          chip_resource_exceptions=exceptions)
        vertices = ["%sv%d" % (tag, i) for i in range(nv)]
        placements = collections.OrderedDict((v, chipA) for v in vertices)
        if second_chip:
            vertices.append(tag + "w")
            placements[tag + "w"] = chipB
        vr = collections.OrderedDict()
        for v in vertices:
            vr[v] = {r: ctx.int(tag + "dem", 0) for r in resources}
        constraints = []
        reserved = {c: {r: [] for r in resources} for c in cap}
        for r in resources:
            for k in range(ng):
                s = ctx.int(tag + "gs", 0)
                e = ctx.int(tag + "ge", 0)
                ctx.assume(s <= e)
                for c in cap:
                    ctx.assume(e <= cap[c][r])
                    reserved[c][r].append((s, e))
                constraints.append(ReserveResourceConstraint(r, slice(s, e)))
            for k in range(nl):
                s = ctx.int(tag + "ls", 0)
                e = ctx.int(tag + "le", 0)
                ctx.assume(sand(s <= e, e <= cap[chipA][r]))
                reserved[chipA][r].append((s, e))
                constraints.append(
                    ReserveResourceConstraint(r, slice(s, e), chipA))
        for c in cap:
            for r in resources:
                rs = reserved[c][r]
                for i in range(len(rs)):
                    for j in range(i + 1, len(rs)):
                        ctx.assume(sor(rs[i][1] <= rs[j][0],
                                       rs[j][1] <= rs[i][0],
                                       rs[i][0] == rs[i][1],
                                       rs[j][0] == rs[j][1]))
        if alignment != 1:
            constraints.append(AlignResourceConstraint(resources[0],
                                                       alignment))
        if len(constraints) > 1 and ctx.choose(2):
            constraints.reverse()
        if feasible:
            for c in cap:
                for r in resources:
                    total = sum((vr[v].get(r, 0) for v in vertices
                                 if placements[v] == c), 0)
                    res_total = sum((e - s for s, e in reserved[c][r]), 0)
                    ctx.assume(total <= cap[c][r] - res_total)
        nets = [Net(vertices[0], list(vertices[1:]))] if nv > 1 else []
        self.args = collections.OrderedDict(
            vertices_resources=vr, nets=nets, machine=machine,
            constraints=constraints, placements=placements)

    def _invoke(self, mod):
        a = self.args
        return mod.allocate(a["vertices_resources"], a["nets"], a["machine"],
                            a["constraints"], a["placements"])

    def _norm(self, al):
        return [(repr(v), [(str(r), s.start, s.stop, s.step)
                           for r, s in sorted(al[v].items(),
                                              key=lambda i: str(i[0]))])
                for v in sorted(al, key=repr)]


class RouteCall(Call):
    """Arguments of route(), after harness.c03.h_route."""
    module = "rig.place_and_route.route.ner"
    documented = ("MachineHasDisconnectedSubregion",)
    KINDS = ("cores2", "absent", "endpoint", "none")

    def __init__(self, ctx, tag="", w=2, h=2, torus=False, K=1, radius=20,
                 nsinks=2, src=None, two_nets=False, kinds=None,
                 sink_chips=None, no_alloc=False, alloc_default=False):
        from harness.c03 import SymLinkSet, off_edge_links, make_wrap_stub
        from rig.place_and_route.machine import Machine, Cores
        from rig.place_and_route.constraints import RouteEndpointConstraint
        from rig.routing_table import Routes
        from rig.netlist import Net
        kinds = kinds or self.KINDS
        chips = [(x, y) for x in range(w) for y in range(h)]
        placements = collections.OrderedDict()
        srcs = chips if src is None else [tuple(c) for c in src]
        placements[tag + "src"] = ctx.pick(srcs)
        sinks = ["%ss%d" % (tag, i) for i in range(nsinks)]
        lowest = 0
        menu = chips if sink_chips is None else [tuple(c)
                                                 for c in sink_chips]
        for s in sinks:
            i = lowest + ctx.choose(len(menu) - lowest)
            lowest = i
            placements[s] = menu[i]
        nets = [Net(tag + "src", list(sinks))]
        if two_nets:
            nets.append(Net(sinks[0], [tag + "src"]))
        allocations = {}
        constraints = []
        for i, v in enumerate(sinks + [tag + "src"]):
            kd = kinds[i % len(kinds)]
            if kd == "cores2":
                allocations[v] = {Cores: slice(1, 3)}
            elif kd == "endpoint":
                allocations[v] = {Cores: slice(5, 6)}
                constraints.append(RouteEndpointConstraint(v, Routes.north))
            elif kd == "none":
                allocations[v] = {}
            # "absent": the vertex is not mentioned in allocations
        fixed = set() if torus else set(off_edge_links(w, h))
        machine = Machine(w, h)
        deadset = SymLinkSet(ctx, w, h, K, fixed, set())
        machine.dead_links = deadset
        if torus:
            machine.has_wrap_around_links = make_wrap_stub(ctx, machine,
                                                           deadset)
        self.radius = radius
        self.rng = ReplayRandom(ctx)
        self.args = collections.OrderedDict(
            vertices_resources=dict((v, {}) for v in placements), nets=nets,
            machine=machine, constraints=constraints, placements=placements)
        if alloc_default:
            # the caller keeps its allocations in a mapping that creates
            # entries when read with a subscript
            allocations = collections.defaultdict(dict, allocations)
        if not no_alloc:
            self.args["allocations"] = allocations

    def _invoke(self, mod):
        a = self.args
        self.rng.rewind()
        kw = {"allocations": a["allocations"]} if "allocations" in a else {}
        with route_rng(self.rng):
            return mod.route(a["vertices_resources"], a["nets"],
                             a["machine"], a["constraints"], a["placements"],
                             radius=self.radius, **kw)

    def _norm(self, routes):
        from harness.c03 import _serialise
        from rig.place_and_route.routing_tree import RoutingTree
        nets = self.args["nets"]
        return [len(routes)] + [
            _serialise(routes[n], RoutingTree) if n in routes else None
            for n in nets]


class WrapperCall(Call):
    """wrapper() / place_and_route_wrapper(): three vertices on a 2x2 mesh
    (SDRAM demands symbolic), the sequential placer; the flags of wrapper()
    chosen by the unit; the constraints left to the default or given as the
    caller's own list."""
    module = "rig.place_and_route.wrapper"
    documented = ("InsufficientResourceError",)

    def __init__(self, ctx, tag="", which="wrapper", flags=(True, True),
                 own=False):
        from rig.place_and_route.machine import Machine, Cores, SDRAM, SRAM
        from rig.place_and_route.constraints import AlignResourceConstraint
        from rig.netlist import Net
        self.which, self.flags = which, tuple(flags)
        names = [tag + "v%d" % i for i in range(3)]
        vr = collections.OrderedDict(
            (v, {Cores: 1, SDRAM: ctx.int("%ssd%d" % (tag, i), 0, 9)})
            for i, v in enumerate(names))
        nets = [Net(names[0], [names[1], names[2]])]
        self.args = collections.OrderedDict(
            vertices_resources=vr,
            vertices_applications=dict((v, "app.aplx") for v in names),
            nets=nets, net_keys={nets[0]: (0x100, 0xffffff00)})
        if which == "wrapper":
            self.args["machine"] = Machine(
                2, 2, chip_resources={Cores: 3, SDRAM: 64, SRAM: 16})
        else:
            mcm = importlib.import_module(
                "rig.machine_control.machine_controller")
            consts = importlib.import_module("rig.machine_control.consts")
            from rig.links import Links
            si = mcm.SystemInfo(2, 2)
            for x in range(2):
                for y in range(2):
                    si[(x, y)] = mcm.ChipInfo(
                        num_cores=3,
                        core_states=[consts.AppState.run,
                                     consts.AppState.idle,
                                     consts.AppState.idle],
                        working_links=set(
                            l for l in Links
                            if 0 <= x + l.to_vector()[0] < 2 and
                            0 <= y + l.to_vector()[1] < 2),
                        largest_free_sdram_block=64,
                        largest_free_sram_block=16,
                        largest_free_rtr_mc_block=1024,
                        ethernet_up=(x, y) == (0, 0),
                        ip_address="10.0.0.1",
                        local_ethernet_chip=(0, 0))
            self.args["system_info"] = si
        if own:
            self.args["constraints"] = [AlignResourceConstraint(SDRAM, 2)]
        self.rng = ReplayRandom(ctx)

    def _invoke(self, mod):
        a = self.args
        self.rng.rewind()
        seq = live_module("rig.place_and_route.place.sequential")
        kw = {"place": seq.place}
        if "constraints" in a:
            kw["constraints"] = a["constraints"]
        with route_rng(self.rng):
            if self.which == "wrapper":
                return mod.wrapper(
                    a["vertices_resources"], a["vertices_applications"],
                    a["nets"], a["net_keys"], a["machine"],
                    reserve_monitor=self.flags[0],
                    align_sdram=self.flags[1], **kw)
            return mod.place_and_route_wrapper(
                a["vertices_resources"], a["vertices_applications"],
                a["nets"], a["net_keys"], a["system_info"], **kw)

    def rebuilt(self):
        c = Call.rebuilt(self)
        si0 = self.args.get("system_info")
        if si0 is not None:
            # (clone() turns dictionary subclasses into plain dictionaries)
            si = type(si0)(si0.width, si0.height)
            for k, v in si0.items():
                si[k] = v._replace(core_states=list(v.core_states),
                                   working_links=set(v.working_links))
            c.args["system_info"] = si
        return c

    def _norm(self, r):
        pl, al, amap, tables = r
        return [sorted(pl.items()),
                sorted((v, sorted((repr(res), sl.start, sl.stop)
                                  for res, sl in d.items()))
                       for v, d in al.items()),
                sorted((app, sorted((c, sorted(cs)) for c, cs in t.items()))
                       for app, t in amap.items()),
                sorted((c, _norm_table(t)) for c, t in tables.items())]


class TablesCall(Call):
    """routing_tree_to_tables on trees made by the real router."""
    module = "rig.routing_table.utils"
    documented = ("MultisourceRouteError",)

    def __init__(self, ctx, tag="", w=2, h=2, nnets=2, share=False):
        from rig.place_and_route.machine import Machine, Cores
        from rig.place_and_route.route.ner import route
        from rig.netlist import Net
        from harness.c03 import off_edge_links
        chips = [(x, y) for x in range(w) for y in range(h)]
        vs = ["%st%d" % (tag, i) for i in range(len(chips))]
        placements = dict(zip(vs, chips))
        nets = []
        for i in range(nnets):
            src = vs[(0 if share else i) % len(vs)]
            sinks = [vs[(i + 1) % len(vs)], vs[(i + 2) % len(vs)]]
            nets.append(Net(src, sinks))
        allocations = dict((v, {Cores: slice(1 + i % 2, 3)})
                           for i, v in enumerate(vs))
        machine = Machine(w, h, dead_links=set(off_edge_links(w, h)))
        state = real_random.getstate()
        real_random.seed(12345)
        try:
            routes = route(dict((v, {}) for v in vs), nets, machine, [],
                           placements, allocations)
        finally:
            real_random.setstate(state)
        net_keys = collections.OrderedDict()
        for n in nets:
            net_keys[n] = (ctx.bv(tag + "key", 32), ctx.bv(tag + "mask", 32))
        self.nets = nets
        self.args = collections.OrderedDict(routes=routes, net_keys=net_keys)

    def _invoke(self, mod):
        return mod.routing_tree_to_tables(self.args["routes"],
                                          self.args["net_keys"])

    def _norm(self, tables):
        return sorted(((c, _norm_table(t)) for c, t in tables.items()))

    def rebuilt(self):
        c = Call.rebuilt(self)
        return c


def _norm_table(t):
    return [(sorted(int(r) for r in e.route), e.key, e.mask,
             sorted(-1 if s is None else int(s) for s in e.sources))
            for e in t]


class MinCall(Call):
    """The minimisers on harness.c04 tables."""
    documented = ("MinimisationFailedError",)
    MODS = {"rdr": "rig.routing_table.remove_default_routes",
            "oc": "rig.routing_table.ordered_covering",
            "oc_raw": "rig.routing_table.ordered_covering",
            "oc_aliases": "rig.routing_table.ordered_covering",
            "chain": "rig.routing_table.minimise",
            "tables": "rig.routing_table.minimise"}

    def __init__(self, ctx, which, n=3, W=2, routes="AAB", srcs="ddu",
                 discipline="orthogonal", target="sym"):
        from harness.c04 import make_table, _target
        self.which = which
        self.module = self.MODS[which]
        table = make_table(ctx, n, W, routes, srcs, discipline, False)
        t = _target(ctx, n, target)
        self.args = collections.OrderedDict(table=table, target=t)
        if which == "tables":
            other = make_table(ctx, 1, 1, "D", "d", "any", False)
            self.args = collections.OrderedDict(
                routing_tables=collections.OrderedDict(
                    [((0, 0), table), ((1, 0), other), ((2, 0), [])]),
                target_lengths={(0, 0): t, (1, 0): None, (2, 0): t})
        elif which == "oc_aliases":
            # an aliases dictionary as a first, merging call returns it
            oc = live_module(self.module)
            t1, al = oc.ordered_covering(table, n - 1 if n > 1 else None,
                                         no_raise=True)
            self.merged = len(t1) < n
            self.args = collections.OrderedDict(table=t1, target=None,
                                                aliases=al)

    def _invoke(self, mod):
        a = self.args
        w = self.which
        if w == "rdr":
            return mod.minimise(a["table"], a["target"])
        if w == "oc":
            return mod.minimise(a["table"], a["target"])
        if w == "oc_raw":
            return mod.ordered_covering(a["table"], a["target"])
        if w == "oc_aliases":
            return mod.ordered_covering(a["table"], a["target"],
                                        aliases=a["aliases"])
        if w == "chain":
            return mod.minimise_table(a["table"], a["target"])
        return mod.minimise_tables(a["routing_tables"], a["target_lengths"])

    def _norm(self, r):
        if self.which in ("oc_raw", "oc_aliases"):
            table, aliases = r
            return (_norm_table(table), list(aliases.items()))
        if self.which == "tables":
            return sorted(((c, _norm_table(t)) for c, t in r.items()))
        return _norm_table(r)


def make_call(ctx, spec, tag=""):
    spec = dict(spec)
    f = spec.pop("f")
    if f == "place":
        return PlaceCall(ctx, **spec)
    if f == "allocate":
        return AllocCall(ctx, tag=tag, **spec)
    if f == "route":
        return RouteCall(ctx, tag=tag, **spec)
    if f == "tables":
        return TablesCall(ctx, tag=tag, **spec)
    if f == "min":
        return MinCall(ctx, **spec)
    if f == "wrapper":
        return WrapperCall(ctx, tag=tag, **spec)
    raise ValueError(f)


# ======================================================================
# (a) arguments unchanged
# ======================================================================
def h_args(ctx, spec, label):
    with guarded(ctx, probe_memo=(spec["f"] == "route")):
        call = make_call(ctx, spec)
        before = snap(call.args)
        out = call.run(live_module(call.module))
        ctx.observe(plain(out))
        if out[0] == "ok":
            ctx.witness("returned")
        elif out[0] in call.documented:
            ctx.witness("raised")
            ctx.witness(out[0])
        else:
            # not this property's subject (C02-C05 demand it); the
            # arguments must be intact all the same
            ctx.witness("unexpected")
            ctx.prove(False, label + "-unexpected-exception", out[0])
        if getattr(call, "merged", False):
            ctx.witness("aliases")
        ctx.prove(call.shared is None, label + "-result-is-shared-state",
                  call.shared)
        prove_same(ctx, before, snap(call.args), True,
                   label + "-argument-modified", "arguments")
        rng = getattr(call, "rng", None)
        if rng is not None and rng.tape:
            ctx.witness("tie-break")


# ======================================================================
# (b) history independence of function calls
# ======================================================================
def h_hist(ctx, probe, interferer, label, a_first=False):
    with guarded(ctx, probe_memo=("route" in (probe["f"],
                                              interferer["f"]))):
        P = make_call(ctx, probe, tag="p")
        before = snap(P.args)
        ref = P.run(fresh_module(P.module))
        ctx.observe("ref", plain(ref))
        ctx.witness("probe-" + ("returned" if ref[0] == "ok" else "raised"))
        if ref[0] != "ok" and ref[0] not in P.documented:
            ctx.prove(False, label + "-unexpected-exception", ref[0])
        ref_s = snap(ref)
        results = []
        if not a_first:
            results.append(("first call on the long-lived module",
                            P.run(live_module(P.module))))
        A = make_call(ctx, interferer, tag="a")
        ra = A.run(live_module(A.module))
        ctx.observe("interferer", plain(ra))
        ctx.witness("interferer-" + ("returned" if ra[0] == "ok"
                                     else "raised"))
        if getattr(A, "which", None) in ("oc", "oc_raw") and ra[0] == "ok":
            n = len(A.args["table"])
            got = ra[1][0] if A.which == "oc_raw" else ra[1]
            if len(got) < n:
                ctx.witness("interferer-merged")
        results.append(("after the interfering call, same objects",
                        P.run(live_module(P.module))))
        P2 = P.rebuilt()
        results.append(("after the interfering call, rebuilt arguments",
                        P2.run(live_module(P.module))))
        for what, r in results:
            prove_same(ctx, ref_s, snap(r), False,
                       label + "-depends-on-history", what)
        shared = [c.shared for c in (P, P2, A) if c.shared]
        ctx.prove(not shared, label + "-result-is-shared-state", shared[:2])
        rng = getattr(P, "rng", None)
        if rng is not None:
            ctx.prove(not rng.desync, label + "-depends-on-history",
                      ("random draws differ", rng.desync[:2]))
            if rng.tape:
                ctx.witness("tie-break")
        # the probe's arguments survived all four calls
        prove_same(ctx, before, snap(P.args), True,
                   label + "-argument-modified", "arguments")


# ======================================================================
# (b) Machine's default arguments
# ======================================================================
def _machine_is_default(ctx, m, w, h, label, what):
    from rig.place_and_route import Cores, SDRAM, SRAM
    want = snap(collections.OrderedDict([
        ("width", w), ("height", h),
        ("chip_resources", {Cores: 18, SDRAM: 128 * 1024 * 1024,
                            SRAM: 32 * 1024}),
        ("chip_resource_exceptions", {}), ("dead_chips", set()),
        ("dead_links", set())]))
    got = snap(collections.OrderedDict(
        (a, getattr(m, a)) for a in (
            "width", "height", "chip_resources", "chip_resource_exceptions",
            "dead_chips", "dead_links")))
    return prove_same(ctx, want, got, False, label, what)


def h_default_kernel(ctx):
    """sa.place with the kernel it chooses itself (the compiled one where
    installed), asked to place quantities the compiled kernel cannot take
    (non-integer, or beyond a C int) and then an ordinary problem: whatever
    the first call does, it leaves no trace in the process (the scan at the
    end of the path) and the second call's result is that of a first call."""
    import random as real_random
    from rig.place_and_route import Machine, Cores, SDRAM
    from rig.place_and_route.place import sa
    from rig.netlist import Net
    with guarded(ctx):
        odd = ctx.pick(({Cores: 1, SDRAM: 0.5}, {Cores: 1, SDRAM: 2 ** 40}))
        vs = ["a", "b", "c", "d"]

        def problem(extra):
            vr = {v: {Cores: 1, SDRAM: 1} for v in vs}
            vr["a"] = dict(extra)
            nets = [Net("a", ["b", "c"]), Net("c", ["d"])]
            m = Machine(2, 2, chip_resources={Cores: 2, SDRAM: 2 ** 41})
            return vr, nets, m

        def run(extra, seed):
            vr, nets, m = problem(extra)
            try:
                return sorted(sa.place(vr, nets, m, [], effort=0.1,
                                       random=real_random.Random(seed)
                                       ).items())
            except Exception as e:
                return type(e).__name__
        first = run({Cores: 1, SDRAM: 1}, 3)
        ctx.observe("reference", first)
        r_odd = run(odd, 5)
        ctx.observe("odd quantities", r_odd if isinstance(r_odd, str)
                    else "placed")
        again = run({Cores: 1, SDRAM: 1}, 3)
        ctx.observe("again", again)
        ctx.prove(again == first, "place-result-depends-on-history",
                  (first, again))
        ctx.witness("placed")


def h_machine_defaults(ctx):
    from rig.place_and_route import Machine, Cores, SDRAM, SRAM
    from rig.links import Links
    with guarded(ctx):
        w1, h1 = ctx.int("w1", 1, 8), ctx.int("h1", 1, 8)
        w2, h2 = ctx.int("w2", 1, 8), ctx.int("h2", 1, 8)
        L = "machine-defaults-depend-on-history"
        m0 = Machine(w1, h1)
        _machine_is_default(ctx, m0, w1, h1, L, "first Machine")
        m1 = Machine(w1, h1)
        x, y = ctx.int("x", 0), ctx.int("y", 0)
        c = ctx.int("cores", 0)
        k = ctx.choose(6)
        if k in (0, 5):
            m1.dead_chips.add((x, y))
        if k in (1, 5):
            m1.dead_links.add((x, y, Links.north))
        if k in (2, 5):
            m1.chip_resources[Cores] = c
            m1.chip_resources["extra"] = c + 1
            del m1.chip_resources[SRAM]
        if k in (3, 5):
            m1.chip_resource_exceptions[(x, y)] = {Cores: c}
        if k in (4, 5):
            m1.width = w1 + 1
            o = (const(0, bv=False), const(0, bv=False))
            try:
                m1[o] = {Cores: c, SDRAM: 0, SRAM: 0}
                m1[o][SDRAM] = 5
            except IndexError:      # (x, y) == (0, 0) was declared dead
                ctx.witness("dead-origin")
        ctx.observe(k, x, y, c)
        ctx.witness("mutated")
        m2 = Machine(w2, h2)
        _machine_is_default(ctx, m2, w2, h2, L,
                            "Machine() after mutating an earlier one")
        _machine_is_default(ctx, m0, w1, h1, L,
                            "earlier default Machine")
        # a copy is independent in its top-level containers
        m3 = m2.copy()
        m3.dead_chips.add((x, y))
        m3.dead_links.add((x, y, Links.south))
        m3.chip_resources[Cores] = c
        m3.chip_resource_exceptions[(y, x)] = {Cores: c}
        _machine_is_default(ctx, m2, w2, h2, L, "Machine after its copy was "
                            "mutated")
        m4 = Machine(w2, h2)
        _machine_is_default(ctx, m4, w2, h2, L, "third Machine()")


# ======================================================================
# (b) bit fields
# ======================================================================
def _bf_program(ctx, bf, ops, vals, upto=None, start=0, watch=None):
    """Run ops[start:upto] on bit field `bf`; returns the list of outcomes.
    ops: ("add", name, scope, length, start_at, tags) / ("set", scope) /
    ("assign",) / ("read", scope).  scope: tuple of (field, value key);
    tags: None, a string, or the key "S" of a caller-owned `set` in vals.
    watch: [(set object, frozen copy)] of every set handed to add_field so
    far by anybody; all of them must be intact after every add_field."""
    out = []
    for op in ops[start:upto]:
        try:
            if op[0] == "add":
                _, name, scope, ln, st, tags = op
                h = bf(**dict((f, vals.get(k, k)) for f, k in scope)) \
                    if scope else bf
                tags = vals.get(tags, tags) if tags is not None else None
                if isinstance(tags, set) and watch is not None and not any(
                        o is tags for o, _ in watch):
                    watch.append((tags, frozenset(tags)))
                try:
                    h.add_field(name, length=vals.get(ln, ln),
                                start_at=vals.get(st, st), tags=tags)
                finally:
                    bad = [(sorted(c), sorted(o)) for o, c in (watch or ())
                           if set(o) != c]
                    ctx.prove(not bad, "bitfield-argument-modified",
                              ("tags set given to add_field, before / after "
                               "add_field(%r)" % name, bad))
                out.append(("add", name, "ok"))
            elif op[0] == "set":
                h = bf(**dict((f, vals.get(k, k)) for f, k in op[1]))
                out.append(("set", "ok"))
            elif op[0] == "assign":
                bf.assign_fields()
                out.append(("assign", "ok"))
            elif op[0] == "read":
                h = bf(**dict((f, vals.get(k, k)) for f, k in op[1]))
                rec = [("mask", h.get_mask())]
                try:
                    rec.append(("value", h.get_value()))
                except ValueError:          # an enabled field has no value
                    rec.append(("value", "ValueError"))
                for f, k in op[1]:
                    s, l = h.get_location_and_length(f)
                    rec.append((f, s, l, sorted(h.get_tags(f))))
                for t in op[2]:
                    try:
                        rec.append((t, h.get_mask(tag=t)))
                    except LookupError:     # no such tag on this bit field
                        rec.append((t, "UnknownTagError"))
                out.append(("read", rec))
        except Exception as e:
            out.append((op[0], type(e).__name__))
            break
    return out


# Both programs have an untagged parent whose child is tagged (tags
# propagate to parents) and an untagged leaf, and use the same identifiers.
# "S" is a `set` object owned by the caller: the tags of P's parent field `a`
# (which later gets a differently tagged child) and of A's leaf `c`.
BF_P = (
    ("add", "a", (), None, None, "S"),
    ("add", "b", (), None, None, None),
    ("add", "c", (("a", "ka"),), "Lc", None, "t u"),
    ("set", (("a", "ka"), ("b", "xb"), ("c", "xc"))),
    ("assign",),
    ("read", (("a", "ka"), ("b", "xb"), ("c", "xc")), ("s", "t", "u", "v")),
    ("read", (("b", "xb"),), ("s", "t", "v")),
)
BF_A = (
    ("add", "b", (), "La", "Sa", "u"),
    ("add", "a", (), None, None, None),
    ("add", "c", (("b", "ya"),), None, None, "S"),
    ("add", "z", (("a", "yb"),), None, None, "v"),
    ("set", (("b", "ya"), ("a", "yb"), ("c", 1), ("z", 1))),
    ("assign",),
    ("read", (("b", "ya"), ("a", "yb"), ("c", 1), ("z", 1)),
     ("s", "t", "u", "v")),
    ("read", (("a", "yb"),), ("s", "t", "u", "v")),
)
BF_A_READS = tuple(op for op in BF_A if op[0] == "read")


def h_bitfields(ctx, cut, blen_p, blen_a, vbits=2, other_first=False):
    from harness.c08 import Stubs
    from rig.bitfield import BitField
    L = "bitfield-depends-on-another-bitfield"
    with guarded(ctx):
        with Stubs():
            vals = {}
            for k in ("ka", "xb", "xc"):
                vals[k] = ctx.bv("p_" + k, vbits)
            vals["Lc"] = ctx.bv("p_Lc", 2, 2, 3)
            avals = {}
            for k in ("ya", "yb"):
                avals[k] = ctx.bv("a_" + k, vbits)
            avals["La"] = ctx.bv("a_La", 3, 2, 3)
            avals["Sa"] = ctx.bv("a_Sa", 4, 0, 9)
            # references: each program on a bit field of its own with a
            # tags set of its own; the one that goes first runs before any
            # other bit field exists
            watch = []

            def own(v):
                return dict(v, S={"s"})
            if other_first:
                refa = _bf_program(ctx, BitField(blen_a), BF_A, own(avals),
                                   watch=watch)
            ref = _bf_program(ctx, BitField(blen_p), BF_P, own(vals),
                              watch=watch)
            if not other_first:
                refa = _bf_program(ctx, BitField(blen_a), BF_A, own(avals),
                                   watch=watch)
            ctx.observe("ref", plain(ref), plain(refa))
            if ref[-1][0] == "read" and isinstance(ref[-1][1], list):
                ctx.witness("probe-read")
            # interleaved: the first `cut` steps, then the other bit field
            # is created, defined and laid out, then the rest.  ONE set
            # object is the tags argument of a field of each bit field.
            shared = {"s"}
            vals_i, avals_i = dict(vals, S=shared), dict(avals, S=shared)
            untouched = BitField(blen_p)
            bp = BitField(blen_p)
            ba = BitField(blen_a)
            got = _bf_program(ctx, bp, BF_P, vals_i, upto=cut, watch=watch)
            failed = bool(got) and (len(got[-1]) == 2 and
                                    isinstance(got[-1][1], str) and
                                    got[-1][1] != "ok")
            if len(got) == cut and not failed:
                ra = _bf_program(ctx, ba, BF_A, avals_i, watch=watch)
                ctx.observe("other", plain(ra))
                if ra[-1][0] == "read" and isinstance(ra[-1][1], list):
                    ctx.witness("other-read")
                prove_same(ctx, snap(refa), snap(ra), False, L,
                           "other bit field defined inside the probe's "
                           "definitions")
                got = got + _bf_program(ctx, bp, BF_P, vals_i, start=cut,
                                        watch=watch)
                # ... and still reads the same once the probe's bit field
                # is complete (tagged child added under the field whose
                # tags argument was the shared set)
                if ra[-1][0] == "read" and isinstance(ra[-1][1], list):
                    again = _bf_program(ctx, ba, BF_A_READS, avals_i)
                    prove_same(ctx, snap(refa[-len(again):]), snap(again),
                               False, L, "other bit field read again after "
                               "the probe's later definitions")
                    ctx.witness("other-read-again")
            prove_same(ctx, snap(ref), snap(got), False, L,
                       "probe bit field defined around another one")
            ctx.prove(shared == {"s"}, "bitfield-argument-modified",
                      ("tags set shared by two bit fields", sorted(shared)))
            # the other bit field alone, afterwards, gives what it gave
            ra2 = _bf_program(ctx, BitField(blen_a), BF_A, own(avals),
                              watch=watch)
            prove_same(ctx, snap(refa), snap(ra2), False, L,
                       "later definition of the other bit field")
            # a bit field nobody touched has no fields
            try:
                m = untouched.get_mask()
                fields = [i for i, f in untouched.fields.potential_fields({})]
            except Exception as e:
                m, fields = type(e).__name__, None
            ctx.prove(sand(m == 0) if not isinstance(m, str) else False, L,
                      ("untouched bit field has mask", m))
            ctx.prove(fields == [], L, ("untouched bit field has fields",
                                        fields))


# ======================================================================
# (b) machine controllers and contexts
# ======================================================================
def h_controllers(ctx):
    from models.net import World
    from models.machine import Machine as ModelMachine, ControllerPatch
    L = "controller-context-depends-on-history"

    class M(ModelMachine):
        def cmd_22(self, q):            # signal: acknowledge
            return self.reply(q)

    with guarded(ctx):
        machine = M(ctx)
        world = World(ctx, machine=machine, prompt=True)
        app = ctx.bv("app", 8)
        app2 = ctx.bv("app2", 8)
        x, y = ctx.bv("x", 8), ctx.bv("y", 8)
        how = ctx.choose(6)
        with ControllerPatch(world):
            from rig.machine_control import MachineController

            def wire_app_id(mc):
                mark = len(machine.log)
                mc.send_signal("stop")
                qs = [q for q in machine.log[mark:] if int(q.cmd) == 22]
                return (qs[-1].arg2 & 0xff) if qs else None

            def default_context(mc, what):
                got = mc.get_context_arguments()
                prove_same(ctx, snap({"app_id": 66}), snap(got), False, L,
                           what + ": get_context_arguments()")
                w = wire_app_id(mc)
                ctx.prove(w == 66 if w is not None else False, L,
                          (what + ": app_id on the wire", w))

            mc0 = MachineController("h0")
            default_context(mc0, "first controller")
            given = None
            open_cm = None
            if how == 0:
                mc1 = MachineController("h1")
                mc1.update_current_context(app_id=app)
                want = {"app_id": app}
            elif how == 1:
                mc1 = MachineController("h1")
                open_cm = mc1(app_id=app, x=x, y=y)
                open_cm.__enter__()               # left open
                want = {"app_id": app, "x": x, "y": y}
            elif how == 2:
                mc1 = MachineController("h1")
                mc1.get_new_context(app_id=app)   # created, never entered
                mc1.update_current_context(x=x, app_id=app2)
                want = {"app_id": app2, "x": x}
            elif how == 3:
                given = {"app_id": app, "y": y}
                mc1 = MachineController("h1", initial_context=given)
                mc1.update_current_context(app_id=app2, x=x)
                want = {"app_id": app2, "y": y, "x": x}
            elif how == 4:
                mc1 = MachineController("h1")
                open_cm = mc1.application(app)
                open_cm.__enter__()
                mc1.update_current_context(y=y)
                want = {"app_id": app, "y": y}
            else:
                mc1 = MachineController("h1")
                with mc1(app_id=app):
                    mc1.update_current_context(x=x)
                mc1.update_current_context(p=1)
                want = {"app_id": 66, "p": 1}
            ctx.observe(how, app, app2, x, y)
            ctx.witness("context-changed")
            prove_same(ctx, snap(want), snap(mc1.get_context_arguments()),
                       False, "controller-context-wrong",
                       "changed controller's own context")
            w1 = wire_app_id(mc1)
            ctx.prove(w1 == want["app_id"] if w1 is not None else False,
                      "controller-context-wrong", ("app_id on the wire", w1))
            if given is not None:
                prove_same(ctx, snap({"app_id": app, "y": y}), snap(given),
                           True, "controller-argument-modified",
                           "initial_context dictionary")
            mc2 = MachineController("h2")
            default_context(mc2, "controller created after a context change")
            default_context(mc0, "controller created before it")
            mc2.update_current_context(app_id=app2)
            mc3 = MachineController("h3")
            default_context(mc3, "third controller")
            default_context(mc0, "first controller again")
            if open_cm is not None and how == 1:
                open_cm.__exit__(None, None, None)
                prove_same(ctx, snap({"app_id": 66}),
                           snap(mc1.get_context_arguments()), False, L,
                           "controller after leaving its context")


def h_contexts(ctx):
    from rig.utils.contexts import Context, ContextMixin, Required
    L = "context-depends-on-history"

    class Thing(ContextMixin):
        def __init__(self, *a):
            ContextMixin.__init__(self, *a)

        @ContextMixin.use_contextual_arguments()
        def f(self, a, b=Required, c=3):
            return (a, b, c)

        @ContextMixin.use_contextual_arguments(opt=7)
        def g(self, a, **kwargs):
            return (a, kwargs["opt"])

    with guarded(ctx):
        v, w, u = ctx.int("v"), ctx.int("w"), ctx.int("u")
        t0 = Thing()
        prove_same(ctx, snap({}), snap(t0.get_context_arguments()), False, L,
                   "first object")
        how = ctx.choose(4)
        given = None
        if how == 0:
            t1 = Thing()
            t1.update_current_context(b=v, c=w)
        elif how == 1:
            t1 = Thing()
            cm = t1.get_new_context(b=v, c=w, opt=u)
            cm.__enter__()
        elif how == 2:
            given = {"b": v}
            t1 = Thing(given)
            t1.update_current_context(c=w, b=u)
        else:
            given = collections.OrderedDict([("c", w), ("b", v)])
            c1 = Context(given)
            c1.update({"b": u, "zz": 1})
            c1.before_close(lambda: None)
            t1 = Thing(c1.context_arguments)
            t1.update_current_context(opt=u)
        ctx.observe(how, v, w, u)
        ctx.witness("context-changed")
        r1 = t1.f(1)
        ctx.prove(sand(r1[1] == (v if how in (0, 1) else u),
                       r1[2] == w), "context-wrong", plain(r1))
        if given is not None:
            want = {"b": v} if how == 2 else collections.OrderedDict(
                [("c", w), ("b", v)])
            prove_same(ctx, snap(want), snap(given), True,
                       "context-argument-modified", "dictionary given to "
                       "Context / ContextMixin")
        t2 = Thing()
        prove_same(ctx, snap({}), snap(t2.get_context_arguments()), False, L,
                   "object created after a context change")
        prove_same(ctx, snap({}), snap(t0.get_context_arguments()), False, L,
                   "object created before it")
        prove_same(ctx, snap((1, 5, 3)), snap(t2.f(1, b=5)), False, L,
                   "contextual method of the later object")
        prove_same(ctx, snap((2, 7)), snap(t2.g(2)), False, L,
                   "keyword-only default of the later object")
        try:
            t2.f(1)
            missing = False
        except TypeError:
            missing = True
        ctx.prove(missing, L, "required argument satisfied by another "
                  "object's context")
        c2 = Context({})
        c3 = Context({"q": v})
        c3.update({"r": w})
        prove_same(ctx, snap({}), snap(c2.context_arguments), False, L,
                   "empty Context")


# ======================================================================
def units(tier, seed):
    us = []
    thorough = tier == "thorough"

    def args(name, spec, label, wit=("returned",), split=4, **kw):
        us.append(Unit("args " + name, h_args, dict(spec=spec, label=label),
                       split=split, witnesses=wit, path_timeout_s=120, **kw))

    def hist(name, probe, interferer, label, wit=(), split=5, a_first=False,
             **kw):
        us.append(Unit("history " + name, h_hist,
                       dict(probe=probe, interferer=interferer, label=label,
                            a_first=a_first), split=split,
                       witnesses=("probe-returned",) + tuple(wit),
                       path_timeout_s=120, **kw))

    # ---------------- (a) placers ------------------------------------
    RR = ("returned", "raised")
    placers = ("sequential", "breadth_first", "hilbert", "rcm", "rand", "sa")
    for p in placers:
        def place(name, wit=RR, split=5, **sc):
            args("%s.place %s" % (p, name), dict(f="place", placer=p,
                                                 seed=seed, **sc),
                 "place", wit=wit, split=split)
        place("same-chip located + reservation", dims=(2, 1), nv=3, nres=1,
              exc=(0, 0), nets="chain", cons=("sameloc", "resl"), rev=True)
        place("same-chip pair 2x2", dims=(2, 2), nv=3, nres=1, dead=(1, 0),
              exc=(0, 0), nets="fan", cons=("same12", "resl"), split=6)
        place("chained groups, self-loop nets", dims=(2, 1), nv=3, nres=1,
              nets="self", cons=("chain", "resg"))
        if thorough or p in ("sequential", "rand", "sa"):
            place("mix 2x2", dims=(2, 2), nv=3, nres=2, dead=(1, 0),
                  exc=(0, 0), nets="chain",
                  cons=("loc", "resg", "resl2", "same12"), split=7)
        place("location on dead chip", dims=(2, 1), nv=2, nres=1,
              dead=(1, 0), nets="chain", cons=("same", "resg", "baddead"),
              wit=("InvalidConstraintError",), split=0)
        if thorough:
            place("t dup + reservation", dims=(2, 1), nv=3, nres=2,
                  exc=(1, 0), nets="fan", cons=("dup", "resg"), sparse=True)
            place("t two groups 2x2", dims=(2, 2), nv=4, nres=1, exc=(1, 0),
                  nets="fan", cons=("same", "dup23"), rev=True, split=7)
            place("t chain 2x2 nv4", dims=(2, 2), nv=4, nres=1, dead=(0, 0),
                  nets="chain", cons=("chain", "resl"), split=7)
    args("sequential.place explicit orders", dict(
        f="place", placer="sequential", order=True, dims=(2, 2), nv=3, nres=1,
        dead=(0, 1), exc=(1, 1), nets="chain", cons=("same12", "resg")),
        "place", wit=RR, split=6)
    args("sa.place effort 0.1 stopped", dict(
        f="place", placer="sa", effort=0.1, seed=seed, dims=(2, 1), nv=3,
        nres=1, nets="chain", cons=("loc", "same12"), nowrap=True), "place",
        wit=RR, split=5)

    # ---------------- the two wrappers -------------------------------
    for rm in (True, False):
        for al in (True, False):
            for own in (False, True):
                args("wrapper reserve_monitor=%s align_sdram=%s %s" % (
                    rm, al, "own constraints list" if own
                    else "default constraints"),
                    dict(f="wrapper", which="wrapper", flags=(rm, al),
                         own=own), "wrapper", split=2)
    for own in (False, True):
        args("place_and_route_wrapper %s" % (
            "own constraints list" if own else "default constraints"),
            dict(f="wrapper", which="pnr", own=own), "wrapper", split=2)
    hist("wrapper without alignment | wrapper with alignment only",
         dict(f="wrapper", which="wrapper", flags=(True, False)),
         dict(f="wrapper", which="wrapper", flags=(False, True)), "wrapper",
         wit=("interferer-returned",), split=3)
    hist("place_and_route_wrapper | same, own constraints list",
         dict(f="wrapper", which="pnr"),
         dict(f="wrapper", which="pnr", own=True), "wrapper",
         wit=("interferer-returned",), split=3)

    # an anneal that moves vertices onto a chip with a resource exception
    # (the placer's working copy of the machine must not share the caller's
    # per-chip dictionaries); several generator seeds
    for k in range(3):
        args("sa.place effort 0.1 stopped, exception chips, seed+%d" % k,
             dict(f="place", placer="sa", effort=0.1, seed=seed + k,
                  dims=(2, 2), nv=3, nres=2, exc=(1, 1), nets="chain",
                  cons=()), "place", wit=RR, split=5)

    # ---------------- (a) allocate -----------------------------------
    def alloc(name, wit=RR, split=5, **kw):
        args("allocate " + name, dict(f="allocate", **kw), "allocate",
             wit=wit, split=split)
    alloc("nv=2 g=1 l=1", nv=2, ng=1, nl=1, split=6)
    alloc("nv=1 g=1 align=2 two chips", nv=1, ng=1, alignment=2,
          second_chip=True)
    alloc("nv=3 g=1", nv=3, ng=1)
    alloc("nv=2 l=1 align=4, infeasible too", nv=2, ng=0, nl=1, alignment=4,
          feasible=False)
    if thorough:
        alloc("t nv=1 nres=2 g=1 align=2 two chips", nv=1, nres=2, ng=1,
              alignment=2, second_chip=True, split=6)
        alloc("t nv=3 g=2", nv=3, ng=2, split=6)
        alloc("t nv=2 g=2 align=4", nv=2, ng=2, alignment=4, split=6)

    # ---------------- (a) route --------------------------------------
    def route(name, wit=("returned", "tie-break"), split=3, **kw):
        args("route " + name, dict(f="route", **kw), "route", wit=wit,
             split=split)
    route("2x2 mesh K=1 r=20", w=2, h=2, torus=False, K=1, radius=20)
    route("2x2 torus K=0 r=0 two nets", w=2, h=2, torus=True, K=0, radius=0,
          two_nets=True, nsinks=1)
    route("2x3 torus K=1 r=1 one sink", w=2, h=3, torus=True, K=1, radius=1,
          nsinks=1)
    route("3x3 mesh K=1 r=20 one sink", w=3, h=3, torus=False, K=1,
          radius=20, nsinks=1)
    route("2x2 mesh K=0 r=20, allocations in a defaultdict", w=2, h=2,
          torus=False, K=0, radius=20, alloc_default=True)
    route("2x1 mesh K=1 r=0 (disconnected), allocations omitted", w=2, h=1,
          torus=False, K=1, radius=0, nsinks=1, no_alloc=True, wit=RR)
    if thorough:
        route("t 2x2 mesh K=2 r=20", w=2, h=2, torus=False, K=2, radius=20,
              split=4, wit=RR)
        route("t 2x2 torus K=1 r=0 two nets", w=2, h=2, torus=True, K=1,
              radius=0, two_nets=True, split=5)
        route("t 2x3 torus K=1 r=1", w=2, h=3, torus=True, K=1, radius=1,
              split=4)
        route("t 3x3 torus K=2 r=20 one sink", w=3, h=3, torus=True, K=2,
              radius=20, nsinks=1, split=4)
        route("t 4x3 mesh K=1 r=20 src (0,0)", w=4, h=3, torus=False, K=1,
              radius=20, src=((0, 0),), split=4)

    # ---------------- (a) routing_tree_to_tables ------------------------
    args("routing_tree_to_tables 2x2 two nets", dict(f="tables", w=2, h=2,
                                                     nnets=2),
         "tables", wit=("returned",), split=3)
    args("routing_tree_to_tables 2x2 shared source", dict(
        f="tables", w=2, h=2, nnets=2, share=True), "tables",
        wit=("returned", "MultisourceRouteError"), split=3)
    if thorough:
        args("routing_tree_to_tables 3x2 three nets", dict(
            f="tables", w=3, h=2, nnets=3, share=True), "tables",
            wit=("returned", "MultisourceRouteError"), split=4)

    # ---------------- (a) minimisers ---------------------------------
    def mini(which, n, W, routes, srcs, disc, target, wit=("returned",),
             split=5):
        args("minimise %s n=%d W=%d %s %s %s target=%s" % (
            which, n, W, routes, srcs, disc, target),
            dict(f="min", which=which, n=n, W=W, routes=routes, srcs=srcs,
                 discipline=disc, target=target), "minimise", wit=wit,
            split=split)
    mini("rdr", 3, 3, "ABA", "ddu", "any", "sym", wit=RR)
    mini("oc", 2, 2, "AA", "uu", "orthogonal", "sym", wit=RR)
    mini("oc", 3, 2, "AAB", "ddd", "orthogonal", "none")
    mini("oc_raw", 2, 2, "AA", "ud", "sorted", "sym", wit=RR)
    mini("oc_raw", 3, 2, "AAC", "uuu", "orthogonal", "none")
    mini("oc_aliases", 3, 2, "AAA", "uuu", "orthogonal", "none",
         wit=("returned", "aliases"))
    mini("chain", 3, 2, "AAB", "ddu", "orthogonal", "sym", wit=RR)
    mini("tables", 2, 2, "AA", "du", "sorted", "sym", wit=RR)
    if thorough:
        mini("oc", 3, 2, "AAA", "udo", "orthogonal", "sym", wit=RR)
        mini("oc_raw", 3, 2, "AAC", "uuu", "sorted", "sym", wit=RR)
        mini("oc", 3, 3, "AAB", "ddd", "orthogonal", "none", split=6)
        mini("oc_aliases", 3, 3, "AAA", "udu", "sorted", "none",
             wit=("returned", "aliases"), split=6)
        mini("tables", 3, 2, "AAB", "dud", "sorted", "sym", wit=RR, split=6)
        mini("chain", 3, 3, "AAB", "ddu", "sorted", "sym", wit=RR, split=6)

    # ---------------- (b) function histories ----------------------------
    A_ALLOC = dict(f="allocate", nv=1, ng=1, feasible=False)
    A_ALLOC2 = dict(f="allocate", nv=2, ng=0, nl=0, alignment=4,
                    feasible=False)
    A_SEQ = dict(f="place", placer="sequential", dims=(2, 2), nv=2, nres=1,
                 exc=(1, 1), nets="chain", cons=("same", "resg"))
    A_RAND = dict(f="place", placer="rand", seed=seed + 7, dims=(1, 1), nv=2,
                  nres=2, nets="fan", cons=("resg",))
    A_OC = dict(f="min", which="oc_raw", n=2, W=1, routes="AA", srcs="uu",
                discipline="orthogonal", target="none")
    A_OCMIN = dict(A_OC, which="oc")
    P_SEQ = dict(f="place", placer="sequential", dims=(2, 1), nv=3, nres=1,
                 exc=(0, 0), nets="chain", cons=("sameloc", "resl"),
                 rev=True)
    P_SEQ2 = dict(f="place", placer="sequential", dims=(2, 2), nv=3, nres=1,
                  dead=(1, 0), exc=(0, 0), nets="fan",
                  cons=("same12", "resl"))
    hist("allocate | sequential.place",
         dict(f="allocate", nv=2, ng=1, alignment=2), A_SEQ, "allocate",
         wit=("interferer-returned",), split=6)
    hist("allocate | allocate (other shape)",
         dict(f="allocate", nv=1, ng=1, alignment=2, second_chip=True),
         A_ALLOC2, "allocate", split=6)
    hist("allocate nv=3 | ordered_covering (merging)",
         dict(f="allocate", nv=3, ng=1), A_OC, "allocate", split=5)
    hist("sequential.place | allocate", P_SEQ, A_ALLOC, "place",
         wit=("interferer-returned",))
    hist("sequential.place | rand.place", P_SEQ2, A_RAND, "place", split=6)
    hist("sequential.place | sequential.place (other machine)", P_SEQ,
         A_SEQ, "place", split=6)
    hist("rand.place seeded | sequential.place",
         dict(f="place", placer="rand", seed=seed, dims=(2, 2), nv=3, nres=1,
              dead=(0, 1), exc=(1, 1), nets="chain", cons=("same", "resg")),
         A_SEQ, "place", split=6)
    hist("sa.place effort 0 seeded | rand.place",
         dict(f="place", placer="sa", seed=seed, dims=(2, 2), nv=3, nres=1,
              exc=(1, 1), nets="chain", cons=("loc", "resg")),
         A_RAND, "place", split=6)
    hist("ordered_covering.minimise | ordered_covering (merging)",
         dict(f="min", which="oc", n=2, W=2, routes="AA", srcs="uu",
              discipline="orthogonal", target="sym"), A_OC, "minimise",
         wit=("interferer-merged",), split=6)
    hist("ordered_covering.minimise n=3 | ordered_covering.minimise "
         "(merging)",
         dict(f="min", which="oc", n=3, W=2, routes="AAB", srcs="ddd",
              discipline="orthogonal", target="none"), A_OCMIN, "minimise",
         wit=("interferer-merged",), split=5)
    hist("ordered_covering without aliases | ordered_covering (merging)",
         dict(f="min", which="oc_raw", n=2, W=2, routes="AA", srcs="ud",
              discipline="sorted", target="sym"), A_OC, "minimise",
         wit=("interferer-merged",), split=6)
    hist("ordered_covering without aliases n=3 | ordered_covering (merging)",
         dict(f="min", which="oc_raw", n=3, W=2, routes="AAC", srcs="uuu",
              discipline="orthogonal", target="none"), A_OC, "minimise",
         wit=("interferer-merged",), split=5)
    hist("minimise_table | ordered_covering (merging)",
         dict(f="min", which="chain", n=3, W=2, routes="AAB", srcs="ddu",
              discipline="orthogonal", target="sym"), A_OC, "minimise",
         wit=("interferer-merged",), split=5)
    hist("routing_tree_to_tables | allocate",
         dict(f="tables", w=2, h=2, nnets=2, share=True), A_ALLOC, "tables",
         split=4)
    # the router: radius and machine size change between the calls
    R3 = dict(f="route", w=3, h=3, torus=False, K=0, radius=20, nsinks=2,
              src=((0, 2),))
    RS0 = dict(f="route", w=2, h=1, torus=False, K=1, radius=0, nsinks=1,
               src=((0, 0),), sink_chips=((1, 0),), no_alloc=True)
    RS20 = dict(f="route", w=2, h=2, torus=True, K=1, radius=20, nsinks=1,
                src=((0, 0),), sink_chips=((1, 1),))
    hist("route 3x3 r=20 | route 2x1 r=0", R3, RS0, "route",
         wit=("tie-break",), split=5)
    hist("route 3x3 r=20 | route 2x1 r=0, interferer first", R3, RS0,
         "route", split=5, a_first=True)
    hist("route 3x3 r=0 | route 2x2 torus r=20, interferer first",
         dict(R3, radius=0, src=((2, 0),)), RS20, "route", split=5,
         a_first=True)
    hist("route 3x3 K=1 r=20, four sink chips | route 2x1 r=0",
         dict(R3, K=1, sink_chips=((1, 0), (2, 0), (2, 1), (1, 2))), RS0,
         "route", split=5, a_first=True)
    hist("route 2x3 torus K=1 r=1 | route 3x3 r=20",
         dict(f="route", w=2, h=3, torus=True, K=1, radius=1, nsinks=1),
         dict(f="route", w=3, h=3, torus=False, K=0, radius=20, nsinks=1,
              src=((1, 1),), sink_chips=((0, 0), (2, 2))), "route",
         wit=("tie-break",), split=5)
    hist("route 2x2 mesh K=1 r=20 | sequential.place",
         dict(f="route", w=2, h=2, torus=False, K=1, radius=20, nsinks=2,
              src=((0, 0), (1, 1))), A_SEQ, "route", split=5)
    if thorough:
        R4 = dict(f="route", w=4, h=3, torus=False, K=0, radius=20,
                  nsinks=2, src=((0, 0), (0, 2)))
        hist("t route 4x3 r=20 | route 2x1 r=0, interferer first", R4, RS0,
             "route", split=6, a_first=True)
        hist("t route 4x3 r=20 | route 2x1 r=0", R4, RS0, "route", split=6)
        hist("t route 3x3 K=1 r=20 | route 2x1 r=0", dict(R3, K=1), RS0,
             "route", split=6, a_first=True)
        hist("t route 4x4 r=0 | route 2x2 torus r=20, interferer first",
             dict(f="route", w=4, h=4, torus=False, K=0, radius=0, nsinks=2,
                  src=((0, 0), (1, 2))), RS20, "route", split=6,
             a_first=True)
        hist("t allocate nv=2 g=1 l=1 | sequential.place",
             dict(f="allocate", nv=2, ng=1, nl=1), A_SEQ, "allocate",
             split=7)
        hist("t sequential.place mix 2x2 | allocate",
             dict(f="place", placer="sequential", dims=(2, 2), nv=3, nres=2,
                  dead=(1, 0), exc=(0, 0), nets="chain",
                  cons=("loc", "resg", "resl2", "same12")), A_ALLOC, "place",
             split=8)
        hist("t ordered_covering.minimise n=3 sym | ordered_covering "
             "(merging)",
             dict(f="min", which="oc", n=3, W=2, routes="AAA", srcs="udo",
                  discipline="orthogonal", target="sym"), A_OC, "minimise",
             wit=("interferer-merged",), split=7)
        hist("t ordered_covering without aliases sorted sym | "
             "ordered_covering (merging)",
             dict(f="min", which="oc_raw", n=3, W=2, routes="AAC",
                  srcs="uuu", discipline="sorted", target="sym"), A_OC,
             "minimise", wit=("interferer-merged",), split=7)
        hist("t minimise_tables | ordered_covering.minimise",
             dict(f="min", which="tables", n=2, W=2, routes="AA", srcs="du",
                  discipline="sorted", target="sym"), A_OCMIN, "minimise",
             split=7)
        hist("t routing_tree_to_tables 3x2 | route",
             dict(f="tables", w=3, h=2, nnets=3, share=True),
             dict(RS0), "tables", split=5)

    # ---------------- (b) objects ---------------------------------------
    us.append(Unit("history sa.place default kernel after quantities it "
                   "cannot take", h_default_kernel, {},
                   witnesses=("placed",)))
    us.append(Unit("history Machine() defaults", h_machine_defaults, {},
                   witnesses=("mutated",)))
    for cut in ((0, 2, 4) if not thorough else (0, 1, 2, 3, 4, 5, 6)):
        us.append(Unit("history BitField definitions, other bit field "
                       "after step %d" % cut, h_bitfields,
                       dict(cut=cut, blen_p=8, blen_a=12,
                            other_first=(cut % 4 == 2)), split=5,
                       witnesses=("probe-read", "other-read",
                                  "other-read-again"),
                       path_timeout_s=120))
    if thorough:
        us.append(Unit("history BitField definitions, lengths 16 / 8",
                       h_bitfields, dict(cut=3, blen_p=16, blen_a=8),
                       split=5, witnesses=("probe-read",),
                       path_timeout_s=120))
    us.append(Unit("history MachineControllers", h_controllers, {},
                   witnesses=("context-changed",)))
    us.append(Unit("history Context / ContextMixin", h_contexts, {},
                   witnesses=("context-changed",)))
    return us
