"""C01 -- multicast packets reach exactly the cores of their net's sinks.

The end-to-end property.  One path = one run of the real chain

    place -> allocate -> route -> routing_tree_to_tables -> minimise_tables

(by hand, through `place_and_route_wrapper` with a SystemInfo built here, or
through the deprecated `wrapper`) on a chosen application graph and machine
with SYMBOLIC net keys and masks (bit-vectors inside a W-bit window under a
shared symbolic 32-bit prefix, well-formed, pairwise orthogonal), symbolic
table targets and a symbolic set of dead links (one solver boolean per directed
link, at most one -- in a few units two or three -- dead).  Placement,
allocation and routing run concretely on the chosen structure (every RNG
outcome of the random placer, of the annealer's initial placement and of the
router's tie-breaks being an explored choice);
table generation and minimisation run on the symbolic keys.  The oracle then
injects, for every net, a packet whose key `pk` is a further symbolic 32-bit
value assumed to match the net's key/mask, and WALKS it over the final
per-chip tables with the router semantics written down here (not rig's):
first entry with pk & mask == key wins; an unmatched packet that arrived over
a link leaves by the opposite link; an unmatched locally injected packet is
dropped.  Which entry matches
first is a solver-decided branch.  Proved on every path: the multiset of
deliveries is exactly {every allocated core of every sink, once} + {the link of
every endpoint-constrained sink, once}; every hop uses a link that is not dead
(valid under the path condition: a link the router never examined is a free
boolean and fails the proof) and lands on a working chip; nothing is dropped;
no (chip, arrival direction) is seen twice and the walk ends within 6*|chips|
hops."""
import importlib
import itertools
import random as _pyrandom

from sx.runner import Unit
from sx.proxies import sand, snot, const, is_sym

PROPERTY = "C01"

F32 = 0xffffffff

#: link number -> (dx, dy); deliberately not rig.links' table
VEC = ((1, 0), (1, 1), (0, 1), (-1, 0), (-1, -1), (0, -1))

# ----------------------------------------------------------------------
# Menus (CHOSEN structure)
# ----------------------------------------------------------------------
#: name -> (number of vertices, [(source, [sinks])], [demand patterns])
#: demand pattern: one character per vertex
#:   '0' '1' '2'  that many cores ({Cores: n, SDRAM: 8})
#:   'n'          a vertex that does not mention cores at all ({SDRAM: 8})
#:   'd'          device vertex: {} + LocationConstraint (column 0) +
#:                RouteEndpointConstraint(west)
#:   'D'          device vertex with {Cores: 0} + the same two constraints
GRAPHS = {
    # fan-out to one sink / back with a self-loop
    "pair": (2, [(0, [1]), (1, [0, 1])], ["12", "21", "10"]),
    # two nets whose trees share chips with equal routes (mergeable):
    # self-loop, repeated sink
    "duo": (3, [(0, [1, 2]), (2, [2, 1, 1])], ["111", "120", "2d1"]),
    # fan-out, a net that is only a self-loop, a repeated sink
    "tri": (3, [(0, [1, 2]), (1, [1]), (2, [0, 0])], ["112", "201", "12n"]),
    # two nets from one source with the same sinks (equal routes on every
    # chip: always mergeable) and a third net from that source that passes
    # straight through their sink's chip when the three vertices sit in a
    # line (default-routable there, and inside the merged entry's key space)
    "merge": (3, [(0, [1]), (0, [1, 1]), (0, [2, 0])],
              ["111", "012", "1n2"]),
    # fan-out to three sinks, repeated sink + self-loop
    "fan": (4, [(0, [1, 2, 3]), (3, [0]), (1, [2, 2, 1])],
            ["1111", "2102", "121n"]),
    # a device vertex (endpoint constraint) as sink of two nets and as source
    "device": (4, [(0, [3, 1]), (3, [2, 0]), (1, [3, 2, 3])],
               ["111d", "201D", "120d"]),
    # three vertices meant to sit in a line (1x3, one vertex per chip): one
    # net from the first chip straight through the middle chip, two nets
    # injected ON the middle chip, all to the last chip: on the middle chip
    # every entry has the same single link route, with sources {opposite
    # link} resp. {None}; ordered covering merges them into an entry with
    # sources {None, link} that must NOT be default-routed
    "line": (3, [(0, [2]), (1, [2]), (1, [2, 2])], ["111", "011", "121"]),
}
#: the graphs of the (graph, machine, placer, method) grid
GRID_GRAPHS = ("pair", "duo", "tri", "merge", "fan", "device")
PLACERS = ("sequential", "hilbert", "rcm", "breadth_first", "rand", "sa")
METHODS = ("none", "rdr", "oc", "chain")
MACHINES = ((1, 1, False), (1, 1, True), (2, 2, False), (2, 2, True),
            (3, 3, False), (3, 3, True))

META = {
    "bounds":
        "One complete mapping per path.  CHOSEN (enumerated; every "
        "alternative inside a unit is explored): application graphs from a "
        "menu of six + one (2-4 vertices, 2-3 nets: fan-out to 1-3 sinks, a "
        "net "
        "that is only a self-loop, a self-loop among other sinks, a sink "
        "listed twice, two nets from one source with equal sink sets, a "
        "third net that runs straight through their sink's chip, a device "
        "vertex with a RouteEndpointConstraint that is a sink of two nets and "
        "the source of a third; outside the grid, in six units, the `line` "
        "graph: one net running straight through a chip on which two other "
        "nets to the same sink are injected, so that ordered covering merges "
        "entries with sources {link} and {None}); per-vertex core demands 0, "
        "1 or 2 from three "
        "patterns per graph (zero-core sinks and sources, vertices that do "
        "not mention cores, device vertices with {} or {Cores: 0}; demands "
        "are lowered to cap-1 where a chip has fewer cores), every "
        "non-device vertex also 8 units of SDRAM; machines 1x1, 2x2 and one "
        "1x3 line (quick), plus 3x3 (thorough), mesh (all off-edge links "
        "dead) or torus, cap = 2, 3 or 4 cores per chip (7 on 1x1) with core "
        "0 reserved (monitor), optionally one extra core on one chip "
        "(resource exception); no dead chip or (deadchip=any) none or any "
        "one chip dead; placer in {sequential, hilbert, rcm, breadth_first, "
        "rand, sa with effort 0}, the RNG of rand/sa being either a stub "
        "whose every outcome is explored or (units marked rng=N) "
        "random.Random(N); pin=n: the last n non-device vertices located on "
        "the last n working chips by LocationConstraints; router radius 0 or "
        "20, every random tie-break of the router explored (units marked "
        "tb=N: the first N undecided tie-breaks of a mapping are explored, "
        "every later one takes its first feasible outcome); minimisation in "
        "{none, remove_default_routes, ordered_covering, the default "
        "chain}; target lengths None, one symbolic integer per chip "
        "(target=sym; on 3x3 only for the three chips of the diagonal, None "
        "elsewhere), a symbolic integer for the first working chip only "
        "(target=sym1), the number of nets for every chip (target=n) or 1 "
        "for every chip (target=1, line graph only); "
        "the chain run by hand, through place_and_route_wrapper (SystemInfo "
        "with the monitor on every chip and one further busy core on the "
        "first chip, symbolic or concrete free router entries per chip, "
        "concrete working links) or through the deprecated wrapper.  "
        "SYMBOLIC (decided by the solver for all values at once): every "
        "net's key and mask inside a window of W = 3 low bits (W = 2 where "
        "the unit says so) under a shared symbolic 32-bit prefix P, the "
        "remaining 32-W mask bits set; the packet key (any 32-bit value "
        "matching its net), one packet per net; the table targets "
        "(0..nets+1); in the links=sym units the membership of every "
        "directed link of every working chip in machine.dead_links, at most "
        "one dead -- at most K dead in the units marked K=2 / K=3 (quick: "
        "two 2x2 mesh units with K=2; thorough adds 2x2 mesh K=3 and 2x3 "
        "mesh, 2x2 torus, 3x3 mesh and the deprecated wrapper with K=2) -- "
        "in addition to a mesh's off-edge links and the device link, each "
        "direction independently; in the links=one units one concretely "
        "chosen dead link "
        "(none, or every directed link in turn).  The cross product of the "
        "menus is NOT explored inside one unit: a unit fixes (graph, "
        "machine, placer, method, radius, target mode, link mode, dead-chip "
        "mode, demand patterns, W, cap, pin, rng, tb, entry point) and its "
        "name in the evidence says which.  thorough (1023 units, ~91 000 "
        "paths) = every combination of {6 graphs} x {1x1, 2x2, 3x3} x "
        "{mesh, torus} x {6 placers} x {4 methods} by hand, plus both "
        "wrappers with every placer on 2x2 and 3x3 (120 units), plus five "
        "full-window (W = 3) three-net ordered-covering units, five K>1 "
        "units and three more line-graph units, plus the quick core set; "
        "the other dimensions are rotated by a stable hash "
        "and then reduced: units with ordered covering (oc, chain) take one "
        "demand pattern, no dead chip, no dead link (two-net graphs with W = "
        "2: links=sym in half of them), W = 2 for three nets or 3x3, target "
        "in {None, sym1 (sym on 1x1)}, tb=3 on a torus; the other units "
        "start from all three demand patterns, deadchip=any, links in "
        "{none, sym, one} and target in {None, sym, n} and are shrunk until "
        "an estimated <= 800 paths remain (order: links one -> sym, dead "
        "chip, demand patterns, links, symbolic target, pins, tb=4, real "
        "RNG); every unit on a 3x3 torus has tb <= 5.  quick = a fixed core "
        "set of 27 units plus a VERIF_SEED-selected subset of the 1x1 / 2x2 "
        "grid (~45-50 units, ~5 000 paths).",
    "stubs": [
        "machine.dead_links is harness.c03.SymLinkSet in the links=sym units "
        "(one solver boolean per directed link under 'at most K dead', K = 1 "
        "unless the unit says K=2 or K=3; "
        "copy() shares the variables) and machine.has_wrap_around_links is "
        "c03's non-forking equivalent (proved equal to the real method by "
        "C03's `wrap` units for 1x1, 2x2, 3x3); all other units use a plain "
        "set and the real method",
        "the name `random` in rig.geometry and rig.place_and_route.route."
        "utils is rebound to a stub: random() is a solver real in [0, 1) "
        "materialised only when a comparison of `int + random()` keys is not "
        "settled by the integer parts; randint/choice are explored choices.  "
        "In route.utils (longest_dimension_first) two keys whose integer "
        "parts are both 0 are ordered by creation instead of by a solver "
        "branch: the sort is descending and the loop stops at the first zero "
        "magnitude, so the order of zero dimensions cannot reach the result "
        "(C03 explores those ties as well).  Units marked tb=N: after N "
        "undecided tie-breaks in one mapping every further random() "
        "comparison is resolved to its first feasible outcome (assumed, not "
        "forked) and randint/choice return their first alternative",
        "rand.place / sa.place get random=harness.c02.SymRandom (shuffle, "
        "sample, choice, randint enumerate every outcome) or, in the units "
        "marked rng=N, random.Random(N)",
        "place_and_route_wrapper / wrapper are called with place=<the chosen "
        "placer module's place> and place_kwargs/route_kwargs selecting the "
        "RNG stub, effort 0 and the radius (their default placer is the full "
        "annealer, outside the claim)",
    ],
    "assumptions": [
        "keys are well-formed (key & ~mask == 0) and pairwise orthogonal "
        "((ka & mb) != (kb & ma) for every two nets), as the property states",
        "router semantics (written in this harness, independent of rig): the "
        "first entry with pk & mask == key decides; a packet that matches no "
        "entry and arrived over a link continues in its direction of travel; "
        "a locally injected packet that matches no entry is dropped; tables "
        "are loaded exactly as returned (a chip without a table has an empty "
        "one); an entry with an empty route consumes the packet (only a "
        "zero-core sink's chip has one)",
        "the link named by a RouteEndpointConstraint leads to the device and "
        "not to a chip: the device vertex is located (LocationConstraint) on "
        "a chip of column 0 and its west link is dead for chip-to-chip "
        "traffic (off-edge in a mesh, listed in dead_links in a torus, both "
        "directions); a packet routed out of that link on that chip counts as "
        "delivered to the device whether a table entry or default routing "
        "sent it there",
        "a sink listed twice in a net, or two sinks sharing one endpoint "
        "link, receive the packet once (the route of an entry is a set)",
        "a core also allocated to a vertex that is not a sink of the net "
        "counts as 'another core' (two vertices sharing a core)",
        "a mapping that fails with a documented error "
        "(InsufficientResourceError, MachineHasDisconnectedSubregion, "
        "MinimisationFailedError with a target) makes no promise about "
        "packets; such paths are counted and every unit must also contain "
        "successful mappings (witness `mapped`)",
        "a table must fit its target: len(table) <= the target length given "
        "for the chip / the free router entries the SystemInfo reports "
        "(otherwise it cannot be loaded and packets are lost)",
        "allocated cores must exist and avoid the cores the SystemInfo "
        "reports non-idle / the reserved monitor core",
    ],
    "outside_claim": [
        "graphs, machines and fault maps beyond the menus: more than 4 "
        "vertices or 3 nets, machines larger than 3x3, more than one dead "
        "link (two or three in the seven K=2 / K=3 units) or dead chip, "
        "net weights other than 1, same-chip constraints, "
        "alignment constraints other than the wrapper's own SDRAM alignment",
        "keys/masks that differ outside a window of 3 bits; non-orthogonal "
        "or ill-formed keys; tables of more than 3 entries per chip (second "
        "round merges of ordered covering: see C04)",
        "the annealer with effort > 0 (floating-point schedule) and the C "
        "kernel",
        "combinations of the secondary dimensions that are not a unit.  In "
        "particular: three-net graphs under ordered covering use W = 2 "
        "except in five W = 3 units (1x1, 1x3, 2x2 meshes); ordered covering "
        "on 3x3 uses W = 2; a symbolic target under ordered covering is put "
        "on one chip only (all chips in two 2x2 core units and one 1x3 "
        "line unit); the line graph runs only on 1x3 (and once on 3x3) with "
        "the sequential placer; sa on 3x3 "
        "and the costliest rand/sa combinations run with random.Random(N) "
        "(one RNG outcome) instead of every outcome; rand/sa with every "
        "outcome have all but 1-3 vertices pinned on 2x2/3x3; router "
        "tie-breaks beyond the first 3-5 of a mapping are not explored on a "
        "3x3 torus and under ordered covering on a 2x2 torus (C03 explores "
        "the router's tie-breaks exhaustively)",
        "ties between zero-magnitude dimensions in longest_dimension_first "
        "(see stubs)",
        "set iteration orders other than CPython 3.12's with "
        "PYTHONHASHSEED=0",
    ],
}


class _Resource(object):
    def __init__(self, name):
        self.name = name

    def __repr__(self):
        return self.name


_MY_CORES, _MY_SDRAM = _Resource("my_cores"), _Resource("my_sdram")


def _mod(name):
    return importlib.import_module(name)


class PlainLinks(object):
    """Concrete dead-link set with the interface of c03.SymLinkSet.dead."""

    def __init__(self, dead):
        self.set = set(dead)

    def dead(self, x, y, l):
        return (x, y, int(l)) in self.set


def off_edge_links(w, h):
    return [(x, y, l) for x in range(w) for y in range(h)
            for l, (dx, dy) in enumerate(VEC)
            if not (0 <= x + dx < w and 0 <= y + dy < h)]


# ----------------------------------------------------------------------
# Router tie-breaks
# ----------------------------------------------------------------------
class _Tie(object):
    """base + random.random(): the random part becomes a solver real in
    [0, 1) only when a comparison is not settled by the integer parts (as
    harness.c03._Lazy).  With `zero_ties` false, two keys whose integer parts
    are both 0 are ordered by creation instead of by a solver branch: in
    longest_dimension_first the sort is descending and the loop stops at the
    first zero magnitude, so the relative order of zero dimensions cannot
    reach the result."""
    __slots__ = ("rnd", "base", "val", "seq")

    def __init__(self, rnd, base, seq):
        self.rnd = rnd
        self.base = base
        self.val = None
        self.seq = seq

    def value(self):
        if self.val is None:
            r = self.rnd.ctx.real("rnd", 0, 1)
            self.rnd.ctx.assume(r < 1)
            self.val = r
        return self.base + self.val

    def __add__(self, o):
        if self.val is None and isinstance(o, int):
            return _Tie(self.rnd, self.base + o, self.seq)
        return self.value() + o
    __radd__ = __add__

    def _cmp(self, o, op):
        if (isinstance(o, _Tie) and isinstance(self.base, int) and
                isinstance(o.base, int)):
            a, b = self.base, o.base
            if (a == b == 0 and not self.rnd.zero_ties and self is not o and
                    self.val is None and o.val is None):
                a, b = self.seq, o.seq
            if a != b:
                # a + r1 < b + r2 for all r1, r2 in [0, 1) iff a < b
                return {"lt": a < b, "le": a < b, "gt": a > b,
                        "ge": a > b}[op]
        ov = o.value() if isinstance(o, _Tie) else o
        v = self.value()
        res = {"lt": lambda: v < ov, "le": lambda: v <= ov,
               "gt": lambda: v > ov, "ge": lambda: v >= ov}[op]()
        if self.rnd.spend() or not is_sym(res):
            return res                  # bool(res) forks
        # tie budget used up: take the first feasible outcome (a restriction
        # of the random draws, stated in META)
        ctx = self.rnd.ctx
        if ctx.reachable(res):
            ctx.assume(res)
            return True
        ctx.assume(snot(res))
        return False

    def __lt__(self, o): return self._cmp(o, "lt")
    def __le__(self, o): return self._cmp(o, "le")
    def __gt__(self, o): return self._cmp(o, "gt")
    def __ge__(self, o): return self._cmp(o, "ge")
    __hash__ = None


class TieRandom(object):
    """Stands in for the module `random` inside the router.  `budget` is a
    one-element list shared by the stubs of one mapping: the number of
    undecided tie-breaks that may still be explored (None: all of them);
    once it is used up every further tie-break takes its first feasible
    outcome."""

    def __init__(self, ctx, zero_ties=True, budget=None):
        self.ctx = ctx
        self.zero_ties = zero_ties
        self.budget = budget if budget is not None else [None]
        self.draws = 0

    def spend(self):
        """True if this tie-break may be explored (same count in symbolic
        and concrete mode)."""
        if self.budget[0] is None:
            return True
        if self.budget[0] > 0:
            self.budget[0] -= 1
            return True
        return False

    def random(self):
        self.draws += 1
        return _Tie(self, 0, self.draws)

    def randint(self, a, b):
        self.draws += 1
        if b > a and not self.spend():
            return a
        return a + self.ctx.choose(b - a + 1)

    def choice(self, seq):
        self.draws += 1
        if len(seq) > 1 and not self.spend():
            return seq[0]
        return seq[self.ctx.choose(len(seq))]

    def __getattr__(self, name):
        from sx.engine import Unsupported
        raise Unsupported("random.%s is not modelled" % name)


# ----------------------------------------------------------------------
# The oracle: a symbolic packet walk
# ----------------------------------------------------------------------
def walk(ctx, tables, pk, src_chip, w, h, live, links, endpoint_links, tag):
    """Inject a packet with key `pk` at `src_chip` and follow it.

    Returns the list of deliveries ((chip, "core", n) / (chip, "link", l)) or
    None after a reported violation."""
    deliveries = []
    seen = set()
    hop_ok = []
    hop_list = []
    front = [(src_chip, None)]
    steps = 0
    limit = 6 * w * h
    while front:
        chip, heading = front.pop()
        if (chip, heading) in seen:
            ctx.prove(False, "packet-circulates", (tag, chip, heading))
            return None
        seen.add((chip, heading))
        steps += 1
        if steps > limit:
            ctx.prove(False, "packet-walk-too-long", (tag, steps))
            return None
        outs = None
        for e in tables.get(chip, ()):
            if (pk & e.mask) == e.key:          # solver-decided branch
                outs = sorted(int(r) for r in e.route)
                break
        if outs is None:
            if heading is None:
                ctx.prove(False, "packet-dropped-at-source", (tag, chip))
                return None
            outs = [heading]                    # default route: straight on
        for r in outs:
            if r >= 6:
                deliveries.append((chip, "core", r - 6))
                continue
            if not 0 <= r < 6:
                ctx.prove(False, "packet-bad-route", (tag, chip, r))
                return None
            if (chip, r) in endpoint_links:
                deliveries.append((chip, "link", r))
                continue
            x, y = chip
            dx, dy = VEC[r]
            nb = ((x + dx) % w, (y + dy) % h)
            if nb not in live:
                ctx.prove(False, "packet-sent-to-dead-chip",
                          (tag, chip, r, nb))
                return None
            hop_ok.append(snot(links.dead(x, y, r)))
            hop_list.append((chip, r))
            front.append((nb, r))
    if hop_list:
        ctx.witness("hop")
    if not ctx.prove(sand(*hop_ok) if hop_ok else True,
                     "packet-crosses-dead-link", (tag, hop_list)):
        return None
    return deliveries


# ----------------------------------------------------------------------
# The harness
# ----------------------------------------------------------------------
def h_e2e(ctx, graph, w, h, torus, placer, method, radius=20, target="none",
          links="none", deadchip="none", via="hand", dems=(0,), W=3, cap=3,
          pin=False, exc=False, rng="all", tb="all", K=1, at=(),
          res="default"):
    from rig.place_and_route.machine import Machine, Cores, SDRAM, SRAM
    custom = {}
    if res == "custom":
        # the caller's own resource objects in place of Cores and SDRAM
        Cores, SDRAM = _MY_CORES, _MY_SDRAM
        custom = {"core_resource": Cores, "sdram_resource": SDRAM}
    from rig.place_and_route.constraints import (
        LocationConstraint, ReserveResourceConstraint,
        RouteEndpointConstraint)
    from rig.place_and_route.exceptions import (
        InsufficientResourceError, InvalidConstraintError,
        MachineHasDisconnectedSubregion)
    from rig.routing_table import (
        Routes, MinimisationFailedError, routing_tree_to_tables,
        minimise_tables)
    from rig.netlist import Net
    from rig.links import Links
    from harness import c02, c03
    geometry = _mod("rig.geometry")
    rutils = _mod("rig.place_and_route.route.utils")
    ner = _mod("rig.place_and_route.route.ner")
    greedy = _mod("rig.place_and_route.allocate.greedy")
    rdr = _mod("rig.routing_table.remove_default_routes")
    oc = _mod("rig.routing_table.ordered_covering")
    pmod = _mod("rig.place_and_route.place." + (
        "sa.algorithm" if placer == "sa" else placer))

    nv, netspec, patterns = GRAPHS[graph]
    all_chips = [(x, y) for x in range(w) for y in range(h)]

    # ---- chosen structure ------------------------------------------------
    dead_chips = set()
    if deadchip == "any":
        k = ctx.choose(len(all_chips) + 1)
        if k:
            dead_chips.add(all_chips[k - 1])
    elif deadchip != "none":
        dead_chips.add(tuple(deadchip))
    live = [c for c in all_chips if c not in dead_chips]
    pattern = patterns[ctx.pick(list(dems))]

    names = ["v%d" % i for i in range(nv)]
    vr = {}
    devices = []
    for v, ch in zip(names, pattern):
        if ch in "012":
            # a vertex must fit a chip: at most cap - 1 (monitor) cores
            vr[v] = {Cores: min(int(ch), cap - 1), SDRAM: 8}
        elif ch == "n":
            vr[v] = {SDRAM: 8}
        elif ch == "d":
            vr[v] = {}
            devices.append(v)
        elif ch == "D":
            vr[v] = {Cores: 0}
            devices.append(v)
        else:
            raise ValueError(ch)
    nets = [Net(names[s], [names[t] for t in ts]) for s, ts in netspec]
    apps = {v: ("dev.aplx" if v in devices else "app%d.aplx" % (i % 2))
            for i, v in enumerate(names)}

    user_constraints = []
    endpoint = {}               # vertex -> link number
    fixed_dead = set() if torus else set(off_edge_links(w, h))
    col0 = [c for c in live if c[0] == 0]
    for v in devices:
        if not col0:
            ctx.assume(False)
        loc = col0[0]
        user_constraints.append(LocationConstraint(v, loc))
        user_constraints.append(RouteEndpointConstraint(v, Routes.west))
        endpoint[v] = 3
        # the device hangs on this link: dead for chip-to-chip traffic
        fixed_dead.add((loc[0], loc[1], 3))
        fixed_dead.add(((loc[0] - 1) % w, loc[1], 0))
    # pin = n: the last n non-device vertices are located on the last n live
    # chips (far corner first)
    movable = [v for v in names if v not in devices]
    for j in range(min(int(pin), len(movable), len(live))):
        user_constraints.append(
            LocationConstraint(movable[-1 - j], live[-1 - j]))
    # at = ((vertex index, chip), ...): vertices located on given chips (a
    # path on which such a chip is the dead one is not a mapping problem)
    for vi, chip in at:
        if tuple(chip) in dead_chips:
            ctx.assume(False)
        user_constraints.append(LocationConstraint(names[vi], tuple(chip)))

    # ---- dead links ------------------------------------------------------
    cand = [(x, y, l) for (x, y) in live for l in range(6)
            if (x, y, l) not in fixed_dead]
    if links == "one":
        k = ctx.choose(len(cand) + 1)
        if k:
            fixed_dead.add(cand[k - 1])
    if links == "sym":
        if via == "pnr":
            raise ValueError("SystemInfo holds concrete links")
        linkset = c03.SymLinkSet(ctx, w, h, int(K), fixed_dead, dead_chips)
    else:
        linkset = PlainLinks(fixed_dead)

    # ---- machine ---------------------------------------------------------
    exc_chip = live[-1] if (exc and live) else None
    ncores = {c: cap + (1 if c == exc_chip else 0) for c in live}
    busy = {c: {0} for c in live}           # the monitor
    if via == "pnr" and live:
        busy[live[0]].add(1)                # an application already running

    def make_machine():
        m = Machine(w, h, chip_resources={Cores: cap, SDRAM: 64, SRAM: 16},
                    chip_resource_exceptions={} if exc_chip is None else {
                        exc_chip: {Cores: cap + 1, SDRAM: 64, SRAM: 16}},
                    dead_chips=set(dead_chips),
                    dead_links=set((x, y, Links(l))
                                   for x, y, l in fixed_dead
                                   if (x, y) in live))
        if links == "sym":
            m.dead_links = linkset
            m.has_wrap_around_links = c03.make_wrap_stub(ctx, m, linkset)
        return m

    # ---- symbolic keys ---------------------------------------------------
    win = (1 << W) - 1
    hi = F32 & ~win
    P = ctx.bv("P", 32)
    net_keys = {}
    for i, n in enumerate(nets):
        kw = ctx.bv("k%d" % i, W)
        mw = ctx.bv("m%d" % i, W)
        ctx.assume((kw & ~mw & win) == 0)
        net_keys[n] = ((P & hi) | kw, const(hi) | mw)
    for a, b in itertools.combinations(nets, 2):
        (ka, ma), (kb, mb) = net_keys[a], net_keys[b]
        ctx.assume((ka & mb) != (kb & ma))

    # ---- targets ---------------------------------------------------------
    if target == "none":
        targets = None
    elif target == "sym":
        # one symbolic target per chip; on machines of more than four chips
        # only on the diagonal (every chip with a table multiplies the paths
        # by the number of methods that can meet its target), None elsewhere
        targets = {c: (ctx.int("target_%d_%d" % c, 0, len(nets) + 1)
                       if (len(all_chips) <= 4 or c[0] == c[1]) else None)
                   for c in live}
    elif target == "sym1":
        # a symbolic target on the first working chip only, None elsewhere
        targets = {c: (ctx.int("target_%d_%d" % c, 0, len(nets) + 1)
                       if c == live[0] else None) for c in live}
    elif target == "n":
        targets = {c: len(nets) for c in live}
    else:
        targets = {c: int(target) for c in live}

    # ---- the mapping -----------------------------------------------------
    place_kwargs = {}
    if placer in ("rand", "sa"):
        place_kwargs["random"] = (c02.SymRandom(ctx) if rng == "all"
                                  else _pyrandom.Random(rng))
    if placer == "sa":
        place_kwargs["effort"] = 0.0
    methods = {"rdr": (rdr.minimise,), "oc": (oc.minimise,)}.get(method)

    saved = (geometry.random, rutils.random)
    budget = [None if tb == "all" else int(tb)]
    geometry.random = TieRandom(ctx, budget=budget)
    rutils.random = TieRandom(ctx, zero_ties=False, budget=budget)
    try:
        try:
            if via == "hand":
                machine = make_machine()
                constraints = [ReserveResourceConstraint(
                    Cores, slice(0, 1))] + user_constraints
                pl = pmod.place(vr, nets, machine, constraints,
                                **place_kwargs)
                al = greedy.allocate(vr, nets, machine, constraints, pl)
                rt = ner.route(vr, nets, machine, constraints, pl, al,
                               Cores, radius=radius)
                tables = routing_tree_to_tables(rt, net_keys)
                if method == "none":
                    tables = dict(tables)
                elif methods is None:
                    tables = minimise_tables(tables, targets)
                else:
                    tables = minimise_tables(tables, targets, methods)
            elif via == "wrapper":
                wr = _mod("rig.place_and_route.wrapper")
                machine = make_machine()
                pl, al, amap, tables = wr.wrapper(
                    vr, apps, nets, net_keys, machine,
                    list(user_constraints), place=pmod.place,
                    place_kwargs=place_kwargs,
                    route_kwargs={"radius": radius}, **custom)
            elif via == "pnr":
                wr = _mod("rig.place_and_route.wrapper")
                mcm = _mod("rig.machine_control.machine_controller")
                consts = _mod("rig.machine_control.consts")
                si = mcm.SystemInfo(w, h)
                for c in live:
                    states = [consts.AppState.run if p in busy[c]
                              else consts.AppState.idle
                              for p in range(ncores[c])]
                    si[c] = mcm.ChipInfo(
                        num_cores=ncores[c], core_states=states,
                        working_links=set(
                            Links(l) for l in range(6)
                            if (c[0], c[1], l) not in fixed_dead and
                            ((c[0] + VEC[l][0]) % w,
                             (c[1] + VEC[l][1]) % h) in live),
                        largest_free_sdram_block=64,
                        largest_free_sram_block=16,
                        largest_free_rtr_mc_block=(
                            1024 if targets is None or targets[c] is None
                            else targets[c]),
                        ethernet_up=(c == live[0]), ip_address="10.0.0.1",
                        local_ethernet_chip=live[0])
                kw = {}
                if methods is not None:
                    kw["minimise_tables_methods"] = methods
                elif method == "none":
                    kw["minimise_tables_methods"] = ()
                pl, al, amap, tables = wr.place_and_route_wrapper(
                    vr, apps, nets, net_keys, si, list(user_constraints),
                    place=pmod.place, place_kwargs=place_kwargs,
                    route_kwargs={"radius": radius}, **dict(kw, **custom))
            else:
                raise ValueError(via)
        except (InsufficientResourceError, MachineHasDisconnectedSubregion,
                InvalidConstraintError) as e:
            ctx.observe(type(e).__name__)
            ctx.witness("no-mapping")
            # only an unusable machine excuses InvalidConstraintError here
            ctx.prove(not isinstance(e, InvalidConstraintError) or not live,
                      "mapping-rejects-consistent-constraints", repr(e))
            return
        except MinimisationFailedError as e:
            ctx.observe("MinimisationFailedError", e.chip, e.target_length,
                        e.final_length)
            ctx.witness("minimisation-failed")
            ctx.prove(targets is not None,
                      "minimisation-failed-without-target")
            return
        except Exception as e:
            ctx.observe("unexpected", type(e).__name__)
            ctx.prove(False, "mapping-unexpected-exception",
                      "%s: %s" % (type(e).__name__, e))
            return
    finally:
        geometry.random, rutils.random = saved

    ctx.witness("mapped")
    ctx.observe(sorted(pl.items()),
                sorted((v, sorted((str(r), s.start, s.stop)
                                  for r, s in a.items()))
                       for v, a in al.items()),
                sorted((c, [(sorted(int(r) for r in e.route), e.key, e.mask,
                             sorted(-1 if s is None else int(s)
                                    for s in e.sources)) for e in t])
                       for c, t in tables.items()))

    # ---- placements and allocations are usable ---------------------------
    ok = (set(pl) == set(names) and all(pl[v] in live for v in names) and
          set(al) == set(names))
    if not ctx.prove(ok, "mapping-incomplete", (sorted(pl.items()),)):
        return
    owners = {}                 # (chip, core) -> [vertices]
    for v in names:
        sl = al[v].get(Cores)
        if sl is None:
            continue
        for p in range(sl.start, sl.stop):
            owners.setdefault((pl[v], p), []).append(v)
            ctx.prove(p not in busy[pl[v]] and 0 <= p < ncores[pl[v]],
                      "allocated-core-not-idle", (v, pl[v], p))
    if len(set(pl.values())) > 1:
        ctx.witness("several-chips")

    # ---- tables fit their targets ----------------------------------------
    if targets is not None and method != "none" and via != "wrapper":
        for c, t in tables.items():
            if targets[c] is not None:
                ctx.prove(len(t) <= targets[c], "table-exceeds-target",
                          (c, len(t), targets[c]))
    for c, t in tables.items():
        if not ctx.prove(c in live, "table-for-dead-chip", c):
            return

    # ---- the packet walk, one symbolic packet per net --------------------
    for i, n in enumerate(nets):
        key, mask = net_keys[n]
        pk = ctx.bv("pk%d" % i, 32)
        ctx.assume((pk & mask) == key)
        expected = set()
        ep_links = set()
        for s in n.sinks:
            if s in endpoint:
                expected.add((pl[s], "link", endpoint[s]))
                ep_links.add((pl[s], endpoint[s]))
            else:
                sl = al[s].get(Cores)
                if sl is not None:
                    for p in range(sl.start, sl.stop):
                        expected.add((pl[s], "core", p))
        got = walk(ctx, tables, pk, pl[n.source], w, h, live, linkset,
                   ep_links, "net%d" % i)
        if got is None:
            return
        if ep_links:
            ctx.witness("endpoint")
        if any(d[1] == "core" for d in got):
            ctx.witness("core-delivery")
        ctx.observe(sorted(got))
        missing = sorted(expected - set(got))
        extra = sorted(set(got) - expected)
        twice = sorted(d for d in set(got) if got.count(d) > 1)
        ctx.prove(not missing, "packet-misses-sink",
                  ("net%d" % i, missing, sorted(got)))
        ctx.prove(not extra, "packet-reaches-non-sink",
                  ("net%d" % i, extra, sorted(expected)))
        ctx.prove(not twice, "packet-delivered-twice", ("net%d" % i, twice))
        # a core shared with a vertex that is not a sink of this net also
        # receives the packet
        for d in got:
            if d[1] == "core":
                strangers = [v for v in owners.get((d[0], d[2]), ())
                             if v not in n.sinks]
                ctx.prove(not strangers, "packet-reaches-non-sink",
                          ("net%d" % i, d, strangers))


# ----------------------------------------------------------------------
# Units
# ----------------------------------------------------------------------
DEFAULTS = dict(radius=20, target="none", links="none", deadchip="none",
                via="hand", dems=(0,), W=3, cap=3, pin=0, exc=False,
                rng="all", tb="all", K=1, at=(), res="default")


def _name(p):
    s = "%s %dx%d %s %s %s" % (p["graph"], p["w"], p["h"],
                               "torus" if p["torus"] else "mesh",
                               p["placer"], p["method"])
    s += " r=%d target=%s links=%s deadchip=%s via=%s dems=%s W=%d cap=%d" % (
        p["radius"], p["target"], p["links"], p["deadchip"], p["via"],
        "".join(str(d) for d in p["dems"]), p["W"], p["cap"])
    if p["pin"]:
        s += " pin=%d" % p["pin"]
    if p["exc"]:
        s += " exc"
    if p["at"]:
        s += " at=" + ",".join("v%d@%d.%d" % (v, c[0], c[1])
                               for v, c in p["at"])
    if p["rng"] != "all":
        s += " rng=%s" % p["rng"]
    if p["tb"] != "all":
        s += " tb=%s" % p["tb"]
    if p["K"] != 1:
        s += " K=%d" % p["K"]
    if p["res"] != "default":
        s += " res=%s" % p["res"]
    return s


def _mix(*parts):
    """Stable small hash of the combination (rotates the secondary
    dimensions over the grid; not Python's salted hash())."""
    import zlib
    return zlib.crc32(repr(parts).encode())


def _fact(n):
    r = 1
    for i in range(2, n + 1):
        r *= i
    return r


def _paths(p):
    """Rough (pessimistic) number of paths of a unit: the product of the
    measured multiplicities of its dimensions.  Used to keep units at
    10^2..10^3 paths and to choose where a unit is split."""
    q = dict(DEFAULTS)
    q.update(p)
    p = q
    nv, netspec, patterns = GRAPHS[p["graph"]]
    nchips = p["w"] * p["h"]
    nnets = len(netspec)
    ndev = min(patterns[d].count("d") + patterns[d].count("D")
               for d in p["dems"])
    free = max(0, nv - ndev - int(p["pin"]))
    costly = p["method"] in ("oc", "chain") and p["via"] != "wrapper"
    n = 1.0
    # symbolic keys: equal-mask partitions (rdr), the case analysis of
    # ordered covering (at worst one path per key/mask configuration)
    if costly:
        if nchips == 1:
            k = {(2, 2): 8, (2, 3): 40, (3, 2): 25, (3, 3): 620}
        else:
            k = {(2, 2): 20, (2, 3): 150, (3, 2): 45, (3, 3): 1200}
        n *= k[(nnets, p["W"])]
    elif p["method"] == "rdr" or p["via"] == "wrapper":
        n *= 2 if nnets == 2 else 5
    if p["method"] != "none" and p["via"] != "wrapper":
        if p["target"] == "sym":
            if nchips == 1:
                n *= 10 if costly else 3
            elif costly:
                n *= 50
            else:
                n *= 10 if nnets == 2 else 25
        elif p["target"] == "sym1":
            n *= 5
    n *= len(p["dems"])
    if p["deadchip"] == "any":
        n *= nchips + 1
    nlinks = 6 * nchips - (0 if p["torus"] else len(off_edge_links(
        p["w"], p["h"])))
    if p["links"] == "sym":
        if nchips == 1:
            n *= 2 if p["torus"] else 1
        elif nchips <= 4:
            n *= 5 if p["torus"] else 3
        else:
            n *= 8 if p["torus"] else 6
        if p["placer"] == "rcm":
            n *= nlinks + 1
        n *= 4 ** (int(p["K"]) - 1)
    elif p["links"] == "one":
        n *= nlinks + 1
    if p["torus"] and nchips > 1:
        t = 6 if nchips <= 4 else 40          # router tie-breaks
        if p["tb"] != "all":
            t = min(t, 2 ** int(p["tb"]))
        n *= t
    if p["rng"] == "all":
        if p["placer"] == "rand" and nchips > 1:
            n *= 2.5 * nchips ** free
        elif p["placer"] == "sa":
            n *= 1.5 * _fact(nchips) * _fact(free)
    return n


def _cost(p):
    """Rough CPU seconds of a unit."""
    q = dict(DEFAULTS)
    q.update(p)
    per = 0.13 if q["method"] in ("oc", "chain") else 0.05
    return 0.7 + per * _paths(q)


def _combo(graph, w, h, torus, placer, method, seed=0, via="hand",
           limit=800):
    """Parameters of the unit for one (graph, machine, placer, method)
    combination: the secondary dimensions are rotated by a stable hash and
    then shrunk, in a fixed order, until the estimated number of paths is
    below `limit` (see META outside_claim)."""
    nv, netspec, patterns = GRAPHS[graph]
    r = _mix(graph, w, h, torus, placer, method, via, seed)
    nchips = w * h
    ndev = max(pat.count("d") + pat.count("D") for pat in patterns)
    free = nv - ndev
    costly = method in ("oc", "chain") and via != "wrapper"
    p = dict(DEFAULTS)
    p.update(graph=graph, w=w, h=h, torus=torus, placer=placer,
             method=method, via=via)
    p["radius"] = (0, 20)[r % 2]
    r //= 2
    # cores per chip: on one chip everything must fit; else 2 (one vertex per
    # chip, demands lowered to 1), 3 or 4
    p["cap"] = 7 if nchips == 1 else (2, 3, 4)[r % 3]
    r //= 3
    p["exc"] = bool(r % 2) and nchips > 1
    r //= 2
    p["pin"] = r % 2 if nchips > 1 else 0
    r //= 2
    one_dem = (r % 3,)
    r //= 3
    lk = r % 6
    r //= 6
    tg = r % 3
    if torus and nchips > 4:
        # the tie-breaks of a scattered placement on a 3x3 torus run into
        # the thousands: explore the first five per mapping
        p["tb"] = 5
    if placer == "sa" and nchips > 4:
        # shuffling nine chips has 9! outcomes: a real generator instead
        p["rng"] = 1000 + seed
    if costly:
        # ordered covering: the case analysis over the symbolic keys is the
        # expensive dimension; everything else at its smallest
        if len(netspec) == 3 or nchips > 4:
            p["W"] = 2
        p["dems"] = one_dem
        p["target"] = ("none", "sym" if nchips == 1 else "sym1", "none")[tg]
        if p["target"] != "none" and nchips == 1:
            p["W"] = 2
        if torus and nchips > 1:
            p["tb"] = 3
        if len(netspec) == 2 and p["W"] == 2 and via != "pnr":
            p["links"] = ("none", "sym")[lk % 2]
    else:
        p["dems"] = (0, 1, 2)
        p["deadchip"] = "any" if nchips > 1 else "none"
        if via == "pnr":
            p["links"] = ("none", "one")[lk % 2]
        else:
            p["links"] = ("none", "sym", "one")[lk % 3]
        if method != "none" and via != "wrapper":
            # concrete target: the number of nets (no table is shorter than
            # that before: the chosen method must run, and can succeed)
            p["target"] = ("none", "sym", "n")[tg]
    while _paths(p) > limit:
        if p["links"] == "one":
            p["links"] = "none" if via == "pnr" else "sym"
        elif p["deadchip"] == "any" and p["links"] != "none":
            p["deadchip"] = "none"
        elif len(p["dems"]) > 1:
            p["dems"] = one_dem
        elif p["deadchip"] == "any":
            p["deadchip"] = "none"
        elif p["links"] == "sym":
            p["links"] = "none"
        elif p["target"] == "sym" and nchips > 1:
            p["target"] = "n" if not costly else "none"
        elif (placer in ("rand", "sa") and p["rng"] == "all" and
              p["pin"] < free - 1 and p["pin"] < nchips - 1):
            p["pin"] += 1
        elif p["torus"] and nchips > 1 and p["tb"] == "all":
            p["tb"] = 4
        elif placer in ("rand", "sa") and p["rng"] == "all":
            # last resort: one real generator instead of every RNG outcome
            p["rng"] = 1000 + seed
            p["pin"] = min(p["pin"], 1)
        elif p["W"] == 3 and costly:
            p["W"] = 2
        else:
            break
    return p


def units(tier, seed):
    us = []
    seen = set()
    thorough = tier == "thorough"

    def add(p, wit=("mapped",)):
        q = dict(DEFAULTS)
        q.update(p)
        q["dems"] = tuple(q["dems"])
        name = _name(q)
        if name in seen:
            return False
        seen.add(name)
        n = _paths(q)
        split = 0 if n < 120 else (3 if n < 400 else 5)
        wit = tuple(wit)
        if q["graph"] == "device":
            wit += ("endpoint",)
        us.append(Unit(name, h_e2e, q, split=split, witnesses=wit,
                       path_timeout_s=120))
        return True

    def core(graph, w, h, torus, placer, method, wit=("mapped",), **kw):
        p = dict(graph=graph, w=w, h=h, torus=torus, placer=placer,
                 method=method)
        p.update(kw)
        add(p, wit=wit)

    # ---- the fixed core set (both tiers) ---------------------------------
    HOP = ("mapped", "hop", "core-delivery")
    FAIL = HOP + ("minimisation-failed",)
    # every method on the fan-out graph with one vertex per chip (routes
    # with a turn)
    core("fan", 2, 2, False, "sequential", "none", cap=2, dems=(0, 1, 2),
         links="sym", deadchip="any", wit=HOP)
    core("fan", 2, 2, False, "sequential", "rdr", cap=2, target="sym",
         wit=FAIL)
    core("fan", 2, 2, False, "sequential", "oc", cap=2, W=2, wit=HOP)
    core("fan", 2, 2, True, "hilbert", "chain", cap=3, W=2, radius=0,
         wit=HOP)
    # mergeable routes: ordered covering with the full 3-bit window (2 nets)
    core("duo", 2, 2, False, "breadth_first", "oc", cap=2, wit=HOP)
    core("duo", 2, 2, False, "hilbert", "chain", cap=2, W=2, target="sym",
         wit=FAIL)
    # a merged entry whose key space contains a net that the chip
    # default-routes: three vertices in a line
    core("merge", 1, 3, False, "sequential", "oc", cap=2, W=2, wit=HOP)
    core("merge", 1, 3, False, "sequential", "rdr", cap=2, links="one",
         dems=(0, 1, 2), wit=HOP)
    # ... through the method chain without a target (each method must start
    # from the original table: ordered covering after default-route removal
    # would capture the removed net's key)
    core("merge", 1, 3, False, "sequential", "chain", cap=2, W=2, wit=HOP)
    core("merge", 1, 1, False, "sequential", "chain", cap=7, W=2,
         target="sym", wit=("mapped", "core-delivery",
                            "minimisation-failed"))
    core("merge", 2, 2, False, "rcm", "chain", cap=2, W=2, wit=HOP)
    core("tri", 2, 2, True, "rcm", "rdr", cap=3, dems=(0, 1, 2),
         links="none", deadchip="any", radius=0, wit=HOP)
    core("tri", 2, 2, True, "sequential", "rdr", cap=2, links="sym",
         wit=HOP)
    # a merged entry with sources {None, link} must not be default-routed:
    # a net passing straight through the chip that hosts two other sources
    core("line", 1, 3, False, "sequential", "oc", cap=2, W=2, wit=HOP)
    core("line", 1, 3, False, "sequential", "chain", cap=2, W=2,
         target="1", dems=(0, 1), wit=HOP)
    core("line", 1, 3, False, "sequential", "chain", via="pnr", cap=3, W=2,
         target="1", dems=(2,), wit=HOP)
    # up to two dead links (one-directional, anywhere): a tree cut in two
    # places, repaired twice by avoid_dead_links
    core("fan", 2, 2, False, "sequential", "none", cap=2, links="sym", K=2,
         wit=HOP + ("no-mapping",))
    core("duo", 2, 2, False, "sequential", "rdr", cap=2, links="sym", K=2,
         wit=HOP + ("no-mapping",))
    # a dead chip on a torus WITHOUT any dead link, source and sink two hops
    # apart: whichever chip lies between them may be the dead one
    core("pair", 3, 3, True, "sequential", "rdr", cap=2, dems=(0,),
         deadchip="any", at=((0, (0, 0)), (1, (1, 2))), wit=HOP)
    core("pair", 3, 3, True, "sequential", "none", cap=2, dems=(0,),
         deadchip="any", links="sym", at=((0, (0, 0)), (1, (1, 2))),
         wit=HOP)
    # the device vertex
    core("device", 2, 2, False, "sequential", "rdr", cap=2, dems=(0, 1, 2),
         links="one", wit=HOP)
    core("device", 2, 2, True, "breadth_first", "chain", cap=3, W=2, pin=1,
         wit=HOP)
    # every placement (random placer), every shuffle (annealer, effort 0)
    core("tri", 2, 2, False, "rand", "rdr", cap=3, wit=HOP)
    core("pair", 2, 2, False, "sa", "rdr", cap=3, dems=(0, 1), wit=HOP)
    core("pair", 1, 1, True, "rand", "chain", cap=7, target="sym",
         wit=("mapped", "core-delivery"))
    # the two wrappers
    core("fan", 2, 2, False, "sequential", "chain", via="pnr", cap=3, W=2,
         target="sym", exc=True, wit=FAIL)
    core("device", 2, 2, True, "hilbert", "rdr", via="pnr", cap=3,
         dems=(0, 1, 2), target="n", links="one", wit=HOP)
    core("merge", 2, 2, False, "rand", "rdr", via="pnr", cap=4, pin=1,
         target="n", wit=HOP)
    core("fan", 2, 2, False, "sequential", "rdr", via="wrapper", cap=2,
         dems=(0, 1, 2), links="sym", deadchip="any", wit=HOP)
    core("tri", 2, 2, False, "sa", "rdr", via="wrapper", cap=3, pin=1,
         wit=HOP)
    # ... called with the caller's own core and SDRAM resources
    core("fan", 2, 2, False, "sequential", "rdr", via="wrapper", cap=3,
         dems=(0, 1, 2), res="custom", wit=HOP + ("core-delivery",))
    core("merge", 2, 2, False, "sequential", "rdr", via="pnr", cap=4,
         dems=(0, 1), res="custom", wit=HOP + ("core-delivery",))
    core("pair", 2, 1, False, "sequential", "oc", cap=3, dems=(0, 1),
         res="custom", wit=("mapped", "core-delivery"))

    # ---- the minimisation stage on a table larger than the menu's graphs
    # put on one chip: C04's harness through minimise_tables (five entries
    # with concrete masks, keys symbolic under them; every matched key keeps
    # its route) -- second-round merges only happen on such tables
    from harness import c04
    us.append(Unit("minimisation stage, 5 entries on one chip (C04's "
                   "harness through minimise_tables)", c04.h_min,
                   dict(which="tables", n=5, W=5, routes="ABAAB",
                        srcs="uuuuu", discipline="sorted", target="none",
                        masks=(31, 21, 22, 19, 1)), split=8,
                   witnesses=("returned", "shrunk"), path_timeout_s=300,
                   timeout_ms=300000))
    # ... and over two chips whose tables differ in the sources only (one
    # lets the packet go straight through, the other is a turn): whatever
    # minimise_tables shares between the chips of one call must tell them
    # apart
    us.append(Unit("minimisation stage, twin chips (sources differ only; "
                   "C04's harness through minimise_tables)",
                   c04.h_twin_chips, dict(W=2, routes="AB"), split=4,
                   witnesses=("returned", "shrunk"), path_timeout_s=300,
                   timeout_ms=300000))

    # ---- the grid --------------------------------------------------------
    grid = []
    for graph in GRID_GRAPHS:
        for (w, h, torus) in MACHINES:
            if w == 3 and not thorough:
                continue
            for placer in PLACERS:
                for method in METHODS:
                    grid.append((graph, w, h, torus, placer, method))
    if thorough:
        for g in grid:
            add(_combo(*g))
        # both wrappers with every placer
        graphs = list(GRID_GRAPHS)
        for i, placer in enumerate(PLACERS):
            for j, (w, h, torus) in enumerate(MACHINES[2:]):
                add(_combo(graphs[(i + j) % 6], w, h, torus, placer, "rdr",
                           via="wrapper"))
                for k, method in enumerate(METHODS):
                    add(_combo(graphs[(i + j + k + 1) % 6], w, h, torus,
                               placer, method, via="pnr"))
        # the line graph: symbolic targets, the full window, on 3x3
        core("line", 1, 3, False, "sequential", "chain", cap=2, W=2,
             target="sym", wit=FAIL)
        core("line", 1, 3, False, "sequential", "oc", cap=2, W=3, wit=HOP)
        core("line", 3, 3, False, "sequential", "oc", cap=2, W=2,
             dems=(0, 1, 2), wit=HOP)
        # more dead links
        core("fan", 2, 2, False, "sequential", "rdr", cap=2, links="sym",
             K=3, wit=HOP + ("no-mapping",))
        core("fan", 2, 3, False, "sequential", "none", cap=2, links="sym",
             K=2, wit=HOP)
        core("duo", 2, 2, True, "sequential", "none", cap=2, links="sym",
             K=2, wit=HOP)
        core("fan", 2, 2, False, "sequential", "rdr", via="wrapper", cap=2,
             links="sym", K=2, wit=HOP + ("no-mapping",))
        core("tri", 3, 3, False, "hilbert", "rdr", cap=2, links="sym", K=2,
             pin=1, wit=HOP)
        # the full window on three nets
        core("merge", 1, 1, False, "sequential", "oc", cap=7, W=3,
             wit=("mapped", "core-delivery"))
        core("merge", 1, 3, False, "sequential", "chain", cap=2, W=3,
             wit=HOP)
        core("fan", 2, 2, False, "sequential", "oc", cap=2, W=3, wit=HOP)
        core("device", 2, 2, False, "hilbert", "chain", cap=3, W=3, wit=HOP)
    else:
        rnd = _pyrandom.Random(seed)
        rnd.shuffle(grid)
        budget = 260.0
        n = 0
        for g in grid:
            via = "hand"
            if n % 7 == 5:
                via = "pnr"
            elif n % 7 == 6 and g[5] == "rdr":
                via = "wrapper"
            p = _combo(*g, seed=seed, via=via, limit=300)
            c = _cost(p)
            if c > 40 or c > budget or p["rng"] != "all":
                continue
            if not add(p):
                continue
            budget -= c
            n += 1
            if budget < 3:
                break
    return us
