"""C09 -- application loading returns only when every requested core is
loaded.

The real MachineController.load_application (flood_fill_aplx, _send_ffs /
_send_ffcs / _send_ffd / _send_ffe, _get_next_nn_id, send_signal,
count_cores_in_state, read_vcpu_struct_field, compress_flood_fill_regions) runs
through the real packet encoder and SCPConnection against `FillMachine`, a
model of a SpiNNaker machine that assembles each flood fill from the packets it
receives (written from the command documentation in consts.py and the
docstrings of the _send_ff* methods, independent of the code under test) and
tracks the state, application id and loaded image of every core.

The fault schedule is symbolic: one boolean per (fill, chip) -- "this chip
silently misses this whole fill" -- evaluated by the model when the fill ends,
so the engine explores every schedule of missing chips.  (A fill is the flood
of one binary; an attempt of load_application sends one fill per binary still
missing; a chip missing *all* fills of an attempt is one of the schedules.)
The application id is a symbolic byte, and so is the application id of a core
left waiting by an earlier load.
"""
import os
import random
import shutil
import tempfile

from sx.runner import Unit
from sx.proxies import sand, sor, ite, is_sym, SymBytes

PROPERTY = "C09"

D9 = "C09:count-mode-preexisting-waiting-core"

META = {
    "bounds":
        "application maps from a menu of 10 shapes: 0, 1 or 2 binaries on "
        "1..3 chips x 1..2 cores (one shape: 4 cores on a chip; <= 6 cores "
        "in all), chips inside one 4x4 block and in two different blocks, two "
        "binaries sharing a chip; cores 16 and 17 (the core mask bits above "
        "the low half-word) occur in 6 shapes, among them two selections of "
        "one 4x4 block where the numerically smaller region word carries "
        "core 17 on the block's first chip, resp. cores 16 and 17 and a "
        "higher low-mask on its second chip; the machine has "
        "3 more chips nobody asks for; binaries are real temporary files of "
        "fixed pseudo-random bytes, sizes buf-4, buf, buf+4, 2*buf for the "
        "advertised buffer size buf in {16, 32} (all 4 sizes x both buffers "
        "for 1 binary; quick: 4, thorough: all 16 size pairs for 2 binaries; "
        "the fault-schedule units use buf+4 and 2*buf, thorough also 2*buf "
        "and buf-4, buffer 16, thorough also 32 for 1 binary); n_tries 0..2; "
        "wait and use_count both ways; the fill identifier counter starts at "
        "0, 60, 124, 125 or 126 (wrap on the first, second, third fill; "
        "quick: one or two of these per unit) and, in a unit of its own, "
        "_get_next_nn_id is run 4 (thorough: 8) times from a symbolic counter "
        "0..126; 0 or 1 core (not a requested one) already waiting with an "
        "image of an earlier load, on 3 (thorough: 5) of the shapes.  "
        "SYMBOLIC: for every fill and every chip it selects a boolean 'the "
        "chip misses this fill' (all schedules explored by path forking: up "
        "to 3 attempts x 2 fills x 3 chips); app_id any byte; the application "
        "id of the waiting core any byte (equal to app_id or not); the "
        "exactness of every fill's core selection is proved at a symbolic "
        "(chip, core) of the whole 256x256x18 space",
    "stubs": [
        "the SpiNNaker machine: FillMachine (this file) on top of "
        "models/machine.py -- sver, read (sv.sdram_sys, sv.vcpu_base, "
        "vcpu.cpu_state / app_id served from the model's core states), "
        "nearest-neighbour packets (flood fill start / core select / end), "
        "flood fill data, signal (start / stop; count diagnostic)",
        "clock / select / socket of scp_connection: models/net.py, prompt "
        "fault-free delivery (the transport is C06's subject)",
        "machine_controller.time: sleep is a no-op, time is the model clock",
        "struct shim and symbolic-content bytes types in packets, "
        "scp_connection, machine_controller (models.machine.ControllerPatch)",
    ],
    "assumptions": [
        "flood-fill semantics as documented in machine_controller.py / "
        "consts.py: start announces the fill id and the number of blocks; "
        "every core select ORs its core mask into the chips of its region "
        "(region word as decoded in harness/c12.py); a data block is copied "
        "to the address it names; on the end packet a chip that received the "
        "whole fill (every announced block, same fill id throughout) starts "
        "the image found at sv.sdram_sys on its selected cores under the "
        "given app id, in state wait if the wait flag is set, else run; a "
        "chip that misses the fill does nothing; an ill-formed fill is "
        "ignored by every chip",
        "signals: start moves the waiting cores whose app id matches to run; "
        "the count diagnostic returns the number of cores whose app id "
        "matches (under the mask) and whose state is the one asked for; "
        "signals and SCP commands themselves are not lost (only fills are)",
        "requested cores are idle before the call; the core left waiting by "
        "an earlier load is not one of the requested cores",
        "n_tries is read as the code implements it: at most n_tries + 1 "
        "attempts (the docstring says 'number of attempts'); giving up "
        "before the (n_tries+1)-th attempt is reported too",
        "binary sizes are multiples of 4 (flood fill blocks are counted in "
        "words)",
    ],
    "outside_claim": [
        "more than 6 cores / 3 chips / 2 binaries, more than 3 attempts, "
        "binaries longer than 2 buffers, buffer sizes other than 16 and 32",
        "binary sizes that are not a multiple of 4 (the block size field "
        "counts words, rounding down)",
        "a requested core that is itself already waiting under app_id with "
        "an older image: if its chip misses the fill neither verification "
        "mode can tell (both look only at state and app id)",
        "lost or duplicated SCP commands, lost signals, cores that crash "
        "after loading (runtime_exception etc.), more than one core left "
        "over from earlier loads",
        "file contents other than the fixed pseudo-random ones (the bytes "
        "are only copied)",
        "faults finer than a chip: the cores one fill selects on one chip "
        "are loaded or missed together, so re-sending to all requested "
        "cores of a chip that still has a missing core cannot be told from "
        "re-sending to the missing cores only",
    ],
}

# SpiNNaker constants of the *documentation* (not imported from rig so that a
# mutation of consts.py shows)
CMD_NNP, CMD_SIG, CMD_FFD = 20, 22, 23
NN_FFS, NN_FFCS, NN_FFE = 6, 7, 15
ST_WAIT, ST_RUN, ST_IDLE = 5, 7, 15
SIG_STOP, SIG_START = 2, 3
MSG_MC, MSG_P2P, MSG_NN = 0, 1, 2
DIAG_COUNT = 2

SDRAM_SYS = 0x60240000
VCPU_BASE = 0xe5007000
ROOT = (0, 0)


class Core(object):
    __slots__ = ("state", "app", "image", "fill")

    def __init__(self, state=ST_IDLE, app=0, image=None, fill=None):
        self.state = state      # concrete AppState number
        self.app = app          # int or symbolic byte
        self.image = image      # None or bytes / list (None = hole)
        self.fill = fill        # index of the fill that loaded it

    def copy(self):
        return Core(self.state, self.app, self.image, self.fill)


class Fill(object):
    def __init__(self, index, attempt, pid, n_blocks, snapshot, mark):
        self.index = index
        self.attempt = attempt
        self.pid = pid
        self.n_blocks = n_blocks
        self.snapshot = snapshot    # core states when its attempt began
        self.mark = mark
        self.selects = []           # (region, core mask) in order
        self.blocks = []            # dicts, in order of arrival
        self.mem = {}               # address -> byte
        self.end = None             # (pid, app, flags)
        self.accepted = None
        self.image = None
        self.missed = []
        self.loaded = []


def _concrete_bytes(d):
    if isinstance(d, SymBytes):
        if not d.is_concrete():
            raise AssertionError("flood fill data has symbolic content")
        return bytes(d.items)
    return bytes(d)


_SEL = {}


def chip_selected(region, x, y):
    """harness/c12.py's region word decoder on plain integers (memoised)."""
    k = (region, x, y)
    r = _SEL.get(k)
    if r is None:
        from harness.c12 import selects
        r = _SEL[k] = bool(selects(region, x, y))
    return r


_FORMULA = {}


def _selection(pairs, cx, cy, cp):
    """'the core selects `pairs` address core cp of chip (cx, cy)' by c12's
    decoder.  The formula only depends on the pairs and on the three test
    point variables, which are the same z3 constants on every path, so it is
    built once per process."""
    from harness.c12 import selects, sub_core
    if not is_sym(cx):
        return any(chip_selected(r, cx, cy) and (m >> cp) & 1 == 1
                   for r, m in pairs)
    key = (tuple(pairs), cx.e.get_id(), cy.e.get_id(), cp.e.get_id())
    hit = _FORMULA.get(key)
    if hit is None:
        f = sor(*[sand(selects(r, cx, cy), sub_core(m, cp))
                  for r, m in pairs])
        hit = _FORMULA[key] = (f, cx, cy, cp)    # keeps the ASTs alive
    return hit[0]


def _machine_classes():
    """FillMachine is defined lazily: models.machine imports sx.shims."""
    from models.machine import Machine, Memory
    selects = chip_selected

    class ChipMemory(Memory):
        """sv.sdram_sys, sv.vcpu_base and the vcpu blocks are views of the
        model's state; everything else is plain memory."""

        def __init__(self, machine, chip):
            Memory.__init__(self)
            self.machine = machine
            self.chip = chip

        def load(self, addr):
            m = self.machine
            if is_sym(addr):
                raise AssertionError("symbolic address in C09")
            sv = m.structs[b"sv"]
            vc = m.structs[b"vcpu"]
            for name, val in ((b"sdram_sys", SDRAM_SYS),
                              (b"vcpu_base", m.vcpu_base(self.chip))):
                a = sv.base + sv[name].offset
                if a <= addr < a + 4:
                    return (val >> (8 * (addr - a))) & 0xff
            vb = m.vcpu_base(self.chip)
            if vb <= addr < vb + 18 * vc.size:
                p, off = divmod(addr - vb, vc.size)
                m.vcpu_reads.append((self.chip, p, off))
                core = m.core(self.chip, p)
                if off == vc[b"cpu_state"].offset:
                    return core.state
                if off == vc[b"app_id"].offset:
                    return core.app
                return 0
            return Memory.load(self, addr)

        def read(self, addr, n):
            items = [self.load(addr + i) for i in range(n)]
            if any(is_sym(b) for b in items):
                return SymBytes(items)
            return bytes(items)

    class FillMachine(Machine):
        def __init__(self, ctx, chips, buffer_size):
            Machine.__init__(self, ctx, buffer_size=buffer_size)
            self.chips = list(chips)
            self.structs = None
            self.cores = {}
            for c in self.chips:
                self.cores[(c, 0)] = Core(ST_RUN, 0, None)      # monitor
            self.fill = None
            self.fills = []
            self.attempt = 0
            self.in_attempt = False
            self.signals = []       # (mark, type, signal, mask, app)
            self.counts = []        # (mark, state, mask, app, result)
            self.vcpu_reads = []

        # -- state ---------------------------------------------------
        def vcpu_base(self, chip):
            return VCPU_BASE + 0x1000 * self.chips.index(chip)

        def core(self, chip, p):
            k = (chip, p)
            if k not in self.cores:
                self.cores[k] = Core()
            return self.cores[k]

        def snapshot(self):
            return {k: c.copy() for k, c in self.cores.items()}

        def chip_key(self, q):
            k = (int(q.dest_x), int(q.dest_y))
            if k == (255, 255):
                return ROOT
            if k not in self.chips:
                self.problems.append(("command-to-nonexistent-chip", k))
            return k

        def memory(self, key):
            if key not in self.memories:
                self.memories[key] = ChipMemory(self, key)
            return self.memories[key]

        def _verification(self):
            """A state read-back closes the current attempt."""
            self.in_attempt = False

        def _local(self, q, what):
            if (int(q.dest_x), int(q.dest_y), int(q.dest_cpu)) != (
                    255, 255, 0):
                self.problems.append(("fill-command-wrong-destination",
                                      (what, q.where)))

        # -- commands ------------------------------------------------
        def cmd_2(self, q):
            before = len(self.vcpu_reads)
            r = Machine.cmd_2(self, q)
            if len(self.vcpu_reads) > before:
                self._verification()
            return r

        def cmd_20(self, q):            # nearest neighbour packet
            op = int(q.arg1 >> 24)
            self._local(q, op)
            mark = len(self.log)
            if op == NN_FFS:
                pid = int((q.arg1 >> 16) & 0xff)
                n = int((q.arg1 >> 8) & 0xff)
                if self.fill is not None:
                    self.problems.append(("fill-started-inside-a-fill",
                                          self.fill.index))
                    self.fills.append(self.fill)
                if not self.in_attempt:
                    self.attempt += 1
                    self.in_attempt = True
                    self.attempt_snapshot = self.snapshot()
                self.fill = Fill(len(self.fills), self.attempt, pid, n,
                                 self.attempt_snapshot, mark)
                self.fill.start_args = (int(q.arg1 & 0xff), int(q.arg2),
                                        int(q.arg3))
            elif op == NN_FFCS:
                if self.fill is None or self.fill.end is not None:
                    self.problems.append(
                        ("fill-core-select-outside-start-end",
                         (int(q.arg2), int(q.arg1 & 0x3ffff))))
                else:
                    self.fill.selects.append((int(q.arg2),
                                              int(q.arg1 & 0xffffff)))
            elif op == NN_FFE:
                if self.fill is None:
                    self.problems.append(("fill-end-without-start", None))
                else:
                    self._end_fill(q)
            else:
                self.problems.append(("unknown-nn-command", op))
            return self.reply(q)

        def cmd_23(self, q):            # flood fill data
            self._local(q, "ffd")
            data = _concrete_bytes(q.data)
            blk = dict(pid=int(q.arg1 & 0xff), fr=int(q.arg1 >> 16),
                       number=int((q.arg2 >> 16) & 0xff),
                       words=int((q.arg2 >> 8) & 0xff) + 1,
                       low=int(q.arg2 & 0xff), addr=int(q.arg3), data=data)
            if self.fill is None:
                self.problems.append(("fill-data-outside-start-end",
                                      blk["number"]))
                return self.reply(q)
            self.fill.blocks.append(blk)
            # the chip copies as many words as the size field says
            for i in range(min(len(data), 4 * blk["words"])):
                self.fill.mem[blk["addr"] + i] = data[i]
            return self.reply(q)

        def _end_fill(self, q):
            f = self.fill
            self.fill = None
            self.fills.append(f)
            pid = int(q.arg1 & 0xff)
            app = q.arg2 >> 24
            flags = (q.arg2 >> 18) & 0x3f
            f.end = (pid, app, flags)
            waits = bool((flags & 1) == 1)
            numbers = sorted(b["number"] for b in f.blocks)
            f.accepted = (pid == f.pid and
                          all(b["pid"] == f.pid for b in f.blocks) and
                          numbers == list(range(f.n_blocks)))
            total = sum(4 * b["words"] for b in f.blocks)
            f.image = [f.mem.get(SDRAM_SYS + i) for i in range(total)]
            if all(b is not None for b in f.image):
                f.image = bytes(f.image)
            if not f.accepted:
                return
            for chip in self.chips:
                mask = 0
                for region, cm in f.selects:
                    if selects(region, chip[0], chip[1]):
                        mask |= cm
                if not mask:
                    continue
                miss = False if getattr(self, "reliable", False) else \
                    self.ctx.bool("miss_f%d_x%d_y%d" % (
                        f.index, chip[0], chip[1]))
                if bool(miss):
                    f.missed.append(chip)
                    continue
                for p in range(24):
                    if not (mask >> p) & 1:
                        continue
                    if p == 0 or p > 17:
                        self.problems.append(
                            ("fill-selects-monitor-or-nonexistent-core",
                             (chip, p)))
                        continue
                    c = self.core(chip, p)
                    c.image = f.image
                    c.app = app
                    c.state = ST_WAIT if waits else ST_RUN
                    c.fill = f.index
                    f.loaded.append((chip, p))

        def _matches(self, core, mask, app):
            return bool((core.app & mask) == app)

        def cmd_22(self, q):            # signal
            self._local(q, "signal")
            typ = int(q.arg1)
            mark = len(self.log)
            mask = int((q.arg2 >> 8) & 0xff)
            app = q.arg2 & 0xff
            if typ == MSG_P2P:
                self._verification()
                mode = int((q.arg2 >> 20) & 3)
                state = int((q.arg2 >> 16) & 0xf)
                if mode != DIAG_COUNT:
                    self.problems.append(("unmodelled-diagnostic", mode))
                n = 0
                for (chip, p), core in sorted(self.cores.items()):
                    if core.state == state and self._matches(core, mask, app):
                        n += 1
                self.counts.append((mark, state, mask, app, n))
                return self.reply(q, args=(n,))
            sig = int((q.arg2 >> 16) & 0xff)
            self.signals.append((mark, typ, sig, mask, app))
            for (chip, p), core in sorted(self.cores.items()):
                if p == 0 or core.image is None:
                    continue
                if sig == SIG_START:
                    if core.state == ST_WAIT and self._matches(core, mask,
                                                               app):
                        core.state = ST_RUN
                elif sig == SIG_STOP:
                    if self._matches(core, mask, app):
                        core.state, core.app, core.image = ST_IDLE, 0, None
            if sig not in (SIG_START, SIG_STOP):
                self.problems.append(("unmodelled-signal", sig))
            return self.reply(q)

    return FillMachine


# ----------------------------------------------------------------------
# Structures
# ----------------------------------------------------------------------
# name -> list (one entry per binary) of {chip: cores}
SHAPES = {
    "empty": [],
    "1 core": [{(0, 0): (1,)}],
    # two selections in one 4x4 block, the one with the smaller sub-block
    # bits carries core 17: (0x00030001, 0x20002) then (0x00030002, 0x4)
    "2 chips 3 cores": [{(0, 0): (1, 17), (1, 0): (2,)}],
    # ... and the one on the second chip carries cores 16 and 17 and a core
    # above the shared one: (0x00030002, 0x30020) then (0x00030003, 0x8)
    "2 chips 5 cores 16 17": [{(0, 0): (3,), (1, 0): (3, 5, 16, 17)}],
    # a chip with two requested cores, the higher one being PRE_CORE
    "2 chips 3 cores, 1 and 5 on the first": [{(0, 0): (1, 5),
                                               (1, 0): (1,)}],
    "3 chips same core": [{(0, 0): (1,), (1, 0): (1,), (0, 1): (1,)}],
    "3 chips 6 cores 2 blocks": [{(0, 0): (1, 17), (1, 0): (1, 17),
                                  (4, 4): (2, 3)}],
    "2 binaries same chip": [{(0, 0): (16,)}, {(0, 0): (17,)}],
    "2 binaries 2 chips": [{(0, 0): (1,), (1, 0): (1,)}, {(1, 0): (2,)}],
    "2 binaries 3 chips 2 blocks": [{(0, 0): (1,), (1, 0): (1,)},
                                    {(1, 0): (2,), (4, 1): (1, 2)}],
    "2 binaries 6 cores": [{(0, 0): (1, 17), (1, 0): (1,)},
                           {(1, 0): (16,), (0, 1): (1, 16)}],
    # a whole aligned 16x16 block for one core (the region tree collapses it
    # twice) with a second core on two chips inside it
    "16x16 block + 2 cores": [dict(
        [((x, y), (1,)) for x in range(16) for y in range(16)] +
        [((3, 5), (1, 2)), ((9, 9), (1, 2))])],
}
BYSTANDERS = [(1, 1), (2, 3), (8, 8)]
SIZE_CODES = {"-4": lambda b: b - 4, "0": lambda b: b, "+4": lambda b: b + 4,
              "x2": lambda b: 2 * b}
PRE_CORE = ((0, 0), 5)      # the core left waiting by an earlier load
OLD_IMAGE = b"old image of an earlier load"


def _content(index, size):
    rnd = random.Random(977 * index + size)
    return bytes(rnd.randrange(256) for _ in range(size))


_FILES = {"pid": None, "dir": None, "made": {}}


def _aplx(index, size):
    """(path, bytes) of the real temporary file standing for binary `index`
    with `size` bytes.  The files are written once per process (their content
    is a fixed function of index and size) and removed when it exits."""
    pid = os.getpid()
    if _FILES["pid"] != pid:
        d = tempfile.mkdtemp(prefix="c09_")
        _FILES.update(pid=pid, dir=d, made={})

        def cleanup(d=d, pid=pid):
            if os.getpid() == pid:
                shutil.rmtree(d, ignore_errors=True)
        import atexit
        import multiprocessing.util as mpu
        atexit.register(cleanup)
        mpu.Finalize(None, cleanup, exitpriority=0)
    key = (index, size)
    if key not in _FILES["made"]:
        data = _content(index, size)
        path = os.path.join(_FILES["dir"], "app%d_%d.aplx" % (index, size))
        with open(path, "wb") as f:
            f.write(data)
        _FILES["made"][key] = (path, data)
    return _FILES["made"][key]


class _FakeTime(object):
    def __init__(self, world):
        self.world = world
        self.sleeps = []

    def sleep(self, s):
        self.sleeps.append(s)

    def time(self):
        return self.world.time()


def _flat(app_map):
    return sorted((os.path.basename(name), tuple(chip), p)
                  for name, ts in app_map.items()
                  for chip, ps in ts.items() for p in ps)


# ----------------------------------------------------------------------
def h_load(ctx, shapes, bufs, sizes, tries, modes, nn_starts, pres,
           rebuilt=False, reliable=False, via_context=False):
    from models.net import World
    from models.machine import ControllerPatch
    from harness.c12 import well_formed, pair_lt, beq
    from rig.machine_control import machine_controller as mcm

    shape = ctx.pick(shapes)
    buf = ctx.pick(bufs)
    codes = ctx.pick(sizes)
    n_tries = ctx.pick(tries)
    wait, use_count = ctx.pick(modes)
    nn0 = ctx.pick(nn_starts)
    pre = ctx.pick(pres)
    binaries = SHAPES[shape]

    app_id = ctx.bv("app_id", 8)
    # pre == "same": the waiting core is one of the requested ones and holds
    # the requested binary under the requested id (an earlier, successful
    # load of the same application)
    pre_app = (app_id if pre == "same" else
               ctx.bv("pre_app", 8) if pre else None)
    # the test point of the selection proofs
    cx = ctx.bv("cx", 8)
    cy = ctx.bv("cy", 8)
    cp = ctx.bv("cp", 5)
    ctx.assume(cp <= 17)

    chips = [ROOT]
    for t in binaries:
        for c in sorted(t):
            if c not in chips:
                chips.append(c)
    chips += [c for c in BYSTANDERS if c not in chips]

    FillMachine = _machine_classes()
    machine = FillMachine(ctx, chips, buf)
    machine.reliable = reliable
    if pre and pre != "same":
        machine.cores[PRE_CORE] = Core(ST_WAIT, pre_app, OLD_IMAGE, -1)
    world = World(ctx, machine=machine, faults=0, prompt=True,
                  multi_recv=False, timed=False, delays=1)
    patch = ControllerPatch(world)

    outcome = None
    emap = None
    amap = {}
    files = []          # (path, bytes, {chip: cores})
    for i, t in enumerate(binaries):
        size = SIZE_CODES[codes[i % len(codes)]](buf)
        path, data = _aplx(i, size)
        files.append((path, data, t))
        amap[path] = {c: set(ps) for c, ps in t.items()}
        if pre == "same" and PRE_CORE[1] in t.get(PRE_CORE[0], ()):
            machine.cores[PRE_CORE] = Core(ST_WAIT, app_id, data, -1)
            ctx.witness("requested core already loaded")
    with patch:
        saved_time = mcm.time
        ft = _FakeTime(world)
        mcm.time = ft
        try:
            if rebuilt:
                # An earlier flood fill in this process sent a previous
                # build of the same files (same paths, same sizes, other
                # bytes) -- through the real flood_fill_aplx of a throw-away
                # controller whose transport is a sink; then the binaries
                # are rebuilt in place.
                mc0 = mcm.MachineController("host")
                mc0._scp_data_length = buf
                mc0._send_scp = lambda *a, **k: None
                mc0.read_struct_field = lambda *a, **k: SDRAM_SYS
                try:
                    for path, data, t in files:
                        with open(path, "wb") as f:
                            f.write(bytes(b ^ 0xff for b in data))
                    mc0.flood_fill_aplx(
                        {path: {c: set(ps) for c, ps in t.items()}
                         for path, data, t in files}, app_id=1, wait=True)
                finally:
                    for path, data, t in files:
                        with open(path, "wb") as f:
                            f.write(data)
                ctx.witness("rebuilt")
            mc = mcm.MachineController("host")
            machine.structs = mc.structs
            mc._nn_id = nn0
            try:
                if via_context:
                    # wait and n_tries come from an enclosing block, the
                    # application id explicitly (or the other way round)
                    if ctx.choose(2):
                        with mc(wait=wait, n_tries=n_tries):
                            mc.load_application(amap, app_id=app_id,
                                                use_count=use_count)
                    else:
                        with mc(app_id=app_id, wait=wait):
                            mc.load_application(amap, n_tries=n_tries,
                                                use_count=use_count)
                    ctx.witness("options from a block")
                elif len(amap) == 1 and ctx.choose(2):
                    # the (file name, targets) form of the call
                    (fname, ftargets), = amap.items()
                    mc.load_application(fname, ftargets, app_id=app_id,
                                        wait=wait, n_tries=n_tries,
                                        use_count=use_count)
                    ctx.witness("two-argument form")
                else:
                    mc.load_application(amap, app_id=app_id, wait=wait,
                                        n_tries=n_tries, use_count=use_count)
                outcome = "returned"
            except mcm.SpiNNakerLoadingError as e:
                outcome = "error"
                emap = e.app_map
            except Exception as e:
                ctx.observe(type(e).__name__)
                ctx.prove(False, "load-unexpected-exception", repr(e))
                return
        finally:
            mcm.time = saved_time

    ctx.observe(outcome, _flat(emap) if emap is not None else None,
                len(machine.fills))
    ctx.witness(outcome)

    # ------------------------------------------------------------------
    # what was asked for
    # ------------------------------------------------------------------
    want = {}               # (chip, p) -> (binary index, bytes)
    for i, (path, data, t) in enumerate(files):
        for c, ps in t.items():
            for p in ps:
                want[(c, p)] = (i, data)

    def holds(core, data, state=None):
        """The concrete part of 'loaded': complete image (and state)."""
        return (core is not None and core.image == data and
                (state is None or core.state == state))

    # ------------------------------------------------------------------
    # every fill is well formed
    # ------------------------------------------------------------------
    ctx.prove(machine.fill is None, "fill-not-ended")
    if machine.problems:
        ctx.prove(False, machine.problems[0][0], repr(machine.problems[:3]))
    nn = nn0
    for f in machine.fills:
        tag = "fill %d" % f.index
        ctx.prove(f.end is not None, "fill-not-ended", tag)
        if f.end is None:
            continue
        epid, eapp, eflags = f.end
        ctx.prove(f.pid % 2 == 0 and 1 <= f.pid // 2 <= 126,
                  "fill-id-out-of-range", (tag, f.pid))
        nn = nn + 1 if nn < 126 else 1
        ctx.prove(f.pid == 2 * nn, "fill-id-not-next-in-sequence",
                  (tag, f.pid, 2 * nn))
        ctx.prove(epid == f.pid and all(b["pid"] == f.pid for b in f.blocks),
                  "fill-id-differs-within-fill",
                  (tag, f.pid, [b["pid"] for b in f.blocks], epid))
        ctx.prove(f.n_blocks == len(f.blocks), "fill-block-count-mismatch",
                  (tag, f.n_blocks, len(f.blocks)))
        ctx.prove([b["number"] for b in f.blocks] ==
                  list(range(len(f.blocks))),
                  "fill-blocks-not-consecutive-from-0",
                  (tag, [b["number"] for b in f.blocks]))
        addr = SDRAM_SYS
        for b in f.blocks:
            ctx.prove(0 < len(b["data"]) <= buf, "fill-block-exceeds-buffer",
                      (tag, b["number"], len(b["data"]), buf))
            ctx.prove(4 * b["words"] == len(b["data"]) and b["low"] == 0,
                      "fill-block-size-field-wrong",
                      (tag, b["number"], b["words"], len(b["data"])))
            ctx.prove(b["addr"] == addr, "fill-block-address-wrong",
                      (tag, b["number"], hex(b["addr"]), hex(addr)))
            addr += len(b["data"])
        for (r, m) in f.selects:
            ctx.prove(well_formed(r) and 0 < m < (1 << 18),
                      "fill-core-select-malformed", (tag, hex(r), hex(m)))
        for a, b in zip(f.selects, f.selects[1:]):
            ctx.prove(pair_lt(a, b), "fill-core-selects-not-increasing",
                      (tag, [(hex(r), hex(m)) for r, m in f.selects]))
        ctx.prove(eapp == app_id, "fill-under-wrong-app-id",
                  (tag, eapp, app_id))

    # ------------------------------------------------------------------
    # attempts: each sends, per binary, exactly the cores then missing
    # ------------------------------------------------------------------
    attempts = {}
    for f in machine.fills:
        attempts.setdefault(f.attempt, []).append(f)
    ctx.prove(len(attempts) <= n_tries + 1, "more-than-n_tries+1-attempts",
              (len(attempts), n_tries))
    if len(attempts) > 1:
        ctx.witness("retried")
    for k in sorted(attempts):
        fs = attempts[k]
        snap = fs[0].snapshot
        missing = {}        # binary index -> set of (chip, p)
        # (the first attempt is the load itself and goes to every requested
        # core, whatever an earlier load may have left there; it is the
        # re-sends that go to the missing cores only)
        first = k == min(attempts)
        for key, (i, data) in want.items():
            if first or not holds(snap.get(key), data):
                missing.setdefault(i, set()).add(key)
        ctx.prove(len(fs) == len(missing), "attempt-fill-count-wrong",
                  (k, len(fs), sorted(missing)))
        used = set()
        for f in fs:
            on = set()
            for c in chips:
                mask = 0
                for r, m in f.selects:
                    if chip_selected(r, c[0], c[1]):
                        mask |= m
                on.update((c, p) for p in range(18) if (mask >> p) & 1)
            match = [i for i in sorted(missing) if missing[i] == on]
            detail = ("attempt %d fill %d" % (k, f.index), sorted(on),
                      sorted((i, sorted(s)) for i, s in missing.items()))
            ctx.prove(len(match) == 1 and match[0] not in used,
                      "resend-not-exactly-missing-cores", detail)
            if len(match) != 1:
                continue
            used.add(match[0])
            # ... and selects nothing else in the whole 256x256x18 space
            sel = _selection(f.selects, cx, cy, cp)
            req = sor(*[sand(cx == c[0], cy == c[1], cp == p)
                        for (c, p) in sorted(on)])
            ctx.prove(beq(sel, req), "fill-selects-cores-outside-the-machine",
                      (detail[0], cx, cy, cp))
            ctx.prove(f.image == files[match[0]][1],
                      "fill-reassembly-differs-from-file",
                      (detail[0], os.path.basename(files[match[0]][0]),
                       len(files[match[0]][1]),
                       None if f.image is None else len(f.image)))
            cat = b"".join(b["data"] for b in sorted(
                f.blocks, key=lambda b: b["number"]))
            ctx.prove(cat == files[match[0]][1],
                      "fill-reassembly-differs-from-file", detail[0])

    # ------------------------------------------------------------------
    # the outcome
    # ------------------------------------------------------------------
    unrequested = [(key, c) for key, c in sorted(machine.cores.items())
                   if key not in want and c.image is not None and
                   not (pre and key == PRE_CORE and c.image == OLD_IMAGE)]
    ctx.prove(not unrequested, "unrequested-core-loaded",
              [k for k, _ in unrequested])
    if pre and machine.counts:
        # (already decided by the model when it counted: no new fork)
        ctx.witness("waiting core under the same app id"
                    if bool(pre_app == app_id) else
                    "waiting core under another app id")
    for key, (i, data) in sorted(want.items()):
        c = machine.cores.get(key)
        if holds(c, data):
            ctx.prove(c.app == app_id, "core-loaded-under-wrong-app-id",
                      (key, c.app, app_id))

    starts = [s for s in machine.signals if s[2] == SIG_START]
    ctx.prove(len(starts) == len(machine.signals), "unexpected-signal-sent",
              [(s[1], s[2]) for s in machine.signals])
    for s in starts:
        ctx.prove(sand(s[4] == app_id, s[3] == 0xff),
                  "start-signal-to-wrong-app-id", (s[3], s[4], app_id))
        ctx.prove(not machine.fills or s[0] > machine.fills[-1].mark,
                  "start-signal-before-last-fill")

    if outcome == "returned":
        final = ST_WAIT if wait else ST_RUN
        not_loaded = [key for key, (i, data) in sorted(want.items())
                      if not holds(machine.cores.get(key), data)]
        if not_loaded:
            # Known finding D9: the count also counts a core that waits
            # under the same app id since an earlier load.
            pre_counted = bool(
                use_count and pre and not unrequested and
                machine.cores[PRE_CORE].image == OLD_IMAGE and
                len(not_loaded) == 1 and machine.counts and
                machine.counts[-1][4] == len(want) and
                bool(pre_app == app_id))
            ctx.prove(False, D9 if pre_counted else
                      "returned-but-core-not-loaded",
                      (not_loaded, "use_count=%s" % use_count,
                       "waiting core %s" % (PRE_CORE,) if pre else None))
        bad_state = [(key, machine.cores[key].state)
                     for key, (i, data) in sorted(want.items())
                     if holds(machine.cores.get(key), data) and
                     machine.cores[key].state != final]
        ctx.prove(not bad_state, "core-state-not-as-requested",
                  (bad_state, "wait=%s" % wait))
        ctx.prove(len(starts) == (0 if wait else 1),
                  "start-signal-count-wrong", (len(starts), wait))
    else:
        not_loaded = sorted(
            (os.path.basename(files[i][0]), key[0], key[1])
            for key, (i, data) in want.items()
            if not holds(machine.cores.get(key), data))
        ctx.prove(_flat(emap) == not_loaded,
                  "error-map-not-exactly-unloaded-cores",
                  (_flat(emap), not_loaded))
        ctx.prove(len(_flat(emap)) > 0 and all(
            len(ts) > 0 and all(len(ps) > 0 for ps in ts.values())
            for ts in emap.values()), "error-map-has-empty-entries",
            _flat(emap))
        ctx.prove(len(attempts) == n_tries + 1,
                  "gave-up-before-n_tries+1-attempts",
                  (len(attempts), n_tries))
        ctx.prove(not starts, "start-signal-although-loading-failed")


# ----------------------------------------------------------------------
def h_nn_id(ctx, steps):
    """_get_next_nn_id from any counter value 0..126: the identifier sent is
    twice a number in 1..126, the cyclic successor of the previous one."""
    from models.net import World
    from models.machine import Machine, ControllerPatch
    from rig.machine_control import machine_controller as mcm
    world = World(ctx, machine=Machine(ctx), faults=0, prompt=True,
                  multi_recv=False, timed=False, delays=1)
    with ControllerPatch(world):
        mc = mcm.MachineController("host")
        ctx.prove(mc._nn_id == 0, "fill-id-counter-initial-value", mc._nn_id)
        nn = ctx.int("nn", 0, 126)
        mc._nn_id = nn
        prev = nn
        for k in range(steps):
            try:
                pid = mc._get_next_nn_id()
            except Exception as e:
                ctx.observe(type(e).__name__)
                ctx.prove(False, "load-unexpected-exception", repr(e))
                return
            ctx.observe(pid)
            ctx.prove(sand(pid % 2 == 0, pid >= 2, pid <= 252),
                      "fill-id-out-of-range", (prev, pid))
            ctx.prove(pid == 2 * ite(prev == 126, 1, prev + 1),
                      "fill-id-not-next-in-sequence", (prev, pid))
            ctx.prove(pid == 2 * mc._nn_id, "fill-id-not-the-counter",
                      (pid, mc._nn_id))
            prev = mc._nn_id
        ctx.witness("ids")
    ctx.prove(not world.sent, "fill-id-sends-commands")


# ----------------------------------------------------------------------
ALL_MODES = ((False, True), (True, True), (False, False), (True, False))
ALL_SIZES = ("-4", "0", "+4", "x2")


def units(tier, seed):
    q = tier == "quick"
    us = []
    W = ("returned", "error", "retried")

    def unit(name, split=6, witnesses=W, **p):
        p.setdefault("bufs", (16,))
        p.setdefault("sizes", (("+4", "x2"),))
        p.setdefault("tries", (0, 1, 2))
        p.setdefault("modes", ALL_MODES)
        p.setdefault("nn_starts", (125,))
        p.setdefault("pres", (False,))
        us.append(Unit(name, h_load, p, split=split, witnesses=witnesses,
                       path_timeout_s=120))

    us.append(Unit("fill id from any counter", h_nn_id,
                   dict(steps=4 if q else 8), witnesses=("ids",)))
    # block arithmetic: every size against both buffer sizes
    unit("sizes, 1 binary", shapes=("1 core", "empty"), bufs=(16, 32),
         sizes=tuple((s,) for s in ALL_SIZES), tries=(0, 1),
         nn_starts=(0, 126), witnesses=W + ("two-argument form",))
    # ... and against the buffer sizes real machines report (256 bytes) and
    # larger ones: the block count announced and the blocks sent both follow
    # the machine's buffer size, whatever it is
    unit("sizes, 1 binary, buffers of 256 bytes and more",
         shapes=("1 core",), bufs=(256, 320, 512),
         sizes=tuple((s,) for s in ALL_SIZES), tries=(1,), reliable=True,
         split=4, witnesses=("returned",))
    unit("sizes, 2 binaries", shapes=("2 binaries same chip",),
         bufs=(16,) if q else (16, 32),
         sizes=(("-4", "+4"), ("0", "x2"), ("x2", "-4"), ("+4", "0")) if q
         else tuple((a, b) for a in ALL_SIZES for b in ALL_SIZES),
         tries=(1,), nn_starts=(125,) if q else (124, 125, 126))
    # fault schedules
    unit("schedules, 1 binary", shapes=(
        "2 chips 3 cores", "2 chips 5 cores 16 17", "3 chips same core",
        "3 chips 6 cores 2 blocks"), bufs=(16,) if q else (16, 32),
        nn_starts=(124,) if q else (0, 124, 126), split=6 if q else 8)
    unit("schedules, 2 binaries", shapes=(
        "2 binaries 2 chips", "2 binaries 3 chips 2 blocks"), split=8,
        sizes=(("+4", "x2"),) if q else (("+4", "x2"), ("x2", "-4")),
        nn_starts=(125,) if q else (60, 125))
    unit("schedules, 2 binaries 6 cores", shapes=("2 binaries 6 cores",),
         tries=(1,) if q else (0, 1, 2), split=7,
         nn_starts=(125,) if q else (60, 125))
    # a core left waiting by an earlier load (known finding D9 lives here)
    unit("earlier load left a core waiting", shapes=(
        "1 core", "2 chips 3 cores", "2 binaries 2 chips") + (
            () if q else ("3 chips 6 cores 2 blocks",
                          "2 binaries 3 chips 2 blocks")),
        pres=(True,) if q else (False, True), split=7,
        witnesses=W + ("waiting core under the same app id",
                       "waiting core under another app id"))
    # one of the requested cores already holds the binary (an earlier load
    # of the same application): it is neither re-sent to nor named missing
    unit("a requested core already loaded by an earlier load",
         shapes=("2 chips 3 cores, 1 and 5 on the first",), pres=("same",),
         tries=(0, 1), split=6,
         witnesses=W + ("requested core already loaded",))
    # the options of the call taken from an enclosing block
    unit("options from an enclosing block", shapes=("2 chips 3 cores",),
         tries=(0, 1), via_context=True, split=6,
         witnesses=W + ("options from a block",))
    # a large map on a machine that misses nothing (no fault booleans): the
    # region list of a collapsing block is what the loader is sent
    unit("16x16 block, reliable machine", shapes=("16x16 block + 2 cores",),
         tries=(1,), modes=ALL_MODES, reliable=True, split=0,
         witnesses=("returned",))
    # the binaries were rebuilt in place (same path and size) after an
    # earlier flood fill of this process had sent the previous build
    unit("binaries rebuilt in place after an earlier fill", shapes=(
        "1 core", "2 binaries 2 chips"), tries=(1,), rebuilt=True, split=5,
        witnesses=("returned", "rebuilt"))
    return us
