import random, sys, warnings, itertools, collections
warnings.simplefilter("ignore")
random.seed(int(sys.argv[1]))
from rig.bitfield import BitField
stats = collections.Counter()
for it in range(int(sys.argv[2])):
    L = random.choice([8, 12, 16, 32])
    bf = BitField(L)
    # build hierarchy: root fields; children under (field=value)
    defs = []   # (name, path dict)
    names = iter("abcdefghij")
    paths = [{}]
    ok = True
    scopes = [ (bf, {}) ]
    fields = []  # (name, reqs)
    try:
        nroot = random.randint(1, 2)
        for _ in range(nroot):
            n = next(names); bf.add_field(n, length=random.choice([None, 1, 2, 3]), start_at=random.choice([None, None, None, random.randrange(L)]), tags=random.choice([None, "t1"]))
            fields.append((n, {}))
        # children
        for depth in range(random.randint(0, 2)):
            parent, preq = random.choice(fields)
            for val in random.sample(range(3), random.randint(1, 2)):
                req = dict(preq); req[parent] = val
                sub = bf(**req)
                for _ in range(random.randint(1, 2)):
                    n = next(names)
                    sub.add_field(n, length=random.choice([None, 1, 2, 4]), start_at=random.choice([None, None, None, random.randrange(L)]), tags=random.choice([None, "t2", "t1 t2"]))
                    fields.append((n, req))
    except (ValueError, StopIteration) as e:
        stats["def-reject"] += 1; continue
    # assign values: full assignments along each leaf path
    assigns = []
    for n, req in fields:
        # choose values for all fields enabled under req
        vals = dict(req)
        try:
            b2 = bf(**vals)
            for (m, r2) in fields:
                if m not in vals and all(vals.get(k) == v for k, v in r2.items()):
                    vals[m] = random.randrange(0, 6)
            b2 = bf(**vals)
            assigns.append(vals)
        except ValueError as e:
            stats["val-reject"] += 1
    try:
        bf.assign_fields()
    except ValueError as e:
        stats["assign-fail"] += 1
        continue
    stats["assigned"] += 1
    # check each assignment
    keys = []
    for vals in assigns:
        try:
            b2 = bf(**vals)
            k, m = b2.get_value(), b2.get_mask()
        except Exception as e:
            stats["get-fail:" + type(e).__name__] += 1; continue
        # fields enabled
        used = 0
        for f, v in vals.items():
            s, l = b2.get_location_and_length(f)
            fm = ((1 << l) - 1) << s
            if s < 0 or s + l > L: print("OUT OF RANGE", f, s, l, L); stats["BAD"] += 1
            if used & fm: print("OVERLAP", vals, f, s, l); stats["BAD"] += 1
            used |= fm
            if (k >> s) & ((1 << l) - 1) != v: print("READBACK", f, v, k, s, l); stats["BAD"] += 1
        if m != used: print("MASK", hex(m), hex(used), vals); stats["BAD"] += 1
        keys.append((k, m, tuple(sorted(vals.items()))))
    for (k1, m1, v1), (k2, m2, v2) in itertools.combinations(keys, 2):
        if v1 != v2 and (k1 & m2) == (k2 & m1) :
            # complete different assignments must not match each other
            stats["BAD"] += 1; print("COLLIDE", v1, v2, hex(k1), hex(m1), hex(k2), hex(m2))
print(sorted(stats.items()))
