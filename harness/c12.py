"""C12 -- the flood-fill region list selects exactly the requested chips and
cores, once each, in strictly increasing order.

Decided compositionally (DESIGN.md "C12" and Appendix A):

 (1) h_region_word   get_region_for_chip against an independent decoder of the
                     documented region-word format;
 (2) h_add_core      RegionCoreTree.add_core at ONE node of a chosen level from
                     an arbitrary symbolic state, children replaced by stubs
                     that obey the contract of Appendix A (level 3 has no
                     children: base case);
 (3) h_emit          RegionCoreTree.get_regions_and_coremasks at one node with
                     symbolic local selections and stub children yielding
                     symbolic contract-respecting sequences (the traversal
                     itself is not globally sorted, whatever its docstring
                     says; compress_flood_fill_regions sorts -- see (4));
 (4) h_whole         compress_flood_fill_regions end to end on collapsing
                     structures whose position is symbolic, decoded with (1)'s
                     decoder, "selected exactly once <=> requested" proved for
                     a symbolic (chip, core) over the whole 256x256x18 space.
"""
from sx.runner import Unit
from sx.proxies import sand, sor, snot, simplies, ite, is_sym, same_truth

PROPERTY = "C12"

META = {
    "bounds":
        "(1) get_region_for_chip: x, y symbolic over 0..255, level 0,1,2,3 "
        "and the default; decoded at a symbolic chip of the 256x256 grid.  "
        "(2) ONE add_core call at ONE RegionCoreTree node: level 0..3, node "
        "base chosen (quick: one block per level; thorough: first, last and "
        "a middle block per level), all 18 locally_selected words symbolic "
        "16-bit (levels 1-3: none equal to 0xffff, invariant J3), argument "
        "(x, y, p) symbolic signed 64-bit, children either all absent or "
        "all stubs, abstraction function compared at a symbolic (chip, "
        "core) of the node's block x 18 cores, one symbolic witness chip "
        "per sub-block.  (3) ONE get_regions_and_coremasks call at one "
        "node: level 0..3, base chosen, 3 (quick) / 4 (thorough) cores with "
        "arbitrary symbolic 16-bit selections and the others empty, stub "
        "children in slots 3, 6, 9 yielding 1, 2, 2 symbolic pairs or one "
        "stub child in any one of the 16 slots yielding 2; local pairs "
        "decoded at a symbolic (chip, core) of the 256x256x18 space.  (4) "
        "compress_flood_fill_regions on 16 fixed shapes (one chip with 3 "
        "cores; single chips in different 16x16 blocks of one 64x64 block "
        "and in different 4x4 blocks of one 16x16 block, the block visited "
        "first holding the larger x; 4x4 blocks whose entry with the "
        "smaller select bits carries core 16 / 17 / both; cores 16 and 17 "
        "also occur in the sparse, neighbouring-chips and single-chip "
        "shapes; a level-3 block full for one core and 15/16 for another; "
        "15/16 with the hole in the first / last chip; sparse chips; "
        "neighbouring chips with different core sets; a full level-2 "
        "block plus a second core on 15/16 of it; 15/16 of a level-2 "
        "block; squares straddling a level-3, level-2 and level-1 "
        "boundary; a full level-1 block; the full 256x256 machine plus a "
        "second core on 15/16 of it) in up to 3 insertion orders; the "
        "shape's origin has 0-3 (quick) / 0-5 (thorough) symbolic high "
        "bits per axis -- the tree indexes lists with them, so they are "
        "enumerated by path forking -- and its remaining high bits all 0 "
        "or all 1; the emitted list is decoded at a symbolic (chip, core) "
        "over the whole 256x256x18 space",
    "stubs": [
        "unit 'through flood_fill_aplx': a MachineController subclass whose "
        "_send_scp records the commands and whose read_struct_field returns "
        "a constant; machine_controller.SCPConnection and .open are rebound "
        "(no socket, an 8-byte binary); flood_fill_aplx itself is rig's",
        "rig.machine_control.regions.array -> SymArray in (2),(3): a model "
        "of array.array('H') that stores proxies and accepts a symbolic "
        "index without forking; an item outside 0..65535 or an index "
        "outside 0..17 (which the C type rejects) is a proof obligation",
        "rig.machine_control.regions.RegionCoreTree -> StubChild for the "
        "children of the node under test in (2),(3).  add_core proves it "
        "was called inside its own block and returns a fresh symbolic "
        "boolean r under the Appendix A contract (r => every chip of the "
        "child's block is then added for the core, and the child selects "
        "nothing for it; not r => its selection for the core grows by "
        "exactly the new core and some chip of its block stays unadded); "
        "get_regions_and_coremasks yields symbolic pairs assumed "
        "well-formed, of a deeper level, confined to the child's block, "
        "strictly increasing (what (3) proves one level down)",
        "(4): the targets argument is a list-backed mapping offering only "
        "items()/iteration (all the code uses), so that insertion order is "
        "chosen by the harness and tuples of proxies are never hashed; "
        "nothing else is stubbed in (1) and (4)",
    ],
    "assumptions": [
        "meaning of a region word as documented in regions.py: bits 31:24 "
        "and 23:18 base x and y (low 8-2L bits ignored), 17:16 level L, "
        "15:0 select bit sx+4*sy of the sixteenth with sub-block "
        "coordinates (sx, sy); a core mask selects core p by bit p",
        "(2) assumes the node invariant J of DESIGN Appendix A before the "
        "call (bit set => that sub-block is completely added for the core "
        "and the child selects nothing for it; bit clear => the child "
        "selects exactly the added cores and one chip of the sub-block is "
        "not added; below the root no word is 0xffff) and proves it after; "
        "this is stronger than C12 (it also pins that a full block IS "
        "collapsed, i.e. minimality of the cover)",
        "the composition of (1)-(3) into the statement for arbitrary "
        "target sets is the induction over the four levels written out in "
        "Appendix A (a paper argument); strict increase of the final list "
        "follows from sorted() plus distinctness of the pairs, which "
        "follows from exactly-once selection; (4) checks both end to end",
        "chip coordinates are 0..255 and core numbers 0..17 (SpiNNaker's "
        "limits) wherever a test point is quantified",
    ],
    "outside_claim": [
        "the induction itself and target sets other than the 16 shapes of "
        "(4) as far as whole-function behaviour goes",
        "(3): more than 4 cores with a non-empty local selection at one "
        "node; more than 3 children present / 2 pairs per child",
        "(4): origins whose high bits are neither enumerated nor all-0 / "
        "all-1; insertion orders other than sorted, reverse, interleaved",
        "get_region_for_chip for coordinates above 255 or a level outside "
        "0..3",
        "the order in which RegionCoreTree.get_regions_and_coremasks "
        "itself yields pairs (not sorted in general, e.g. cores at (8,0) "
        "and (4,64) give 0x08030001 before 0x04430001, contrary to its "
        "docstring; the public function sorts)",
    ],
}


# ----------------------------------------------------------------------
# Independent decoder of the documented region word
#   bits 31:24  x of the block's base       bits 23:18  y of the base (>> 2)
#   bits 17:16  level L (0 coarsest)        bits 15:0   sub-block select
# A level-L word addresses the 4^(4-L)-sided block whose base is (x, y) with
# the low 8-2L bits ignored; select bit (sx + 4*sy) stands for the sixteenth of
# that block with sub-block coordinates (sx, sy) = bits (shift+1:shift) of the
# chip's x and y, shift = 6-2L.
# ----------------------------------------------------------------------
def _bit(word, k):
    return ((word >> k) & 1) == 1


def sub_bit(word, cx, cy, shift):
    """Select bit of `word` for the sub-block (at `shift`) that holds chip
    (cx, cy) -- as a 16-way case split, not the code's index formula."""
    fx = (cx >> shift) & 3
    fy = (cy >> shift) & 3
    return sor(*[sand(fx == i, fy == j, _bit(word, 4 * j + i))
                 for j in range(4) for i in range(4)])


def _selects_at(word, cx, cy, L):
    shift = 6 - 2 * L
    keep = 0xff & ~((4 << shift) - 1)       # 0x00, 0xc0, 0xf0, 0xfc
    bx = (word >> 24) & 0xff
    by = (word >> 16) & 0xfc
    return sand((cx & keep) == (bx & keep), (cy & keep) == (by & keep),
                sub_bit(word & 0xffff, cx, cy, shift))


def selects(word, cx, cy):
    """Region word `word` selects chip (cx, cy)."""
    lvl = (word >> 16) & 3
    if not is_sym(lvl):
        return _selects_at(word, cx, cy, lvl)
    return sor(*[sand(lvl == L, _selects_at(word, cx, cy, L))
                 for L in range(4)])


def well_formed(word, L=None):
    """32-bit, non-empty select, base bits below the block size clear (and the
    level field equal to L when given)."""
    lvl = (word >> 16) & 3
    cs = [word >= 0, word < (1 << 32), (word & 0xffff) != 0]
    levels = range(4) if L is None else [L]
    if L is not None:
        cs.append(lvl == L)
    for k in levels:
        low = (4 << (6 - 2 * k)) - 1 & 0xff
        cs.append(simplies(lvl == k, sand(((word >> 24) & low) == 0,
                                          ((word >> 16) & low & 0xfc) == 0)))
    return sand(*cs)


def pair_lt(a, b):
    """(region, mask) pairs strictly increasing, i.e. (region << 32) | mask
    strictly increasing."""
    return sor(a[0] < b[0], sand(a[0] == b[0], a[1] < b[1]))


# ----------------------------------------------------------------------
# (1) get_region_for_chip
# ----------------------------------------------------------------------
def h_region_word(ctx, level):
    from rig.machine_control.regions import get_region_for_chip
    x = ctx.bv("x", 8)
    y = ctx.bv("y", 8)
    if level is None:
        level = 3
        word = get_region_for_chip(x, y)        # documented default
    else:
        word = get_region_for_chip(x, y, level)
    ctx.observe(word)
    shift = 6 - 2 * level
    ctx.prove(well_formed(word, level), "region-word-malformed",
              (x, y, level, word))
    sel = word & 0xffff
    ctx.prove((sel & (sel - 1)) == 0, "region-word-not-one-subblock",
              (x, y, level, word))
    cx = ctx.bv("cx", 8)
    cy = ctx.bv("cy", 8)
    same_block = sand((cx >> shift) == (x >> shift),
                      (cy >> shift) == (y >> shift))
    got = selects(word, cx, cy)
    ctx.prove(simplies(same_block, got), "region-word-misses-chip",
              (x, y, level, word, cx, cy))
    ctx.prove(simplies(got, same_block), "region-word-selects-other-chip",
              (x, y, level, word, cx, cy))
    if level == 3:
        ctx.witness("single-chip")
        only = sand(cx == x, cy == y)
        ctx.prove(sand(simplies(got, only), simplies(only, got)),
                  "single-chip-region-not-exact", (x, y, word, cx, cy))


# ----------------------------------------------------------------------
# Shared by (2) and (3): model of array.array('H') and stub children
# ----------------------------------------------------------------------
def beq(a, b):
    """Two truth values agree (non-forking)."""
    return sand(simplies(a, b), simplies(b, a))


def select(items, idx):
    """items[idx] for a possibly symbolic idx (no fork); total: an index
    outside 0..len-2 yields the last item in both modes."""
    if not is_sym(idx):
        return items[idx] if 0 <= idx < len(items) else items[-1]
    r = items[-1]
    for k in range(len(items) - 2, -1, -1):
        r = ite(idx == k, items[k], r)
    return r


def sub_mask(cx, cy, shift):
    """1 << (index of the sub-block holding (cx, cy)), by case split."""
    fx = (cx >> shift) & 3
    fy = (cy >> shift) & 3
    zero = fx & 0           # keeps the result bit-vector backed
    r = zero | (1 << 15)
    for k in range(14, -1, -1):
        r = ite(sand(fx == k % 4, fy == k // 4), zero | (1 << k), r)
    return r


class SymArray(object):
    """Stand-in for array.array('H', ...): a fixed-length sequence of
    unsigned 16-bit items.  Unlike the C type it accepts proxies as items and
    as index (read = if-then-else chain, write = conditional update of every
    slot), so that neither forks.  What the C type would reject is turned into
    proof obligations: item outside 0..65535, index outside 0..len-1."""
    def __init__(self, typecode, init=()):
        if typecode != 'H':
            raise TypeError("SymArray models typecode 'H' only")
        self.items = list(init)
        self.writes = []            # log of (index, value)

    def __len__(self):
        return len(self.items)

    def __iter__(self):
        return iter(list(self.items))

    def _check_index(self, i):
        from sx.engine import cur
        cur().prove(sand(i >= 0, i < len(self.items)),
                    "locally-selected-index-out-of-range", i)

    def __getitem__(self, i):
        if not is_sym(i):
            return self.items[i]
        self._check_index(i)
        return select(self.items, i)

    def __setitem__(self, i, v):
        from sx.engine import cur
        cur().prove(sand(v >= 0, v <= 0xffff),
                    "locally-selected-exceeds-16-bits", v)
        self.writes.append((i, v))
        if not is_sym(i):
            self.items[i] = v
            return
        self._check_index(i)
        self.items = [ite(i == k, v, old)
                      for k, old in enumerate(self.items)]


class _ArrayModule(object):
    array = SymArray


class Ghost(object):
    """Per-run state shared between a harness and its stub children."""
    def __init__(self):
        self.created = []
        self.calls = []
        self.on_add = None


def make_stub(ctx, g):
    class StubChild(object):
        """Replaces RegionCoreTree for the children of the node under test."""
        def __init__(self, base_x=0, base_y=0, level=0):
            self.base_x = base_x
            self.base_y = base_y
            self.level = level
            self.side = 4 ** (4 - level) if level in (1, 2, 3) else 0
            self.pairs = []
            g.created.append(self)

        def holds(self, cx, cy):
            return sand(cx >= self.base_x, cx < self.base_x + self.side,
                        cy >= self.base_y, cy < self.base_y + self.side)

        def add_core(self, x, y, p):
            # the real child raises ValueError outside its block
            ctx.prove(sand(self.holds(x, y), p >= 0, p <= 17),
                      "child-called-outside-its-block",
                      (self.base_x, self.base_y, self.level, x, y, p))
            r = g.on_add(self, x, y, p)
            g.calls.append((self, x, y, p, r))
            return r

        def get_regions_and_coremasks(self):
            return iter(list(self.pairs))
    return StubChild


# ----------------------------------------------------------------------
# (2) add_core at one node
# ----------------------------------------------------------------------
def h_add_core(ctx, level, bx, by, present):
    import rig.machine_control.regions as R
    Real = R.RegionCoreTree
    scale = 4 ** (4 - level)
    sub = scale // 4
    shift = 6 - 2 * level
    g = Ghost()
    Stub = make_stub(ctx, g)
    saved = (R.array, R.RegionCoreTree)
    R.array = _ArrayModule
    try:
        node = Real(bx, by, level)
        ctx.prove(isinstance(node.locally_selected, SymArray) and
                  len(node.locally_selected) == 18 and
                  all(not is_sym(v) and v == 0
                      for v in node.locally_selected.items),
                  "new-node-not-empty")
        L0 = [ctx.bv("L%d" % k, 16) for k in range(18)]
        node.locally_selected.items = list(L0)
        node.locally_selected.writes = []
        pre = []                    # preconditions, assumed in one go
        if level > 0:
            for k in range(18):                       # J3
                pre.append(L0[k] != 0xffff)
        if level < 3:
            R.RegionCoreTree = Stub
            if present:
                for s in range(16):
                    node.subregions[s] = Stub(bx + (s % 4) * sub,
                                              by + (s // 4) * sub, level + 1)
                g.created = []

        x = ctx.bv("x", 64)
        y = ctx.bv("y", 64)
        p = ctx.bv("p", 64)
        # test point: any core of any chip of this node's block
        tx = ctx.bv("tx", 8)
        ty = ctx.bv("ty", 8)
        tp = ctx.bv("tp", 5)
        pre.append(sand(tx >= bx, tx < bx + scale, ty >= by, ty < by + scale,
                        tp <= 17))
        eq_ta = sand(tx == x, ty == y, tp == p)
        Lp0 = select(L0, p)
        Lt0 = select(L0, tp)
        bit_t = sub_bit(Lt0, tx, ty, shift)
        if level == 3:
            added_t = bit_t                  # the bit simply records the chip
            c_t = False
        else:
            added_t = ctx.bool("added_t")    # ghost: t in Added(n)
            # does the child that covers t select t (once)?  absent = empty
            c_t = ctx.bool("c_t") if present else False
            pre.append(simplies(bit_t, sand(added_t, snot(c_t))))      # J1
            pre.append(simplies(snot(bit_t), beq(c_t, added_t)))       # J2
            # J2 properness for core p: one witness chip per clear bit
            wit = []
            for s in range(16):
                wx = ctx.bv("wx%d" % s, 8)
                wy = ctx.bv("wy%d" % s, 8)
                aw = ctx.bool("aw%d" % s)    # ghost: (w_s, p) in Added(n)
                cbx, cby = bx + (s % 4) * sub, by + (s // 4) * sub
                pre.append(sand(wx >= cbx, wx < cbx + sub,
                                wy >= cby, wy < cby + sub))
                pre.append(simplies(snot(_bit(Lp0, s)), snot(aw)))
                wit.append((wx, wy, aw))
        ctx.assume(sand(*pre))
        # Balanced case split for the process pool: in range or not, and if
        # so which sub-block (the code's list index `self.subregions[...]`
        # enumerates it anyway, but as one long chain of forks).
        if level < 3 and bool(sand(p >= 0, p <= 17, x >= bx, x < bx + scale,
                                   y >= by, y < by + scale)):
            pin((x >> shift) & 3, 2)
            pin((y >> shift) & 3, 2)
        after = {"c_t": c_t}

        def on_add(child, ax, ay, ap):
            """Contract of a child's add_core (Appendix A): returns True iff
            the addition completed its block for the core, and then holds
            nothing for it; otherwise its selection for the core grows by
            exactly the new core."""
            r = ctx.bool("child_ret")
            aff = sand(child.holds(tx, ty), tp == ap)
            # True => every chip of the child's block is in Added' for p
            ctx.assume(simplies(sand(r, aff), sor(added_t, eq_ta)))
            after["c_t"] = ite(aff, ite(r, False, sor(after["c_t"], eq_ta)),
                               after["c_t"])
            return r
        g.on_add = on_add

        exc = None
        ret = None
        try:
            ret = node.add_core(x, y, p)
        except ValueError:
            exc = "ValueError"
        except Exception as e:
            ctx.observe(type(e).__name__)
            ctx.prove(False, "add-core-unexpected-exception", repr(e))
            return
    finally:
        R.array, R.RegionCoreTree = saved
    ctx.observe(exc, ret, len(g.calls), len(g.created))

    in_range = sand(p >= 0, p <= 17, x >= bx, x < bx + scale,
                    y >= by, y < by + scale)
    ctx.prove(same_truth(in_range, exc is None),
              "add-core-valueerror-not-exactly-out-of-range",
              (level, bx, by, x, y, p, exc))
    L1 = list(node.locally_selected.items)
    if exc is not None:
        ctx.witness("rejected")
        ctx.prove(sand(not g.calls, not g.created,
                       *[L1[k] == L0[k] for k in range(18)]),
                  "rejected-add-core-changed-state")
        return
    ctx.prove(isinstance(ret, bool), "add-core-return-type", repr(ret))

    # ---- frame: other cores untouched --------------------------------
    ctx.prove(sand(*[sor(p == k, L1[k] == L0[k]) for k in range(18)]),
              "add-core-changes-other-core", (p, L0, L1))
    # Lemma (proved once, then used): the word of core p after the call is
    # the last value written at index p, the word of the test core is that
    # one if tp == p and the old one otherwise.  Keeps the later formulas
    # free of the 18x18 if-then-else nest of the array model.
    Lp1 = Lp0
    for (i, v) in node.locally_selected.writes:
        Lp1 = ite(i == p, v, Lp1)
    Lt1 = ite(tp == p, Lp1, Lt0)
    ctx.prove(sand(select(L1, p) == Lp1, select(L1, tp) == Lt1),
              "array-model-lemma")
    bit_t1 = sub_bit(Lt1, tx, ty, shift)
    added_t1 = sor(added_t, eq_ta)
    a_mask = sub_mask(x, y, shift)
    was_set = (Lp0 & a_mask) != 0

    if level == 3:
        full = (Lp0 | a_mask) == 0xffff
        ctx.prove(same_truth(full, ret), "add-core-return-contract",
                  (Lp0, x, y, p, ret))
        if ret:
            ctx.witness("collapsed")
            ctx.prove(Lp1 == 0, "collapsed-node-keeps-selection", Lp1)
            ctx.prove(simplies(tp == p, added_t1),
                      "collapsed-but-not-all-chips-added", (tx, ty))
        else:
            ctx.witness("kept")
            ctx.prove(beq(bit_t1, added_t1), "add-core-selection-not-exact",
                      (tx, ty, tp, x, y, p))
            ctx.prove(sand(*[L1[k] != 0xffff for k in range(18)]),
                      "full-node-not-collapsed")
        return

    # ---- levels 0..2: children ---------------------------------------
    for s in range(16):
        ch = node.subregions[s]
        if ch is None:
            continue
        ctx.prove(isinstance(ch, Stub) and
                  (ch.base_x, ch.base_y, ch.level) ==
                  (bx + (s % 4) * sub, by + (s // 4) * sub, level + 1),
                  "child-has-wrong-base-or-level",
                  (level, bx, by, s, getattr(ch, "base_x", None),
                   getattr(ch, "base_y", None), getattr(ch, "level", None)))
    ctx.prove(len(g.calls) <= 1 and len(g.created) <= len(g.calls) and
              all(any(c is ch for ch in node.subregions) for c in g.created),
              "add-core-child-bookkeeping")
    ctx.prove(same_truth(snot(was_set), len(g.calls) == 1),
              "child-called-iff-bit-clear", (Lp0, x, y, p, len(g.calls)))
    c_t1 = after["c_t"]
    free = []
    called_slot = None
    if g.calls:
        ctx.witness("child-called")
        if g.created:
            ctx.witness("child-created")
        child, ax, ay, ap, r = g.calls[0]
        ctx.prove(ax is x and ay is y and ap is p,
                  "child-called-with-other-arguments")
        slots = [s for s in range(16) if node.subregions[s] is child]
        ctx.prove(len(slots) == 1, "called-child-not-in-tree")
        if len(slots) != 1:
            return
        called_slot = slots[0]
    for s in range(16):
        if s == called_slot:
            # the child, returning False, has a chip left that is not added
            free.append(snot(g.calls[0][4]))
        else:
            wx, wy, aw = wit[s]
            free.append(sand(snot(aw), snot(sand(wx == x, wy == y))))

    if level == 0:
        ctx.prove(ret is False, "root-node-collapsed")
    if ret:
        ctx.witness("collapsed")
        ctx.prove(Lp1 == 0, "collapsed-node-keeps-selection", Lp1)
        ctx.prove(simplies(tp == p, sand(added_t1, snot(c_t1),
                                         snot(bit_t1))),
                  "collapsed-but-not-all-chips-added-or-still-selected",
                  (tx, ty, x, y, p))
        ctx.prove(simplies(tp != p, beq(bit_t1, bit_t)),
                  "add-core-changes-other-core", (tp, p))
    else:
        ctx.witness("kept")
        ctx.prove(simplies(bit_t1, sand(added_t1, snot(c_t1))),
                  "invariant-J1-bit-set-but-child-selects-or-chip-not-added",
                  (tx, ty, tp, x, y, p))
        ctx.prove(simplies(snot(bit_t1), beq(c_t1, added_t1)),
                  "invariant-J2-selection-not-exact", (tx, ty, tp, x, y, p))
        ctx.prove(beq(sor(bit_t1, c_t1), sor(bit_t, c_t, eq_ta)),
                  "add-core-selection-does-not-grow-by-exactly-the-core",
                  (tx, ty, tp, x, y, p))
        ctx.prove(snot(sand(bit_t1, c_t1)), "core-selected-twice",
                  (tx, ty, tp))
        if level > 0:
            ctx.prove(sand(*[L1[k] != 0xffff for k in range(18)]),
                      "full-node-not-collapsed")
            ctx.prove(sand(*[simplies(snot(_bit(Lp1, s)), free[s])
                             for s in range(16)]),
                      "invariant-J2-clear-bit-without-free-chip", Lp1)


# ----------------------------------------------------------------------
# (3) get_regions_and_coremasks at one node
# ----------------------------------------------------------------------
def confined(word, min_level, bx, by, side, exact=False):
    """`word` is a well-formed region word of a level >= min_level (== when
    `exact`) whose base lies in the `side`-sided block at (bx, by) -- hence
    every chip it selects does."""
    lvl = (word >> 16) & 3
    wx = (word >> 24) & 0xff
    wy = (word >> 16) & 0xfc
    return sand(well_formed(word),
                (lvl == min_level) if exact else (lvl >= min_level),
                wx >= bx, wx < bx + side, wy >= by, wy < by + side,
                simplies(lvl == min_level, sand(wx == bx, wy == by))
                if exact else True)


def h_emit(ctx, level, bx, by, cores, slots, klen):
    import rig.machine_control.regions as R
    Real = R.RegionCoreTree
    scale = 4 ** (4 - level)
    sub = scale // 4
    shift = 6 - 2 * level
    g = Ghost()
    Stub = make_stub(ctx, g)
    saved = R.array
    R.array = _ArrayModule
    try:
        node = Real(bx, by, level)
    finally:
        R.array = saved
    L = [0] * 18
    for c in cores:
        L[c] = ctx.bv("L%d" % c, 16)
    node.locally_selected.items = list(L)
    pre = []
    stubs = []
    if level < 3:
        if slots == "any1":
            slots = (ctx.choose(16),)
        for n, s in enumerate(slots):
            st = Stub(bx + (s % 4) * sub, by + (s // 4) * sub, level + 1)
            prev = None
            for j in range(klen[n % len(klen)]):
                w = ctx.bv("w", 32)
                m = ctx.bv("m", 18)
                # what this same obligation proves one level down
                pre.append(confined(w, level + 1, st.base_x, st.base_y, sub))
                pre.append(m != 0)
                if prev is not None:
                    pre.append(pair_lt(prev, (w, m)))
                prev = (w, m)
                st.pairs.append(prev)
            node.subregions[s] = st
            stubs.append((s, st))
    if pre:
        ctx.assume(sand(*pre))
    try:
        out = list(node.get_regions_and_coremasks())
    except Exception as e:
        ctx.observe(type(e).__name__)
        ctx.prove(False, "emit-unexpected-exception", repr(e))
        return
    ctx.observe(out)

    # children's pairs: each passed through unchanged, exactly once, after
    # the local pairs.  No order among different children is demanded: the
    # traversal is NOT globally sorted (a deep word of one child can exceed a
    # word of the next child in the same column of blocks, e.g. cores at
    # (8, 0) and (4, 64)); compress_flood_fill_regions sorts the list, which
    # obligation (4) checks end to end.
    import itertools
    nchild = sum(len(st.pairs) for _, st in stubs)
    ok = len(out) >= nchild
    ctx.prove(ok, "emit-drops-children-pairs", (len(out), nchild))
    if not ok:
        return
    nloc = len(out) - nchild
    local, tail = out[:nloc], out[nloc:]
    if stubs:
        ctx.witness("children")
        alts = []
        for perm in itertools.permutations(stubs):
            expect = [pr for _, st in perm for pr in st.pairs]
            alts.append(sand(*[sand(a[0] == b[0], a[1] == b[1])
                               for a, b in zip(tail, expect)]))
        ctx.prove(sor(*alts), "emit-children-pairs-altered-or-lost",
                  (tail, [st.pairs for _, st in stubs]))
    if local:
        ctx.witness("local")
    if len(local) > 1:
        ctx.witness("local-several")
    # every emitted word stays inside this node's block (induction step of
    # the confinement assumed for the stubs), local ones are level-L words
    # of exactly this block
    ctx.prove(sand(*[sand(confined(r, level, bx, by, scale, exact=True),
                          m > 0, m < (1 << 18)) for r, m in local]),
              "emit-local-word-malformed", local)
    ctx.prove(sand(*[confined(r, level, bx, by, scale) for r, m in out]),
              "emit-word-outside-block", out)
    ctx.prove(sand(*[pair_lt(a, b) for a, b in zip(local, local[1:])]),
              "emit-local-pairs-not-strictly-increasing", local)

    # the local pairs select exactly the local selection, once
    cx = ctx.bv("cx", 8)
    cy = ctx.bv("cy", 8)
    cp = ctx.bv("cp", 5)
    ctx.assume(cp <= 17)
    inside = sand(cx >= bx, cx < bx + scale, cy >= by, cy < by + scale)
    want = sand(inside, sub_bit(select(L, cp), cx, cy, shift))
    count = 0
    for r, m in local:
        count = count + ite(sand(selects(r, cx, cy), sub_core(m, cp)), 1, 0)
    ctx.prove(simplies(want, count >= 1), "emit-misses-local-selection",
              (cx, cy, cp, L, local))
    ctx.prove(simplies(snot(want), count == 0),
              "emit-selects-unselected-core", (cx, cy, cp, L, local))
    ctx.prove(count <= 1, "emit-selects-core-twice", (cx, cy, cp, L, local))


# ----------------------------------------------------------------------
# (4) whole function on collapsing structures at a symbolic position
# ----------------------------------------------------------------------
class Targets(object):
    """The `targets` argument: only `.items()` is used by the code under test
    (through six.iteritems).  A list-backed mapping keeps the insertion order
    under the harness's control and avoids hashing tuples of proxies."""
    def __init__(self, pairs):
        self.pairs = pairs

    def items(self):
        return iter(list(self.pairs))

    iteritems = items

    def __iter__(self):
        return iter([k for k, _ in self.pairs])

    def __len__(self):
        return len(self.pairs)

    def __getitem__(self, key):
        for k, v in self.pairs:
            if k is key:
                return v
        raise KeyError(key)


def pin(v, nbits):
    """Fork, in a fixed order, over every bit of the symbolic value `v`.  The
    tree indexes its child list with bits of the coordinates, which makes the
    engine enumerate their values anyway; doing it here first makes that
    enumeration independent of which model the solver happens to return (the
    engine reaches a pending path again by replaying its decision list)."""
    if is_sym(v):
        for b in range(nbits - 1, -1, -1):
            bool(_bit(v, b))


def _rect(x0, y0, w, h, cores):
    return (x0, y0, w, h, frozenset(cores))


def _minus(rects, holes):
    """Split rectangles into single chips and drop the chips in `holes`."""
    out = []
    for (x0, y0, w, h, cores) in rects:
        for dx in range(w):
            for dy in range(h):
                if (x0 + dx, y0 + dy) not in holes:
                    out.append(_rect(x0 + dx, y0 + dy, 1, 1, cores))
    return out


# name -> (alignment bits k of the symbolic origin, [rectangles at offsets
# inside the 2^k-sided window])
STRUCTURES = {
    # one level-3 block: all 16 chips for core 1, 15 of them for core 2
    "l3 full core1, 15/16 core2": (2, [_rect(0, 0, 4, 4, [1])] + _minus(
        [_rect(0, 0, 4, 4, [2])], {(2, 1)})),
    # 15 of 16 with the missing chip first / last in the block's numbering
    "l3 15/16 corner holes": (3, _minus([_rect(0, 0, 4, 4, [1])], {(0, 0)}) +
                              _minus([_rect(4, 4, 4, 4, [1, 2])], {(7, 7)}) +
                              [_rect(0, 4, 4, 4, [3])]),
    # the whole machine for one core (collapses up to the root, which must
    # keep its full mask), another core on all but one level-1 block
    "l0 full": (8, [_rect(0, 0, 256, 256, [4]), _rect(0, 0, 256, 192, [11]),
                    _rect(0, 192, 192, 64, [11])]),
    # single chips in different 16x16 blocks of ONE 64x64 block, the block
    # visited first holding the chip with the larger x (the tree's traversal
    # is out of order there: only the final sort puts it right)
    "l2 blocks of one l1": (6, [
        _rect(4, 0, 1, 1, [1]), _rect(0, 16, 1, 1, [1]),
        _rect(20, 0, 1, 1, [16]), _rect(0, 48, 1, 1, [16]),
        _rect(28, 16, 1, 1, [2, 17]), _rect(16, 32, 1, 1, [2]),
        _rect(44, 32, 1, 1, [3]), _rect(40, 48, 1, 1, [3, 16, 17]),
        _rect(0, 4, 1, 1, [5]), _rect(16, 0, 1, 1, [5])]),
    # the same one level down: different 4x4 blocks of ONE 16x16 block
    "l3 blocks of one l2": (4, [
        _rect(1, 0, 1, 1, [1]), _rect(0, 4, 1, 1, [1]),
        _rect(3, 8, 1, 1, [16]), _rect(2, 12, 1, 1, [16]),
        _rect(7, 4, 1, 1, [2, 17]), _rect(4, 8, 1, 1, [2]),
        _rect(0, 1, 1, 1, [6]), _rect(4, 0, 1, 1, [6])]),
    # four 4x4 blocks, in each two entries with different chip sets where the
    # entry with the numerically smaller select bits carries core 17 / 16 /
    # both (a sort key that gives the core mask fewer than 18 bits lets mask
    # bits 16, 17 run into select bits 0, 1 = chips (0,0), (1,0) of the block
    # and misorders exactly these)
    "cores 16/17 on the smaller entry": (3, [
        _rect(0, 0, 1, 1, [1, 17]), _rect(1, 0, 1, 1, [2]),
        _rect(4, 0, 1, 1, [3]), _rect(5, 0, 1, 1, [3, 9, 16]),
        _rect(0, 4, 1, 1, [4, 16, 17]), _rect(1, 4, 1, 1, [5]),
        _rect(4, 4, 1, 1, [6]), _rect(5, 4, 1, 1, [6, 10, 16, 17])]),
    # a node and its FIRST child (same base, one level down) both emit a
    # pair with the same core mask, at three nested levels: a full 16x16
    # block and, in the first 16x16 block, a full 4x4 block and an incomplete
    # first 4x4 block, all for the same cores (the three region words differ
    # in the level field and the select bits only and are neighbours in the
    # sorted output)
    "same mask at nested levels": (6, [
        _rect(16, 0, 16, 16, [3, 16]), _rect(4, 0, 4, 4, [3, 16])] + _minus(
        [_rect(0, 0, 4, 4, [3, 16])], {(1, 2)})),
    # a single chip, several cores (nothing collapses)
    "single chip": (0, [_rect(0, 0, 1, 1, [0, 9, 17])]),
    # sparse: far apart chips inside a 64x64 window, different cores
    "sparse": (6, [_rect(0, 0, 1, 1, [1, 16]), _rect(63, 63, 1, 1, [1, 2]),
                   _rect(17, 40, 1, 1, [3, 17]), _rect(16, 40, 1, 1, [3]),
                   _rect(5, 6, 1, 1, [17])]),
    # neighbouring chips with different core sets, in one level-3 block and
    # across a level-3 boundary
    "neighbours different cores": (3, [
        _rect(0, 0, 4, 4, [1]), _rect(0, 0, 2, 4, [2]), _rect(2, 0, 2, 4, [3]),
        _rect(3, 3, 2, 2, [4, 16]), _rect(4, 0, 1, 1, [1, 2, 17])]),
    # all 16 level-3 blocks of one level-2 block (collapses twice), plus one
    # more core on 15 of the 16 blocks
    "l2 full": (4, [_rect(0, 0, 16, 16, [1]), _rect(0, 0, 16, 12, [2]),
                    _rect(0, 12, 12, 4, [2])]),
    # an 8x8 square straddling the level-3 grid (offset 2): 1 full block,
    # partial ones around it
    "straddle l3": (4, [_rect(2, 2, 8, 8, [1]), _rect(4, 4, 4, 4, [5])]),
    # a square straddling a level-2 boundary (x = 16 inside a 32 window)
    "straddle l2": (5, [_rect(12, 12, 8, 8, [1]), _rect(16, 0, 16, 16, [7])]),
    # a square straddling a level-1 boundary (64 inside a 128 window)
    "straddle l1": (7, [_rect(60, 60, 8, 8, [2]), _rect(48, 64, 16, 16, [2])]),
    # whole level-1 block (64x64) for one core: three collapses
    "l1 full": (6, [_rect(0, 0, 64, 64, [3])]),
    # 15/16 of a level-2 block plus a full level-3 block elsewhere
    "l2 15/16": (5, [_rect(0, 0, 16, 12, [1]), _rect(0, 12, 12, 4, [1]),
                     _rect(20, 20, 4, 4, [1, 6])]),
}


def h_whole(ctx, structure, free_bits, order, read_between=False):
    """`free_bits`: how many of the origin's 8-k high bits per axis are
    symbolic (the remaining ones are chosen: all-zero / all-one)."""
    from rig.machine_control.regions import compress_flood_fill_regions
    k, rects = STRUCTURES[structure]
    hi_bits = 8 - k

    def origin(name):
        if hi_bits == 0:
            return 0
        nfree = min(free_bits, hi_bits)
        fixed = hi_bits - nfree
        v = 0
        if nfree:
            v = ctx.bv(name, nfree)
            pin(v, nfree)
        if fixed:
            top = ctx.pick([0, (1 << fixed) - 1])
            v = v | (top << nfree)
        return v << k

    PX = origin("px")
    PY = origin("py")

    chips = {}
    for (x0, y0, w, h, cores) in rects:
        assert x0 + w <= (1 << k) and y0 + h <= (1 << k)
        for dx in range(w):
            for dy in range(h):
                chips.setdefault((x0 + dx, y0 + dy), set()).update(cores)
    keys = sorted(chips)
    if order == 1:
        keys.reverse()
    elif order == 2:        # interleave far ends: blocks fill up late
        keys = keys[::2] + keys[1::2][::-1]
    pairs = [((PX | dx, PY | dy), set(chips[(dx, dy)])) for dx, dy in keys]

    try:
        if read_between:
            # the tree used directly: cores added in two groups with the
            # pairs read out in between (what was read then must not stick)
            from rig.machine_control.regions import RegionCoreTree
            t = RegionCoreTree()
            half = (len(pairs) + 1) // 2
            for (x, y), cores in pairs[:half]:
                for p in sorted(cores):
                    t.add_core(x, y, p)
            early = sorted(t.get_regions_and_coremasks())
            ctx.observe("read between", len(early))
            for (x, y), cores in pairs[half:]:
                for p in sorted(cores):
                    t.add_core(x, y, p)
            out = sorted(t.get_regions_and_coremasks())
            ctx.witness("read-between")
        else:
            out = compress_flood_fill_regions(Targets(pairs))
    except Exception as e:
        ctx.observe(type(e).__name__)
        ctx.prove(False, "flood-fill-raises-on-valid-targets", repr(e))
        return
    ctx.observe(list(out))
    ctx.witness("emitted")
    ctx.prove(len(out) > 0, "flood-fill-empty-output")

    for (r, m) in out:
        ctx.prove(sand(well_formed(r), m > 0, m < (1 << 18)),
                  "flood-fill-malformed-pair", (r, m))
    for a, b in zip(out, out[1:]):
        ctx.prove(pair_lt(a, b), "flood-fill-not-strictly-increasing", (a, b))

    cx = ctx.bv("cx", 8)
    cy = ctx.bv("cy", 8)
    cp = ctx.bv("cp", 5)
    ctx.assume(cp <= 17)
    requested = sor(*[
        sand(cx >= (PX | x0), cx <= (PX | (x0 + w - 1)),
             cy >= (PY | y0), cy <= (PY | (y0 + h - 1)),
             sor(*[cp == c for c in sorted(cores)]))
        for (x0, y0, w, h, cores) in rects])
    count = 0
    for (r, m) in out:
        count = count + ite(sand(selects(r, cx, cy), sub_core(m, cp)), 1, 0)
    ctx.prove(simplies(requested, count >= 1), "flood-fill-misses-core",
              (cx, cy, cp, list(out)))
    ctx.prove(simplies(snot(requested), count == 0),
              "flood-fill-selects-unrequested-core", (cx, cy, cp, list(out)))
    ctx.prove(count <= 1, "flood-fill-selects-core-twice",
              (cx, cy, cp, list(out)))


def h_two_fills(ctx, free_bits):
    """The pairs as the loader sees them: MachineController.flood_fill_aplx
    (real code, transport replaced by a recorder) called twice on ONE
    controller for the same chips with different cores, and once for other
    chips; every fill's core-select packets must select exactly that fill's
    targets."""
    import io
    from rig.machine_control import machine_controller as mcm
    from rig.machine_control.consts import SCPCommands, NNCommands
    k = 3
    nfree = min(free_bits, 8 - k)
    PX = PY = 0
    if nfree:
        PX = ctx.bv("px", nfree)
        pin(PX, nfree)
        PY = ctx.bv("py", nfree)
        pin(PY, nfree)
    PX, PY = PX << k, PY << k
    fills = [
        [_rect(0, 0, 4, 4, [1, 2]), _rect(5, 1, 1, 1, [0, 3])],
        # the same chips, other cores (one 4x4 block no longer uniform)
        [_rect(0, 0, 4, 4, [2]), _rect(1, 1, 1, 1, [1]),
         _rect(5, 1, 1, 1, [3, 17])],
        # other chips, the first and the last core
        [_rect(4, 4, 4, 4, [0, 17])],
    ]
    sent = []

    class Recorder(mcm.MachineController):
        def _send_scp(self, x, y, p, cmd, arg1=0, arg2=0, arg3=0, *a, **kw):
            sent.append((x, y, p, int(cmd), arg1, arg2, arg3))
            return None

        def read_struct_field(self, *a, **kw):
            return 0x60000000
    saved = mcm.__dict__.get("open")
    saved_conn = mcm.SCPConnection
    mcm.open = lambda *a, **kw: io.BytesIO(b"\0" * 8)
    mcm.SCPConnection = lambda *a, **kw: object()
    try:
        mc = Recorder("host")
        mc._scp_data_length = 256
        cx = ctx.bv("cx", 8)
        cy = ctx.bv("cy", 8)
        cp = ctx.bv("cp", 5)
        ctx.assume(cp <= 17)
        for fi, rects in enumerate(fills):
            chips = {}
            for (x0, y0, w, h, cores) in rects:
                for dx in range(w):
                    for dy in range(h):
                        chips.setdefault((x0 + dx, y0 + dy),
                                         set()).update(cores)
            targets = Targets([((PX | dx, PY | dy), set(cs))
                               for (dx, dy), cs in sorted(chips.items())])
            mark = len(sent)
            try:
                mc.flood_fill_aplx({"app.aplx": targets}, app_id=30,
                                   wait=True)
            except Exception as e:
                ctx.observe(type(e).__name__)
                ctx.prove(False, "flood-fill-raises-on-valid-targets",
                          repr(e))
                return
            out = [(q[5], q[4] & 0x3ffff) for q in sent[mark:]
                   if q[3] == int(SCPCommands.nearest_neighbour_packet) and
                   (q[4] >> 24) == int(NNCommands.flood_fill_core_select)]
            ctx.observe(fi, list(out))
            ctx.prove(len(out) > 0, "flood-fill-empty-output")
            for a, b in zip(out, out[1:]):
                ctx.prove(pair_lt(a, b),
                          "flood-fill-not-strictly-increasing", (fi, a, b))
            requested = sor(*[
                sand(cx == (PX | dx), cy == (PY | dy),
                     sor(*[cp == c for c in sorted(cs)]))
                for (dx, dy), cs in sorted(chips.items())])
            count = 0
            for (r, m) in out:
                count = count + ite(sand(selects(r, cx, cy),
                                         sub_core(m, cp)), 1, 0)
            ctx.prove(simplies(requested, count == 1),
                      "flood-fill-misses-core", (fi, cx, cy, cp, list(out)))
            ctx.prove(simplies(snot(requested), count == 0),
                      "flood-fill-selects-unrequested-core",
                      (fi, cx, cy, cp, list(out)))
        ctx.witness("emitted")
    finally:
        mcm.SCPConnection = saved_conn
        if saved is None:
            del mcm.__dict__["open"]
        else:
            mcm.open = saved


def sub_core(mask, p):
    """Bit p of the core mask (case split over the 18 cores)."""
    return sor(*[sand(p == c, _bit(mask, c)) for c in range(18)])


# ----------------------------------------------------------------------
def units(tier, seed):
    thorough = tier == "thorough"
    us = []
    # (1)
    for lv in (None, 0, 1, 2, 3):
        us.append(Unit("region word level=%s" % ("default" if lv is None
                                                  else lv),
                       h_region_word, dict(level=lv),
                       witnesses=("single-chip",) if lv in (None, 3) else ()))
    # (2)
    bases = {0: [(0, 0)], 1: [(64, 128)], 2: [(80, 160)], 3: [(84, 168)]}
    if thorough:
        bases = {0: [(0, 0)], 1: [(0, 0), (192, 192), (64, 128)],
                 2: [(0, 0), (240, 240), (80, 160)],
                 3: [(0, 0), (252, 252), (84, 168)]}
    for lv in (0, 1, 2, 3):
        for (bx, by) in bases[lv]:
            for present in ((False, True) if lv < 3 else (False,)):
                wit = ["kept", "rejected"]
                if lv > 0:
                    wit.append("collapsed")
                if lv < 3:
                    wit.append("child-called")
                    if not present:
                        wit.append("child-created")
                us.append(Unit(
                    "add_core level=%d base=(%d,%d) children=%s" % (
                        lv, bx, by, "stubs" if present else "absent"),
                    h_add_core, dict(level=lv, bx=bx, by=by, present=present),
                    witnesses=tuple(wit), split=5))
    # (3)
    emit = [(0, 0, 0), (1, 64, 128), (2, 80, 160), (3, 84, 168)]
    if thorough:
        emit += [(1, 192, 192), (2, 240, 240), (3, 252, 252)]
    for (lv, bx, by) in emit:
        cores = (0, 1, 9, 17) if thorough else (0, 9, 17)
        us.append(Unit("emit level=%d base=(%d,%d) %d cores" % (
            lv, bx, by, len(cores)), h_emit,
            dict(level=lv, bx=bx, by=by, cores=cores, slots=(6, 3, 9),
                 klen=(2, 1)),
            witnesses=("local", "local-several") + (
                ("children",) if lv < 3 else ()), split=5))
        if lv < 3:
            us.append(Unit("emit level=%d base=(%d,%d) any one child" % (
                lv, bx, by), h_emit,
                dict(level=lv, bx=bx, by=by, cores=(5,), slots="any1",
                     klen=(2,)), witnesses=("local", "children"), split=4))
    # (4)  (structure, symbolic origin bits per axis, insertion order)
    whole = [("single chip", 3, 0),
             ("l3 full core1, 15/16 core2", 2, 0),
             ("l3 full core1, 15/16 core2", 1, 2),
             ("sparse", 2, 1),
             ("neighbours different cores", 2, 0),
             ("neighbours different cores", 0, 2),
             ("l2 full", 0, 0), ("l2 full", 0, 2),
             ("straddle l3", 1, 0), ("straddle l3", 0, 1),
             ("straddle l2", 0, 2),
             ("straddle l1", 0, 0),
             ("l1 full", 0, 0),
             ("l0 full", 0, 0),
             ("l3 15/16 corner holes", 1, 0),
             ("l3 15/16 corner holes", 0, 1),
             ("l2 15/16", 0, 1),
             ("l2 blocks of one l1", 1, 0), ("l2 blocks of one l1", 0, 1),
             ("l3 blocks of one l2", 1, 0), ("l3 blocks of one l2", 0, 2),
             ("cores 16/17 on the smaller entry", 2, 0),
             ("cores 16/17 on the smaller entry", 0, 1),
             ("same mask at nested levels", 1, 0),
             ("same mask at nested levels", 0, 2)]
    if thorough:
        whole = [("single chip", 5, 0),
                 ("l3 full core1, 15/16 core2", 4, 0),
                 ("l3 full core1, 15/16 core2", 3, 1),
                 ("l3 full core1, 15/16 core2", 3, 2),
                 ("sparse", 2, 0), ("sparse", 2, 1), ("sparse", 2, 2),
                 ("neighbours different cores", 4, 0),
                 ("neighbours different cores", 3, 1),
                 ("neighbours different cores", 3, 2),
                 ("l2 full", 2, 0), ("l2 full", 1, 1), ("l2 full", 1, 2),
                 ("straddle l3", 3, 0), ("straddle l3", 2, 1),
                 ("straddle l3", 2, 2),
                 ("straddle l2", 2, 0), ("straddle l2", 1, 2),
                 ("straddle l1", 1, 0), ("straddle l1", 0, 2),
                 ("l1 full", 0, 0), ("l1 full", 0, 2),
                 ("l0 full", 0, 0), ("l0 full", 0, 1),
                 ("l3 15/16 corner holes", 3, 0),
                 ("l3 15/16 corner holes", 3, 1),
                 ("l3 15/16 corner holes", 3, 2),
                 ("l2 15/16", 2, 0), ("l2 15/16", 1, 1), ("l2 15/16", 1, 2),
                 ("l2 blocks of one l1", 2, 0), ("l2 blocks of one l1", 2, 1),
                 ("l2 blocks of one l1", 2, 2),
                 ("l3 blocks of one l2", 3, 0), ("l3 blocks of one l2", 2, 1),
                 ("l3 blocks of one l2", 2, 2),
                 ("cores 16/17 on the smaller entry", 4, 0),
                 ("cores 16/17 on the smaller entry", 3, 1),
                 ("cores 16/17 on the smaller entry", 3, 2),
                 ("same mask at nested levels", 2, 0),
                 ("same mask at nested levels", 1, 1),
                 ("same mask at nested levels", 1, 2)]
    us.append(Unit("through flood_fill_aplx: three fills, one controller",
                   h_two_fills, dict(free_bits=1 if not thorough else 3),
                   witnesses=("emitted",), split=2, path_timeout_s=300))
    # the pairs of the REPAIR fills of load_application (chips missing a
    # fill, cores found not loaded): C09's harness, whose obligations include
    # "every fill's core-select packets select exactly the cores then
    # missing", run here for the shapes whose second fill differs from the
    # first
    from harness import c09
    us.append(Unit("through load_application: repair fills (C09's harness)",
                   c09.h_load, dict(
                       shapes=("2 chips 5 cores 16 17",
                               "3 chips 6 cores 2 blocks"),
                       bufs=(16,), sizes=(("+4", "x2"),), tries=(1,),
                       modes=c09.ALL_MODES[2:], nn_starts=(125,),
                       pres=(False,)), split=5,
                   witnesses=("returned", "retried"), path_timeout_s=120))
    for (st, fb, order) in (("neighbours different cores", 1, 0),
                            ("l3 15/16 corner holes", 0, 2),
                            ("same mask at nested levels", 0, 0)):
        us.append(Unit("tree read between two groups of cores: %s free=%d "
                       "order=%d" % (st, fb, order), h_whole,
                       dict(structure=st, free_bits=fb, order=order,
                            read_between=True),
                       witnesses=("emitted", "read-between"), split=2,
                       path_timeout_s=300))
    for (st, fb, order) in whole:
        us.append(Unit("whole %s free=%d order=%d" % (st, fb, order), h_whole,
                       dict(structure=st, free_bits=fb, order=order),
                       witnesses=("emitted",), split=6 if fb else 2,
                       path_timeout_s=300))
    return us
