#!/bin/bash
# tools/seedcheck.sh <ID> <patch.diff> [check args...]
# Applies a seeded change to a scratch copy of /repo's working tree (outside
# /repo and /verif, removed afterwards) and runs ./check <ID> against it.
ID=$1; PATCH=$2; shift 2
S=$(mktemp -d /tmp/rigseed.XXXXXX)
cp -r /repo/rig "$S"/
( cd "$S" && git init -q . >/dev/null 2>&1 && git apply --unsafe-paths "$PATCH" ) || { echo "PATCH DID NOT APPLY"; rm -rf "$S"; exit 3; }
cd /verif && RIG_REPO=$S timeout ${SEED_TIMEOUT:-900} ./check $ID --no-evidence "$@" 2>&1 | grep -E "^(VIOLATION|INCONCLUSIVE|violated|KNOWN|C[0-9]+ )" | cut -c1-400 | head -10
rc=${PIPESTATUS[0]}
echo "exit=$rc"
rm -rf "$S"
exit $rc
