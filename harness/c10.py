"""C10 -- routing entries installed in a chip's router are the entries given.

Part A runs the real `RoutingTree.traverse` / `routing_tree_to_tables` on
trees of chosen shapes whose nets carry symbolic 32-bit keys and masks.  All
keys and masks are proxies (uniform hash), so "two nets have the same (key,
mask)" is decided by the solver inside rig's own dictionary lookup: the merge
case and the MultisourceRouteError case are both explored, for every value of
the keys.

Direction convention (rig/place_and_route/routing_tree.py `traverse`
docstring, rig/routing_table/entries.py `RoutingTableEntry.sources`): a child
`(route, subtree)` of a node means the net leaves the node's chip by `route`;
the packet then *enters* the subtree's chip on the link opposite to the one it
travelled along (going east it arrives on the west link), so the source of
the entry on the subtree's chip is opposite(route); the root's source is None
("unknown").  Leaves `(route, vertex)` add `route` to the departures of their
chip unless the route is None, in which case they add nothing.  opposite() is
written down here as a table, independently of `Routes.opposite`.

Part B runs the real MachineController.load_routing_table_entries /
load_routing_tables / get_routing_table_entries / clear_routing_table_entries
and unpack_routing_table_entry through the real SCPConnection against a
model of the machine that knows the router commands (RouterMachine below,
written from rig/machine_control/consts.py and the docstrings / comments of
machine_controller.py, plus the SARK structure `rtr_entry_t` they pack).
"""
import itertools

from sx.runner import Unit
from sx.proxies import sand, sor, snot, ite, is_sym, simplies
from sx.shims import struct as sstruct
from models.machine import Machine, Memory, _mix

PROPERTY = "C10"

F32 = 0xffffffff
RTR = 1024

META = {
    "bounds": "Part A: 7 scenarios of 2-3 routing trees of <= 5 nodes each "
              "(chains merging on shared chips, trees forking differently "
              "at once or only further on, a fork with None-route leaves and "
              "a chip reached only by None leaves, three trees through one "
              "chip, link and core leaves, a 5-node chain joined half way "
              "plus a disjoint tree), every order of the nets in the "
              "dictionary, net keys and masks symbolic 32-bit values (no "
              "relation assumed between key and mask).  Part B: tables of "
              "0..3 entries with symbolic 32-bit keys and masks, symbolic "
              "8-bit app_id, route sets from a menu (quick: 6 single routes, "
              "the empty set, 3 mixed sets incl. all 24; thorough: each of "
              "the 24 single routes, empty, 5 mixed sets incl. all 24) "
              "rotated over the entry positions; router base returned by the "
              "machine symbolic (0 = refused, else any 1 <= base <= 1024 - "
              "count); staging buffer address (sv.sdram_sys) a symbolic "
              "word-aligned 32-bit address; SCP buffer 256 bytes (thorough "
              "also 24, so that 16-byte records straddle write commands); "
              "load_routing_tables over two chips, table sizes (1,2), (0,1) "
              "(thorough also (3,0), (2,3)), with every combination of "
              "per-chip allocation outcome; load followed by read-back of "
              "all 1024 entries with the base chosen from {0, 1, 1024 - "
              "count} (thorough also 2), a concrete staging address and "
              "symbolic next / core fields in the router copy; decode of "
              "entries whose next, free, key, mask and top route byte are "
              "symbolic and whose low 24 route bits are one symbolic single "
              "bit (thorough: also two symbolic bits) or a menu set, both "
              "directly and as entries 0, 6 and 1023 of a router read back "
              "from either of two chips; clear with a symbolic app id "
              "against entries with symbolic tags; thorough: one concrete "
              "1023-entry table (the largest block a router whose entry 0 "
              "is reserved can grant; symbolic app_id, base 0 or 1) loaded, "
              "checked entry by entry and read back, and 1024 / 1025 "
              "entries against a machine that refuses them",
    "stubs": ["clock / select / socket: models/net.py, prompt fault-free "
              "delivery (transport faults are C06/C07's subject)",
              "the SpiNNaker machine: models/machine.py extended in this "
              "harness (RouterMachine) by alloc_free/alloc_rtr, "
              "alloc_free/free_rtr_by_app, router/load, and reads of the "
              "router copy served from the model's router table",
              "struct shim in packets, scp_connection, machine_controller; "
              "bytearray / memoryview / bytes there rebound to "
              "symbolic-content versions; consts.address_length_dtype "
              "concretising its key"],
    "assumptions": [
        "direction convention as in this module's docstring",
        "alloc_free with (app_id << 8) | alloc_rtr in arg1 and the count in "
        "arg2 answers the index of the first entry of a free block of that "
        "many entries in arg1, or 0 when there is none (comment in "
        "load_routing_table_entries); entry 0 is never granted; the state "
        "of the free list is abstracted to 'any base the machine likes', a "
        "request for 0 entries may be refused too",
        "router with (count << 16) | (app_id << 8) | load in arg1, the "
        "staging address in arg2 and the base in arg3 copies count 16-byte "
        "records (next:H free:H route:I key:I mask:I, RTE_PACK_STRING) from "
        "the staging address; record i goes to router entry base + "
        "record.next and is tagged free = (core << 8) | app_id with the "
        "core and the copy's own next field unspecified (symbolic); this "
        "placement rule (SARK rtr_mc_load) is why the first field of a "
        "record must be its position",
        "the router copy at the address held in sv.rtr_copy is an array of "
        "1024 such records; an entry is unused iff the top byte of its "
        "route word is 0xff (comment in unpack_routing_table_entry); of a "
        "used entry free & 0xff is the application and (free >> 8) & 0xf "
        "the core (same place)",
        "alloc_free with (app_id << 8) | free_rtr_by_app and arg2 = 1 "
        "invalidates exactly the entries tagged with that application",
        "route bit numbers: east 0, north_east 1, north 2, west 3, "
        "south_west 4, south 5, core n -> 6 + n (SpiNNaker datasheet, "
        "restated in entries.py), written down here independently",
        "initial router content is a fixed function of the index (mixes "
        "used and unused entries), so an entry written to or read from the "
        "wrong index shows",
    ],
    "outside_claim": [
        "trees of more than 5 nodes, more than 3 trees, malformed trees "
        "(a tree visiting a chip twice, gaps): the library documents its "
        "output as undefined for them",
        "tables of 4..1022 entries (the packing loop has no "
        "length-dependent branch; chunking of the staging write is C07's "
        "subject)",
        "route words read back whose low 24 bits hold more than two set "
        "bits outside the menu's sets (the decoder forks once per bit: "
        "2**24 paths for a fully symbolic word)",
        "app_id above 255, keys or masks above 32 bits",
        "1024- and 1025-entry tables are explored only with a machine that "
        "refuses them (the code does no length check of its own: it asks "
        "for the block and raises SpiNNakerRouterError when refused); what "
        "a machine granting such a block would receive is not claimed",
        "order of the entries produced by routing_tree_to_tables within a "
        "chip (the property does not fix it; checked as a set)",
    ],
}

# ----------------------------------------------------------------------
# Independent knowledge
# ----------------------------------------------------------------------
LINKS = ["east", "north_east", "north", "west", "south_west", "south"]
OPPOSITE = {"east": "west", "west": "east", "north": "south",
            "south": "north", "north_east": "south_west",
            "south_west": "north_east"}


def _bit(r):
    """Hardware bit of a route given by link name or core number."""
    return LINKS.index(r) if isinstance(r, str) else 6 + r


def _route(r, Routes):
    return Routes[r] if isinstance(r, str) else Routes.core(r)


def _word(spec):
    w = 0
    for r in spec:
        w |= 1 << _bit(r)
    return w


# ----------------------------------------------------------------------
# Part A: routing_tree_to_tables
# ----------------------------------------------------------------------
V = "V"     # a vertex (leaf)


def _t(chip, *children):
    return (chip, list(children))


def _chain(chips, hops, last):
    """A chain of chips joined by the hops given, ending in the child
    `last`."""
    node = _t(chips[-1], last)
    for chip, hop in zip(reversed(chips[:-1]), reversed(hops)):
        node = _t(chip, (hop, node))
    return node


SCENARIOS = {
    # two chains meeting on (1,0) and continuing together
    "merge": [
        _t((0, 0), ("east", _t((1, 0), ("north", _t((1, 1), (1, V)))))),
        _t((2, 0), ("west", _t((1, 0), ("north", _t((1, 1), (1, V)))))),
    ],
    # the second tree leaves (1,0) and (1,1) differently from the first
    "differ": [
        _t((0, 0), ("east", _t((1, 0), ("north", _t((1, 1), (1, V))),
                               (2, V)))),
        _t((1, 0), ("north", _t((1, 1), (3, V)))),
    ],
    # same departures on (1,0), different ones further on, on (1,1) only
    "differ-late": [
        _t((0, 0), ("east", _t((1, 0), ("north", _t((1, 1), (1, V)))))),
        _t((1, 0), ("north", _t((1, 1), (1, V), (2, V)))),
    ],
    # a fork, leaves without a route, a chip that only has such leaves
    "none-leaves": [
        _t((0, 0), ("east", _t((1, 0), (1, V), (None, V))),
           ("north_east", _t((1, 1), (None, V))), (3, V)),
        _t((1, 1), (None, V)),
        _t((1, 0), (1, V)),
    ],
    # three trees through (1,1) and (2,1); the third one differs
    "three": [
        _t((0, 1), ("east", _t((1, 1), ("east", _t((2, 1), (1, V)))))),
        _t((1, 0), ("north", _t((1, 1), ("east", _t((2, 1), (1, V)))))),
        _t((1, 2), ("south", _t((1, 1), ("east", _t((2, 1), (2, V))),
                                (4, V)))),
    ],
    # leaves reached over a link and leaves on a core
    "link-leaf": [
        _t((0, 0), ("west", V),
           ("north", _t((0, 1), (1, V), ("south_west", V)))),
        _t((0, 1), ("south_west", V), (1, V)),
    ],
    # leaves over every one of the six links (Routes.east has the value 0)
    # and on the first and last core, on a root and on a chip entered by a
    # link; hops over every link
    "every-direction": [
        _t((3, 3), ("east", V), ("north_east", V), ("north", V), ("west", V),
           ("south_west", V), ("south", V), (0, V), (17, V)),
        _t((2, 3), ("east", _t((3, 3), ("east", V), (0, V)))),
        _chain([(0, 0), (1, 0), (2, 1), (2, 2), (1, 2), (0, 1)],
               ["east", "north_east", "north", "west", "south_west"],
               ("south", V)),
    ],
    # a five-node chain joined at its third node; a disjoint tree
    "chain5": [
        _t((0, 0), ("north_east", _t((1, 1), ("north_east", _t(
            (2, 2), ("north", _t((2, 3), ("west", _t((1, 3), (0, V)))))))))),
        _t((2, 1), ("north", _t((2, 2), ("north", _t(
            (2, 3), ("west", _t((1, 3), (0, V)))))))),
        _t((5, 5), ("south", _t((5, 4), (17, V)))),
    ],
}


def _visits(spec, arrival=None, out=None):
    """[(chip, source or None, frozenset of departures)] of a tree spec."""
    if out is None:
        out = []
    chip, children = spec
    deps = set()
    for r, child in children:
        if r is not None:
            deps.add(r)
    out.append((chip, arrival, frozenset(deps)))
    for r, child in children:
        if child is not V:
            _visits(child, OPPOSITE[r], out)
    return out


def _build(spec, Routes, RoutingTree, style="bottom-up"):
    """style: "bottom-up" -- a node is made with its complete list of
    children; "top-down" -- with the caller's still empty list, filled
    afterwards through the caller's reference; "append" -- without a list,
    filled through node.children."""
    chip, children = spec
    kids = []
    node = None
    if style == "top-down":
        node = RoutingTree(chip, kids)
    elif style == "append":
        node = RoutingTree(chip)
        kids = node.children
    for r, child in children:
        route = None if r is None else _route(r, Routes)
        if child is V:
            kids.append((route, object()))
        else:
            kids.append((route, _build(child, Routes, RoutingTree, style)))
    return node if node is not None else RoutingTree(chip, kids)


class _Net(object):
    def __init__(self, i):
        self.i = i

    def __repr__(self):
        return "net%d" % self.i


def h_trees(ctx, scenario, styles=("bottom-up",)):
    from rig.place_and_route.routing_tree import RoutingTree
    from rig.routing_table import (Routes, MultisourceRouteError,
                                   RoutingTableEntry)
    from rig.routing_table.utils import routing_tree_to_tables
    from collections import OrderedDict

    specs = SCENARIOS[scenario]
    n = len(specs)
    order = ctx.pick(list(itertools.permutations(range(n))))
    km = [(ctx.bv("key", 32), ctx.bv("mask", 32)) for _ in range(n)]

    # which nets share key and mask: decided by the solver, path by path
    parent = list(range(n))
    for i in range(n):
        for j in range(i + 1, n):
            if km[i][0] == km[j][0] and km[i][1] == km[j][1]:
                parent[j] = parent[i]
    classes = {}
    for i in range(n):
        classes.setdefault(parent[i], []).append(i)
    if any(len(c) > 1 for c in classes.values()):
        ctx.witness("shared-key-mask")
    if len(classes) == n:
        ctx.witness("all-distinct")

    visits = [_visits(s) for s in specs]
    # expected: per chip, per class -> (departures, sources); conflict?
    expected = {}
    conflict = set()         # (chip, class)
    for c, members in classes.items():
        for i in members:
            for chip, src, deps in visits[i]:
                slot = expected.setdefault(chip, {})
                if c in slot:
                    if slot[c][0] != deps:
                        conflict.add((chip, c))
                    slot[c][1].add(src)
                else:
                    slot[c] = (deps, {src})

    nets = [_Net(i) for i in range(n)]
    style = ctx.pick(list(styles))
    routes = OrderedDict((nets[i], _build(specs[i], Routes, RoutingTree,
                                          style))
                         for i in order)
    net_keys = {nets[i]: km[i] for i in range(n)}
    try:
        tables = routing_tree_to_tables(routes, net_keys)
    except MultisourceRouteError as e:
        ctx.observe("MultisourceRouteError", e.key, e.mask, (e.x, e.y))
        ctx.witness("multisource-error")
        ctx.prove(bool(conflict), "tables-multisource-error-spurious",
                  (scenario, order))
        # the error names a key/mask and chip on which there is a conflict
        ok = sor(*[sand(e.key == km[c][0], e.mask == km[c][1])
                   for chip, c in conflict if chip == (e.x, e.y)]) \
            if conflict else False
        ctx.prove(ok, "tables-multisource-error-wrong-fields",
                  (e.key, e.mask, (e.x, e.y)))
        return
    except Exception as e:
        ctx.observe(type(e).__name__)
        ctx.prove(False, "tables-unexpected-exception", repr(e))
        return
    ctx.observe("tables", sorted(
        (chip, [(sorted(-1 if r is None else int(r) for r in e.route),
                 e.key, e.mask,
                 sorted(-1 if s is None else int(s) for s in e.sources))
                for e in es]) for chip, es in tables.items()))
    ctx.prove(not conflict, "tables-multisource-error-missed",
              (scenario, order, sorted(conflict)))
    if conflict:
        return
    ctx.witness("tables")
    if any(len(m) > 1 for m in classes.values()):
        ctx.witness("merged")
    ctx.prove(set(tables.keys()) == set(expected.keys()),
              "tables-wrong-chips", (sorted(tables.keys()),
                                     sorted(expected.keys())))
    for chip, slot in expected.items():
        entries = list(tables.get(chip, []))
        ctx.prove(len(entries) == len(slot), "tables-entry-count",
                  (chip, len(entries), len(slot)))
        ctx.prove(all(isinstance(e, RoutingTableEntry) for e in entries),
                  "tables-entry-type")
        for c, (deps, srcs) in slot.items():
            want_route = frozenset(_route(r, Routes) for r in deps)
            want_src = set(None if s is None else _route(s, Routes)
                           for s in srcs)
            if any(s is None for s in deps):
                ctx.prove(False, "harness-bug")
            cands = [e for e in entries
                     if set(e.route) == set(want_route) and
                     set(e.sources) == want_src and
                     None not in e.route and
                     all(isinstance(r, Routes) for r in e.route) and
                     all(s is None or isinstance(s, Routes)
                         for s in e.sources)]
            ok = sor(*[sand(e.key == km[c][0], e.mask == km[c][1])
                       for e in cands]) if cands else False
            ctx.prove(ok, "tables-entry-wrong",
                      (scenario, order, chip, sorted(map(str, deps)),
                       sorted(map(str, srcs)),
                       [(sorted(map(str, e.route)),
                         sorted(map(str, e.sources))) for e in entries]))


# ----------------------------------------------------------------------
# Part B: the machine
# ----------------------------------------------------------------------
def _init_rec(i):
    """Initial content of router entry i: (next, free, route, key, mask).
    Entries with i % 4 == 1 are in use by other applications, the rest
    unused (top route byte 0xff)."""
    nxt = (i + 1) & 0x3ff
    free = (i ^ 0x5a5) & 0xffff
    used = (i & 3) == 1
    route = ite(used, ((i & 0x3f) << 6) | 0x8, 0xff000000 | i)
    key = ((i << 20) | (i << 8) | 0xa5) & F32
    mask = 0xfffff000 | (i & 0xff)
    return (nxt, free, route, key, mask)


UNUSED = (0xff000000, F32, 0)


class Router(object):
    """The multicast table of one chip: initial content + an ordered log of
    writes (index, record) and clears (application); indices may be
    symbolic."""

    def __init__(self):
        self.log = []
        self.flat = {}          # concrete index -> record, while no
        self.symbolic = False   # symbolic index / clear has been logged

    def store(self, idx, rec):
        if not self.symbolic and isinstance(idx, int):
            self.flat[idx] = rec
        else:
            self.symbolic = True
            self.log.append(("w", idx, rec))

    def clear_app(self, app):
        self.symbolic = True
        self.log.append(("c", app, None))

    @property
    def touched(self):
        return bool(self.log or self.flat)

    def load(self, i):
        if isinstance(i, int):
            rec = self.flat.get(i)
            if rec is None:
                rec = _init_rec(i)
        else:
            rec = _init_rec(i)
            for j, r in self.flat.items():
                hit = (i == j)
                rec = tuple(ite(hit, a, b) for a, b in zip(r, rec))
        for kind, a, r in self.log:
            if kind == "w":
                hit = (a == i)
                rec = tuple(ite(hit, x, y) for x, y in zip(r, rec))
            else:
                hit = sand((rec[1] & 0xff) == a,
                           (rec[2] >> 24) != 0xff)
                rec = (rec[0], rec[1]) + tuple(
                    ite(hit, x, y) for x, y in zip(UNUSED, rec[2:]))
        return rec


class FastMemory(Memory):
    """Memory with a dictionary for the writes to concrete addresses that
    precede the first write to a symbolic address."""

    def __init__(self):
        Memory.__init__(self)
        self.flat = {}
        self.symbolic = False
        self.nstores = 0

    def store(self, addr, byte):
        self.nstores += 1
        if not self.symbolic and isinstance(addr, int):
            self.flat[addr] = byte
        else:
            self.symbolic = True
            self.writes.append((addr, byte))

    def store_run(self, addr, n, pattern):
        # (no run-length records here: every byte goes through store)
        for i in range(n):
            self.store(addr + i, pattern[i % len(pattern)])

    @property
    def touched(self):
        return bool(self.flat or self.writes)

    def load(self, addr):
        if isinstance(addr, int):
            v = self.flat.get(addr)
            if v is None:
                v = _mix(addr)
        else:
            v = _mix(addr)
            for a, b in self.flat.items():
                v = ite(a == addr, b, v)
        for a, b in self.writes:
            v = ite(a == addr, b, v)
        return v

    def read(self, addr, n):
        from sx.proxies import SymBytes
        items = [self.load(addr + i) for i in range(n)]
        if all(isinstance(b, int) for b in items):
            return bytes(items)
        return SymBytes(items)


class RouterMachine(Machine):
    """models.machine.Machine + the router commands.

    alloc: how a request for routing entries is answered --
      "sym"   any base the free list could produce: 0 (refused) or
              1 <= base <= 1024 - count, one symbolic value;
      a tuple the base is one of these values (structural choice), those
              that do not fit the table being dropped.
    """

    def __init__(self, ctx, alloc="sym", **kw):
        Machine.__init__(self, ctx, **kw)
        self.alloc = alloc
        self.routers = {}
        self.rtr_copy = {}       # chip -> address of the router copy
        self.allocs = []         # (chip, app_id, count, base)
        self.loads = []          # (chip, app_id, count, address, base)
        self.clears = []

    def memory(self, key):
        return self.memories.setdefault(key, FastMemory())

    def router(self, chip):
        return self.routers.setdefault(chip, Router())

    # -- alloc_free ----------------------------------------------------
    def cmd_28(self, q):
        ctx = self.ctx
        op = int(q.arg1 & 0xff)
        app = (q.arg1 >> 8) & 0xff
        chip = self.chip_key(q)
        if op == 3:              # alloc_rtr: arg2 = number of entries
            count = int(q.arg2)
            if self.alloc == "sym":
                base = ctx.bv("base", 11)
                ctx.assume(sor(base == 0,
                               sand(base >= 1, base + count <= RTR)))
            else:
                fits = [b for b in self.alloc
                        if b == 0 or (b >= 1 and b + count <= RTR)]
                base = ctx.pick(fits)
            self.allocs.append((chip, app, count, base))
            return self.reply(q, args=(base, 0, 0))
        if op == 5:              # free_rtr_by_app: arg2 = also clear them
            self.clears.append((chip, app, q.arg2))
            n = ite(q.arg2 == 1, 1, 0)
            if int(n) == 1:
                self.router(chip).clear_app(app)
            return self.reply(q, args=(0, 0, 0))
        self.problems.append(("alloc_free operation not modelled", op))
        return self.reply(q, 0x84)

    # -- router ----------------------------------------------------------
    def cmd_29(self, q):
        ctx = self.ctx
        op = int(q.arg1 & 0xff)
        app = (q.arg1 >> 8) & 0xff
        count = int(q.arg1 >> 16)
        chip = self.chip_key(q)
        if op != 2:
            self.problems.append(("router operation not modelled", op))
            return self.reply(q, 0x84)
        if count > RTR:
            self.problems.append(("router load of more than 1024", count))
            return self.reply(q, 0x84)
        mem = self.memory(chip)
        rtr = self.router(chip)
        core = ctx.bv("core", 8)
        nxt_copy = ctx.bv("next", 16)
        self.loads.append((chip, app, count, q.arg2, q.arg3))
        for i in range(count):
            rec = mem.read(q.arg2 + 16 * i, 16)
            nxt, free, route, key, mask = sstruct.unpack("<2H3I", rec)
            rtr.store(q.arg3 + nxt,
                      (nxt_copy, (core << 8) | app, route, key, mask))
        return self.reply(q, args=(1, 0, 0))

    # -- reads of the router copy -----------------------------------------
    def image(self, chip, off, n):
        """Bytes [off, off + n) of the router copy of a chip."""
        from sx.proxies import SymBytes
        out = []
        rtr = self.router(chip)
        first, last = off // 16, (off + n - 1) // 16
        for i in range(first, last + 1):
            rec = sstruct.pack("<2H3I", *rtr.load(i))
            rec = list(rec.items) if isinstance(rec, SymBytes) else list(rec)
            out.extend(rec)
        out = out[off - 16 * first:off - 16 * first + n]
        if all(isinstance(b, int) for b in out):
            return bytes(out)
        return SymBytes(out)

    def cmd_2(self, q):
        chip = self.chip_key(q)
        base = self.rtr_copy.get(chip)
        if base is not None and not is_sym(q.arg1):
            n = int(q.arg2)
            off = q.arg1 - base
            if 0 <= off and off + n <= 16 * RTR and n > 0:
                self._check_access(q, n, q.arg3)
                return self.reply(q, data=self.image(chip, off, n))
        return Machine.cmd_2(self, q)


# ----------------------------------------------------------------------
CHIPS = [(3, 2), (0, 1)]
RTR_COPY = {(3, 2): 0x60f00040, (0, 1): 0x61a00400}


def _world(ctx, bufsize, alloc):
    from models.net import World
    from models.machine import ControllerPatch
    machine = RouterMachine(ctx, alloc=alloc, buffer_size=bufsize)
    world = World(ctx, machine=machine, faults=0, kinds=(), prompt=True,
                  multi_recv=False, timed=False, delays=1)
    return machine, world, ControllerPatch(world)


def _prep_chip(ctx, machine, mc, chip, buf):
    """System variables of a chip: where the staging buffer and the router
    copy are."""
    sv = mc.structs[b"sv"]
    mem = machine.memory(chip)
    if buf is not None:
        mem.write(sv.base + sv[b"sdram_sys"].offset, sstruct.pack("<I", buf))
    mem.write(sv.base + sv[b"rtr_copy"].offset,
              sstruct.pack("<I", RTR_COPY[chip]))
    machine.rtr_copy[chip] = RTR_COPY[chip]
    mem.prepared = mem.nstores


def _menu(tier_menu):
    singles = LINKS + list(range(18))
    if tier_menu == "quick":
        return [("east",), ("south",), ("north_east",), (0,), (1,), (17,),
                (), ("east", "west"), ("north", 1, 17),
                tuple(LINKS) + tuple(range(18))]
    return ([(s,) for s in singles] +
            [(), ("east", "west"), ("north", 1, 17),
             (0, "south_west", "south", 5), tuple(LINKS),
             tuple(LINKS) + tuple(range(18))])


def _make_entries(ctx, n, menu, j, Routes, RoutingTableEntry, concrete=False):
    entries, want = [], []
    for i in range(n):
        spec = menu[(j + 5 * i) % len(menu)]
        if concrete:
            key = (i * 0x00100401 + 0x1234) & F32
            mask = F32 ^ ((i * 7) & 0xff)
        else:
            key, mask = ctx.bv("key", 32), ctx.bv("mask", 32)
        entries.append(RoutingTableEntry({_route(r, Routes) for r in spec},
                                         key, mask))
        want.append((_word(spec), key, mask))
    return entries, want


def _expected_router(t, base, want, init=None):
    """(route, key, mask, in_block) of entry t after `want` was loaded at
    `base`."""
    rec = _init_rec(t) if init is None else init
    route, key, mask = rec[2], rec[3], rec[4]
    inb = False
    for i, (w, k, m) in enumerate(want):
        hit = (t == base + i)
        route, key, mask = ite(hit, w, route), ite(hit, k, key), \
            ite(hit, m, mask)
        inb = sor(hit, inb)
    return route, key, mask, inb


def _check_chip_commands(ctx, machine, chip, n, app_id, buf, base, loaded,
                         bufsize):
    """The commands a chip received: one allocation, then -- only if it was
    granted -- the staging writes inside the buffer and one load."""
    x, y = chip
    cmds = [q for q in machine.log if int(q.cmd) != 0 and
            not is_sym(q.dest_x) and not is_sym(q.dest_y) and
            (int(q.dest_x), int(q.dest_y)) == chip]
    for q in cmds:
        ctx.prove(q.dest_cpu == 0, "router-command-wrong-core")
    kinds = [int(q.cmd) for q in cmds]
    ctx.prove(kinds.count(28) == 1 and kinds[:1] == [28],
              "router-allocation-count", kinds)
    if not cmds:
        return
    a = cmds[0]
    ctx.prove(sand(a.arg1 == ((app_id << 8) | 3), a.arg2 == n),
              "router-alloc-command-wrong", (a.arg1, a.arg2, app_id, n))
    if not loaded:
        ctx.prove(kinds == [28], "router-commands-after-failed-allocation",
                  kinds)
        return
    ctx.prove(kinds.count(29) == 1 and kinds[-1] == 29 and
              all(k in (28, 2, 3, 29) for k in kinds),
              "router-load-command-count", kinds)
    if kinds[-1] != 29:
        return
    ld = cmds[-1]
    ctx.prove(sand(ld.arg1 == ((n << 16) | (app_id << 8) | 2),
                   ld.arg2 == buf, ld.arg3 == base),
              "router-load-command-wrong",
              (ld.arg1, ld.arg2, ld.arg3, n, app_id, buf, base))
    total = 0
    for q in cmds:
        if int(q.cmd) == 3:
            total = total + q.arg2
            ctx.prove(sand(q.arg1 >= buf, q.arg1 + q.arg2 <= buf + 16 * n,
                           q.arg2 <= bufsize),
                      "router-staging-write-outside-buffer",
                      (q.arg1, q.arg2, buf))
    ctx.prove(total == 16 * n, "router-staging-write-length", (total, n))


def _check_router(ctx, machine, chip, base, want, app_id, label=""):
    """For every index t: entry t of the chip's router is what was loaded if
    t lies in the block and is unchanged otherwise."""
    t = ctx.bv("t", 10)
    got = machine.router(chip).load(t)
    init = _init_rec(t)
    route, key, mask, inb = _expected_router(t, base, want)
    for what, g, w in (("route", got[2], route), ("key", got[3], key),
                       ("mask", got[4], mask)):
        ctx.prove(g == w, "router-content-wrong" + label,
                  (chip, what, "t", t, "base", base, "got", g, "want", w))
    ctx.prove(simplies(inb, (got[1] & 0xff) == app_id),
              "router-entry-wrong-app" + label, (t, got[1], app_id))
    ctx.prove(simplies(snot(inb), sand(got[0] == init[0],
                                       got[1] == init[1])),
              "router-other-entry-changed" + label, (t, got[0], got[1]))


def _untouched(ctx, machine, chip, label):
    r = machine.routers.get(chip)
    ctx.prove(r is None or not r.touched, label, chip)


def h_load(ctx, counts, menu, via, bufsizes=(256,)):
    """load_routing_table_entries (via == "entries") on one chip or
    load_routing_tables (via == "tables") on two, symbolic base."""
    from rig.machine_control import MachineController
    from rig.machine_control.machine_controller import SpiNNakerRouterError
    from rig.routing_table import Routes, RoutingTableEntry
    menu = _menu(menu)
    bufsize = ctx.pick(bufsizes)
    ns = ctx.pick(counts)
    if via == "entries":
        ns = (ns,)
    chips = CHIPS[:len(ns)]
    machine, world, patch = _world(ctx, bufsize, "sym")
    app_id = ctx.bv("app_id", 8)
    j = ctx.choose(len(menu)) if any(ns) else 0
    tables, wants, bufs = {}, {}, {}
    with patch:
        mc = MachineController("host")
        for ci, (chip, n) in enumerate(zip(chips, ns)):
            es, want = _make_entries(ctx, n, menu, j + 3 * ci, Routes,
                                     RoutingTableEntry)
            tables[chip], wants[chip] = es, want
            buf = ctx.bv("buf", 30) << 2
            ctx.assume(buf + 16 * n <= (1 << 32))
            bufs[chip] = buf
            _prep_chip(ctx, machine, mc, chip, buf)
        snapshot = {c: [(e.route, e.key, e.mask, set(e.sources))
                        for e in es] for c, es in tables.items()}
        error = None
        try:
            if via == "entries":
                r = mc.load_routing_table_entries(tables[chips[0]],
                                                  chips[0][0], chips[0][1],
                                                  app_id)
            else:
                r = mc.load_routing_tables(tables, app_id)
            ctx.observe("loaded", r)
        except SpiNNakerRouterError as e:
            error = e
            ctx.observe("SpiNNakerRouterError", e.count, e.chip)
        except Exception as e:
            ctx.observe(type(e).__name__)
            ctx.prove(False, "router-unexpected-exception", repr(e))
            return
    ctx.prove(not machine.problems, "router-command-malformed",
              repr(machine.problems[:3]))
    # what the machine answered, chip by chip, in the order of the tables
    granted = {}
    for chip, app, count, base in machine.allocs:
        granted.setdefault(chip, []).append(base)
    failed = None
    for chip in chips:
        bases = granted.get(chip, [])
        if failed is not None:
            # chips after the one that was refused: nothing at all
            ctx.prove(not bases, "router-commands-after-failed-allocation",
                      chip)
            _untouched(ctx, machine, chip, "router-loaded-after-failure")
            continue
        ctx.prove(len(bases) == 1, "router-allocation-count",
                  (chip, len(bases)))
        if len(bases) != 1:
            return
        base = bases[0]
        n = len(tables[chip])
        refused = (base == 0)
        refused = bool(refused)      # decided already by rig's own test
        if refused:
            failed = chip
            ctx.witness("refused")
            ctx.prove(error is not None, "router-error-missing", chip)
            if error is not None:
                ctx.prove(error.count == n and
                          tuple(error.chip) == chip,
                          "router-error-fields", (error.count, error.chip))
            _untouched(ctx, machine, chip, "router-loaded-after-failure")
            _check_chip_commands(ctx, machine, chip, n, app_id, bufs[chip],
                                 base, False, bufsize)
            mem = machine.memory(chip)
            ctx.prove(mem.nstores == mem.prepared,
                      "router-staging-written-after-failure")
        else:
            ctx.witness("granted")
            if n:
                ctx.witness("granted-nonempty")
            _check_chip_commands(ctx, machine, chip, n, app_id, bufs[chip],
                                 base, True, bufsize)
            _check_router(ctx, machine, chip, base, wants[chip], app_id)
            ctx.observe(base, [machine.router(chip).load(base + i)[2:]
                               for i in range(n)])
    if failed is None:
        ctx.prove(error is None, "router-error-spurious",
                  error and (error.count, error.chip))
    # nothing went to any other chip
    ctx.prove(set(machine.routers) <= set(chips),
              "router-other-chip-touched", sorted(machine.routers))
    ctx.prove(set(machine.memories) <= set(chips),
              "router-other-chip-touched", sorted(machine.memories))
    # the caller's tables are as they were
    for c, es in tables.items():
        same = len(es) == len(snapshot[c]) and all(
            e.route == s[0] and e.sources == s[3]
            for e, s in zip(es, snapshot[c]))
        ctx.prove(same, "router-argument-modified")


def _expect_decoded(rec, Routes):
    """What reading back the record must give: None, or (route bits word,
    key, mask, app, core); forks on nothing when the route word is
    concrete."""
    nxt, free, route, key, mask = rec
    return ((route >> 24) & 0xff) == 0xff, route & 0xffffff, key, mask, \
        free & 0xff, (free >> 8) & 0xf


def _check_decoded(ctx, got, rec, Routes, label, conds, where):
    """Compare one item of get_routing_table_entries with the model's
    record.  `got is None` is a fact of the path; conditions that must then
    hold are appended to `conds`."""
    unused, low, key, mask, app, core = _expect_decoded(rec, Routes)
    if got is None:
        conds.append(unused)
        return
    conds.append(snot(unused))
    ok = (isinstance(got, tuple) and len(got) == 3)
    ctx.prove(ok, label + "-shape", where)
    if not ok:
        return
    rte, gapp, gcore = got
    word = 0
    for r in rte.route:
        word |= 1 << int(r)
    ctx.prove(all(isinstance(r, Routes) for r in rte.route) and
              rte.sources == {None}, label + "-route-type", where)
    conds.append(sand(low == word, rte.key == key, rte.mask == mask,
                      gapp == app, gcore == core))


def h_roundtrip(ctx, counts, menu, bases=(0, 1, 2, "top")):
    """load, then read the whole router back."""
    from rig.machine_control import MachineController
    from rig.machine_control.machine_controller import SpiNNakerRouterError
    from rig.routing_table import Routes, RoutingTableEntry
    menu = _menu(menu)
    n = ctx.pick(counts)
    chip = CHIPS[0]
    alloc = tuple(RTR - n if b == "top" else b for b in bases)
    machine, world, patch = _world(ctx, 256, alloc)
    app_id = ctx.bv("app_id", 8)
    j = ctx.choose(len(menu)) if n else 0
    with patch:
        mc = MachineController("host")
        entries, want = _make_entries(ctx, n, menu, j, Routes,
                                      RoutingTableEntry)
        # (a symbolic staging address is h_load's subject; here it is
        # concrete so that the router's content has concrete indices)
        buf = 0x60240000
        _prep_chip(ctx, machine, mc, chip, buf)
        # the other chip has another router copy: reading the wrong chip
        # shows
        _prep_chip(ctx, machine, mc, CHIPS[1], None)
        if ctx.choose(2):
            # the same controller has dumped the OTHER chip's router before
            # (whatever it learnt there -- addresses, sizes -- is that
            # chip's, not this one's)
            try:
                other = mc.get_routing_table_entries(*CHIPS[1])
                ctx.observe("other chip first", len(other))
                ctx.witness("other-chip-first")
            except Exception as e:
                ctx.observe(type(e).__name__)
                ctx.prove(False, "readback-unexpected-exception", repr(e))
                return
        try:
            mc.load_routing_table_entries(entries, chip[0], chip[1], app_id)
            loaded = True
        except SpiNNakerRouterError:
            loaded = False
        except Exception as e:
            ctx.observe(type(e).__name__)
            ctx.prove(False, "router-unexpected-exception", repr(e))
            return
        base = machine.allocs[0][3] if machine.allocs else None
        ctx.prove(base is not None and loaded == (base != 0),
                  "router-error-missing" if loaded else
                  "router-error-spurious", base)
        mark = len(machine.log)
        try:
            table = mc.get_routing_table_entries(chip[0], chip[1])
        except Exception as e:
            ctx.observe(type(e).__name__)
            ctx.prove(False, "readback-unexpected-exception", repr(e))
            return
    ctx.observe("read back", loaded, base, len(table),
                [None if g is None else
                 (sorted(int(r) for r in g[0].route), g[0].key, g[0].mask,
                  g[1], g[2]) for g in table[:8]])
    ctx.witness("loaded-and-read" if loaded else "refused-and-read")
    ctx.prove(not machine.problems, "router-command-malformed",
              repr(machine.problems[:3]))
    ctx.prove(len(table) == RTR, "readback-length", len(table))
    for q in machine.log[mark:]:
        if int(q.cmd) == 0:
            continue
        ctx.prove(sand(q.dest_x == chip[0], q.dest_y == chip[1],
                       q.dest_cpu == 0, q.cmd == 2),
                  "readback-command-wrong", (q.cmd, q.dest_x, q.dest_y))
    rtr = machine.router(chip)
    conds = []
    for i in range(min(len(table), RTR)):
        _check_decoded(ctx, table[i], rtr.load(i), Routes, "readback",
                       conds, i)
    ctx.prove(sand(*conds) if conds else True, "readback-entry-wrong",
              (loaded, base))
    # ... and against the entries given (not only against the model)
    if loaded and base:
        for i, e in enumerate(entries):
            g = table[base + i] if base + i < len(table) else None
            ok = g is not None and g[0].route == e.route
            ctx.prove(ok, "readback-differs-from-loaded", (base, i))
            if ok:
                ctx.prove(sand(g[0].key == e.key, g[0].mask == e.mask,
                               g[1] == app_id),
                          "readback-differs-from-loaded", (base, i))
    # reading modifies nothing
    ctx.prove(all(int(q.cmd) in (0, 2) for q in machine.log[mark:]),
              "readback-modified")


def _sym_record(ctx, low):
    nxt = ctx.bv("next", 16)
    free = ctx.bv("free", 16)
    top = ctx.bv("top", 8)
    key = ctx.bv("key", 32)
    mask = ctx.bv("mask", 32)
    return (nxt, free, (top << 24) | low, key, mask)


def _sym_low(ctx, bits):
    """Low 24 route bits with `bits` symbolic single bits set (they may
    coincide)."""
    low = 0
    for _ in range(bits):
        k = ctx.bv("bit", 5)
        ctx.assume(k <= 23)
        low = low | (1 << k)
    return low


def h_unpack(ctx, bits, menu):
    """unpack_routing_table_entry on a record with symbolic fields."""
    from rig.machine_control import machine_controller as mcm
    from rig.routing_table import Routes
    if bits:
        low = _sym_low(ctx, bits)
    else:
        low = _word(ctx.pick(_menu(menu)))
    rec = _sym_record(ctx, low)
    packed = sstruct.pack("<2H3I", *rec)
    saved = mcm.struct
    mcm.struct = sstruct
    try:
        try:
            got = mcm.unpack_routing_table_entry(packed)
        except Exception as e:
            ctx.observe(type(e).__name__)
            ctx.prove(False, "readback-unexpected-exception", repr(e))
            return
    finally:
        mcm.struct = saved
    ctx.observe(None if got is None else
                (sorted(int(r) for r in got[0].route), got[0].key,
                 got[0].mask, got[1], got[2]))
    ctx.witness("unused" if got is None else "used")
    conds = []
    _check_decoded(ctx, got, rec, Routes, "readback", conds, 0)
    ctx.prove(sand(*conds), "readback-entry-wrong", rec)


def h_readback(ctx, menu, slots=(0, 6, 1023), symbolic_bit=False):
    """get_routing_table_entries on a router some of whose entries (first,
    last, one in between) have symbolic fields."""
    from rig.machine_control import MachineController
    from rig.routing_table import Routes
    menu = _menu(menu)
    chip = ctx.pick(CHIPS)
    machine, world, patch = _world(ctx, 256, (0,))
    with patch:
        mc = MachineController("host")
        for c in CHIPS:
            _prep_chip(ctx, machine, mc, c, None)
        rtr = machine.router(chip)
        for si, s in enumerate(slots):
            if si == 0 and symbolic_bit:
                low = _sym_low(ctx, 1)
            else:
                low = _word(menu[(7 * si) % len(menu)])
            rtr.store(s, _sym_record(ctx, low))
        try:
            table = mc.get_routing_table_entries(chip[0], chip[1])
        except Exception as e:
            ctx.observe(type(e).__name__)
            ctx.prove(False, "readback-unexpected-exception", repr(e))
            return
    ctx.observe(len(table), [None if table[s] is None else
                             (sorted(int(r) for r in table[s][0].route),
                              table[s][0].key, table[s][0].mask,
                              table[s][1], table[s][2])
                             for s in slots if s < len(table)])
    ctx.prove(len(table) == RTR, "readback-length", len(table))
    ctx.witness("read")
    if any(table[s] is None for s in slots if s < len(table)):
        ctx.witness("unused-entry")
    for q in machine.log:
        if int(q.cmd) == 0:
            continue
        ctx.prove(sand(q.dest_x == chip[0], q.dest_y == chip[1],
                       q.dest_cpu == 0, q.cmd == 2),
                  "readback-command-wrong", (q.cmd, q.dest_x, q.dest_y))
    conds = []
    for i in range(min(len(table), RTR)):
        _check_decoded(ctx, table[i], rtr.load(i), Routes, "readback",
                       conds, i)
    ctx.prove(sand(*conds), "readback-entry-wrong")


def h_clear(ctx):
    """clear_routing_table_entries invalidates the entries of exactly the
    application named, on the chip named."""
    from rig.machine_control import MachineController
    chip = ctx.pick(CHIPS)
    machine, world, patch = _world(ctx, 256, (0,))
    app_id = ctx.bv("app_id", 8)
    with patch:
        mc = MachineController("host")
        recs = {}
        for c in CHIPS:
            _prep_chip(ctx, machine, mc, c, None)
            for s in (1, 7):
                recs[c, s] = _sym_record(ctx, 0x41)
                machine.router(c).store(s, recs[c, s])
        try:
            mc.clear_routing_table_entries(chip[0], chip[1], app_id)
        except Exception as e:
            ctx.observe(type(e).__name__)
            ctx.prove(False, "router-unexpected-exception", repr(e))
            return
    ctx.observe("cleared")
    ctx.witness("cleared")
    ctx.prove(not machine.problems, "router-command-malformed",
              repr(machine.problems[:3]))
    cmds = [q for q in machine.log if int(q.cmd) != 0]
    ctx.prove(len(cmds) == 1, "router-clear-command-count", len(cmds))
    for q in cmds:
        ctx.prove(sand(q.dest_x == chip[0], q.dest_y == chip[1],
                       q.dest_cpu == 0, q.cmd == 28,
                       q.arg1 == ((app_id << 8) | 5)),
                  "router-clear-command-wrong", (q.arg1, q.arg2))
    t = ctx.bv("t", 10)
    for c in CHIPS:
        got = machine.router(c).load(t)
        before = _init_rec(t)
        for s in (1, 7):
            before = tuple(ite(t == s, a, b)
                           for a, b in zip(recs[c, s], before))
        mine = sand((before[1] & 0xff) == app_id, c == chip)
        was_used = (before[2] >> 24) != 0xff
        ctx.prove(sand(
            simplies(sand(mine, was_used), (got[2] >> 24) == 0xff),
            simplies(snot(sand(mine, was_used)),
                     sand(*[g == b for g, b in zip(got, before)]))),
            "router-clear-wrong-entries", (c, t, got[2], before[2]))


def h_big(ctx, n):
    """One concrete table of n entries (keys, masks, routes concrete;
    app_id symbolic), loaded and read back."""
    from rig.machine_control import MachineController
    from rig.machine_control.machine_controller import SpiNNakerRouterError
    from rig.routing_table import Routes, RoutingTableEntry
    menu = _menu("thorough")
    chip = CHIPS[0]
    machine, world, patch = _world(ctx, 256, (0, 1, 2))
    app_id = ctx.bv("app_id", 8)
    buf = 0x60001000
    with patch:
        mc = MachineController("host")
        entries, want = _make_entries(ctx, n, menu, 0, Routes,
                                      RoutingTableEntry, concrete=True)
        _prep_chip(ctx, machine, mc, chip, buf)
        try:
            mc.load_routing_table_entries(entries, chip[0], chip[1], app_id)
            loaded = True
        except SpiNNakerRouterError as e:
            loaded = False
            ctx.prove(e.count == n and tuple(e.chip) == chip,
                      "router-error-fields")
        except Exception as e:
            ctx.observe(type(e).__name__)
            ctx.prove(False, "router-unexpected-exception", repr(e))
            return
        base = machine.allocs[0][3] if machine.allocs else None
        ctx.observe("loaded" if loaded else "refused", base)
        ctx.witness("granted" if loaded else "refused")
        ctx.prove(not machine.problems, "router-command-malformed",
                  repr(machine.problems[:3]))
        ctx.prove(base is not None and loaded == (base != 0),
                  "router-error-missing" if loaded else
                  "router-error-spurious", base)
        _check_chip_commands(ctx, machine, chip, n, app_id, buf, base,
                             loaded, 256)
        rtr = machine.router(chip)
        if not loaded:
            ctx.prove(not rtr.touched, "router-loaded-after-failure")
            ctx.prove(machine.memory(chip).nstores ==
                      machine.memory(chip).prepared,
                      "router-staging-written-after-failure")
            return
        conds = []
        block = {base + i: w for i, w in enumerate(want)}
        for t in range(RTR):
            got = rtr.load(t)
            inb = t in block
            route, key, mask = block[t] if inb else _init_rec(t)[2:]
            ok = got[2] == route and got[3] == key and got[4] == mask
            if not ok:
                ctx.prove(False, "router-content-wrong", (t, got[2:], route,
                                                          key, mask))
                return
            if inb:
                conds.append((got[1] & 0xff) == app_id)
            else:
                init = _init_rec(t)
                conds.append(sand(got[0] == init[0], got[1] == init[1]))
        ctx.prove(sand(*conds), "router-entry-wrong-app")
        try:
            table = mc.get_routing_table_entries(chip[0], chip[1])
        except Exception as e:
            ctx.observe(type(e).__name__)
            ctx.prove(False, "readback-unexpected-exception", repr(e))
            return
    ctx.prove(len(table) == RTR, "readback-length", len(table))
    conds = []
    for i in range(min(len(table), RTR)):
        _check_decoded(ctx, table[i], rtr.load(i), Routes, "readback",
                       conds, i)
    ctx.prove(sand(*conds), "readback-entry-wrong")
    for i, e in enumerate(entries):
        g = table[base + i]
        ok = (g is not None and g[0].route == e.route and
              g[0].key == e.key and g[0].mask == e.mask)
        if not ok:
            ctx.prove(False, "readback-differs-from-loaded", (base, i))
            return
    ctx.witness("read-back")


# ----------------------------------------------------------------------
def units(tier, seed):
    us = _units(tier, seed)
    for u in us:
        # the queries are small (< 1 s each on an idle machine); generous
        # budgets only guard against a heavily shared machine
        u.timeout_ms = max(u.timeout_ms, 300000)
        u.path_timeout_s = max(u.path_timeout_s, 300)
    return us


def _units(tier, seed):
    q = tier == "quick"
    m = "quick" if q else "thorough"
    us = []
    wit = {"merge": ("merged",), "differ": ("multisource-error",),
           "differ-late": ("multisource-error",),
           "none-leaves": ("merged",),
           "three": ("merged", "multisource-error"),
           "link-leaf": ("merged",), "chain5": ("merged",),
           "every-direction": ()}
    for name in sorted(SCENARIOS):
        us.append(Unit("trees %s" % name, h_trees, dict(scenario=name),
                       split=3 if len(SCENARIOS[name]) > 2 else 0,
                       witnesses=("tables", "all-distinct",
                                  "shared-key-mask") + wit[name]))
    # the same trees put together top-down (a node made with the caller's
    # still empty list of children) or through node.children
    us.append(Unit("trees chain5, built top-down / by appending", h_trees,
                   dict(scenario="chain5", styles=("top-down", "append")),
                   witnesses=("tables", "merged")))
    us.append(Unit("load entries", h_load,
                   dict(counts=(0, 1, 2, 3), menu=m, via="entries",
                        bufsizes=(256,) if q else (256, 24)), split=2,
                   witnesses=("refused", "granted", "granted-nonempty")))
    us.append(Unit("load tables (two chips)", h_load,
                   dict(counts=((1, 2), (0, 1)) if q else
                        ((1, 2), (0, 1), (3, 0), (2, 3)), menu="quick",
                        via="tables"), split=2,
                   witnesses=("refused", "granted", "granted-nonempty")))
    us.append(Unit("load and read back", h_roundtrip,
                   dict(counts=(0, 2) if q else (0, 1, 2, 3), menu=m,
                        bases=(0, 1, "top") if q else (0, 1, 2, "top")),
                   split=3, witnesses=("loaded-and-read",
                                       "refused-and-read",
                                       "other-chip-first")))
    us.append(Unit("unpack entry, one symbolic route bit", h_unpack,
                   dict(bits=1, menu=m), split=3,
                   witnesses=("used", "unused")))
    us.append(Unit("unpack entry, menu sets", h_unpack,
                   dict(bits=0, menu=m), witnesses=("used", "unused")))
    us.append(Unit("read back symbolic entries", h_readback, dict(menu=m),
                   split=3, witnesses=("read", "unused-entry")))
    if not q:
        us.append(Unit("read back symbolic entries, symbolic route bit",
                       h_readback, dict(menu=m, symbolic_bit=True),
                       split=3, witnesses=("read", "unused-entry")))
    us.append(Unit("clear", h_clear, {}, witnesses=("cleared",)))
    if not q:
        us.append(Unit("unpack entry, two symbolic route bits", h_unpack,
                       dict(bits=2, menu=m), split=5,
                       witnesses=("used", "unused")))
        us.append(Unit("1023 concrete entries", h_big, dict(n=1023),
                       witnesses=("granted", "refused", "read-back"),
                       path_timeout_s=600))
        us.append(Unit("1024 concrete entries", h_big, dict(n=1024),
                       witnesses=("refused",), path_timeout_s=600))
        us.append(Unit("1025 concrete entries", h_big, dict(n=1025),
                       witnesses=("refused",), path_timeout_s=600))
    return us
