import random, sys, warnings, itertools, collections
warnings.simplefilter("ignore")
random.seed(int(sys.argv[1]))
from rig.place_and_route import Machine, Cores, SDRAM
from rig.place_and_route.constraints import *
from rig.place_and_route.exceptions import *
from rig.place_and_route.place import sequential, breadth_first, hilbert, rcm, rand
from rig.place_and_route.place.sa import algorithm as sa
from rig.place_and_route.place.sa.python_kernel import PythonKernel
try:
    from rig.place_and_route.place.sa.c_kernel import CKernel
except Exception as e:
    CKernel = None; print("no ckernel", e)
from rig.netlist import Net
R1, R2 = Cores, SDRAM
placers = {
 "seq": lambda *a: sequential.place(*a), "bf": lambda *a: breadth_first.place(*a), "hil": lambda *a: hilbert.place(*a),
 "hil2": lambda *a: hilbert.place(*a, breadth_first=False), "rcm": lambda *a: rcm.place(*a),
 "sa_py": lambda *a: sa.place(*a, random=random.Random(1), kernel=PythonKernel, effort=0.3),
}
if CKernel: placers["sa_c"] = lambda *a: sa.place(*a, random=random.Random(1), kernel=CKernel, effort=0.3)
placers["rand"] = lambda *a: rand.place(*a, random=random.Random(2))
stats = collections.Counter()
for it in range(int(sys.argv[2])):
    w, h = random.choice([(1,1),(2,1),(2,2),(3,2),(3,3)])
    caps = {R1: random.randint(0, 4), R2: random.randint(0, 10)}
    exc = {}
    if random.random() < .4:
        exc[(random.randrange(w), random.randrange(h))] = {R1: random.randint(0, 5), R2: random.randint(0, 12)}
    dead = set()
    if w*h > 1 and random.random() < .3: dead.add((random.randrange(w), random.randrange(h)))
    exc = {k: v for k, v in exc.items() if k not in dead}
    m = Machine(w, h, caps, exc, dead)
    nv = random.randint(0, 6)
    vs = ["v%d" % i for i in range(nv)]
    unit = random.random() < .3
    vr = collections.OrderedDict((v, ({R1: random.randint(0, 1), R2: 0} if unit else {R1: random.randint(0, 2), R2: random.randint(0, 5)})) for v in vs)
    nets = []
    for _ in range(random.randint(0, 4)):
        if nv: nets.append(Net(random.choice(vs), [random.choice(vs) for _ in range(random.randint(0, 3))], random.choice([0, 1, 2.5])))
    cons = []
    live = list(m)
    if nv and live and random.random() < .5:
        for v in random.sample(vs, random.randint(1, min(2, nv))):
            cons.append(LocationConstraint(v, random.choice(live)))
    if nv >= 2 and random.random() < .5 and not unit:
        g = random.sample(vs, random.randint(1, min(3, nv)))
        if random.random() < .3: g.append(g[0])
        cons.append(SameChipConstraint(g))
        if nv >= 3 and random.random() < .3:
            cons.append(SameChipConstraint([g[-1], random.choice(vs)]))
    if random.random() < .5:
        cons.append(ReserveResourceConstraint(R1, slice(0, random.randint(0, 1))))
    if random.random() < .3 and live:
        cons.append(ReserveResourceConstraint(R2, slice(0, random.randint(0, 2)), random.choice(live)))
    random.shuffle(cons)
    # consistent location for same-chip groups? skip check: inconsistent allowed -> may give infeasible? keep but note
    for name, f in placers.items():
        try:
            pl = f(vr, nets, m, cons)
        except (InsufficientResourceError, InvalidConstraintError) as e:
            stats[name, "err"] += 1
            # completeness check for unit
            continue
        except Exception as e:
            stats[name, "EXC"] += 1; print("EXC", name, type(e).__name__, e, w, h, caps, exc, dead, dict(vr), [(n.source, n.sinks) for n in nets], [(type(c).__name__, c.__dict__) for c in cons]); continue
        stats[name, "ok"] += 1
        # feasibility
        ok = set(pl) == set(vs) and all(c in m for c in pl.values())
        use = collections.defaultdict(lambda: collections.Counter())
        for v, c in pl.items():
            for r, q in vr[v].items(): use[c][r] += q
        for c in use:
            if c not in m: ok = False; break
            avail = dict(m[c])
            for k in cons:
                if isinstance(k, ReserveResourceConstraint) and (k.location is None or k.location == c):
                    avail[k.resource] -= k.reservation.stop - k.reservation.start
            for r in use[c]:
                if use[c][r] > avail[r]: ok = False
        for k in cons:
            if isinstance(k, LocationConstraint) and pl.get(k.vertex) != k.location: ok = False
            if isinstance(k, SameChipConstraint) and len(set(pl[v] for v in k.vertices)) > 1: ok = False
        if not ok:
            stats[name, "INFEASIBLE"] += 1; print("INFEASIBLE", name, pl, w, h, caps, exc, dead, dict(vr), [(type(c).__name__, c.__dict__) for c in cons])
print(sorted(stats.items()))
