#!/usr/bin/env python3
"""Audit aid: lines of the property's anchored rig files that no path of the
check executed.  usage: VERIF_LINECOV=/tmp/lc ./check C07 --no-evidence; then
tools/linecov.py C07 /tmp/lc/C07.quick.json [file-substring ...]"""
import json, sys, os, ast
prop, covf = sys.argv[1], sys.argv[2]
only = sys.argv[3:]
cov = set(tuple(x) for x in json.load(open(covf)))
props = {json.loads(l)["id"]: json.loads(l)
         for l in open("/verif/properties.jsonl")}
files = props[prop]["anchors"]["files"]
REPO = os.environ.get("RIG_REPO", "/repo")
for f in files:
    if only and not any(o in f for o in only):
        continue
    path = os.path.join(REPO, f)
    if not os.path.exists(path):
        continue
    src = open(path).read()
    code = compile(src, path, "exec")
    exe = {}

    def walk(co, qual):
        for _, _, ln in co.co_lines():
            if ln is not None:
                exe.setdefault(ln, qual)
        for c in co.co_consts:
            if hasattr(c, "co_lines"):
                walk(c, c.co_qualname)
    walk(code, "<module>")
    # functions entered at all
    entered = set(q for (ff, ln) in cov if ff == f for q in [exe.get(ln)])
    lines = src.splitlines()
    miss = [ln for ln in sorted(exe) if (f, ln) not in cov
            and exe[ln] != "<module>" and exe[ln] in entered]
    never = sorted(set(exe[ln] for ln in exe if exe[ln] not in entered
                       and exe[ln] != "<module>"))
    print("== %s: %d executable lines in entered functions not run; "
          "functions never entered: %s" % (f, len(miss), ", ".join(never)))
    for ln in miss:
        t = lines[ln - 1].strip()
        if t.startswith(('"""', "'''", "#")) or not t:
            continue
        print("   %5d [%s] %s" % (ln, exe[ln], t[:100]))
