"""A SpiNNaker machine as seen through SCP datagrams (DESIGN 5.4): the oracle
side for the machine-control properties.  It is deliberately plain -- no
chunking, no compression -- and written from the documented command semantics
(rig/machine_control/consts.py docstrings, the SCP section of the SpiNNaker
software documentation as quoted in rig's docstrings).  Fields of a datagram
may be symbolic terms; everything here works unchanged on plain values (the
concrete mode of the engine).

Subclass `Machine` and add `cmd_<number>(self, q)` methods for further
commands; `q` is a `Request`.
"""
from sx.shims import struct as sstruct
from sx.proxies import ite, sand, SymBytes, SymInt, is_sym

RC_OK = 0x80
RC_CMD = 0x83
RC_ARG = 0x84

CMD_SVER, CMD_READ, CMD_WRITE, CMD_FILL = 0, 2, 3, 5
CMD_LINK_READ, CMD_LINK_WRITE = 17, 18


class Request(object):
    """A decoded SCP request datagram."""
    def __init__(self, data):
        self.raw = data
        (self.flags, self.tag, dpc, spc, self.dest_y, self.dest_x,
         self.src_y, self.src_x) = sstruct.unpack_from("<8B", data, 2)
        self.dest_port = dpc >> 5
        self.dest_cpu = dpc & 0x1f
        self.src_port_cpu = spc
        self.cmd, self.seq = sstruct.unpack_from("<2H", data, 10)
        self.arg1, self.arg2, self.arg3 = sstruct.unpack_from("<3I", data, 14)
        self.data = data[26:]

    @property
    def where(self):
        return (self.dest_x, self.dest_y, self.dest_cpu)


def _mix(a):
    """Initial content of every memory: a fixed function of the address, so
    that reading the wrong address shows."""
    return (a ^ (a >> 8) ^ (a >> 16) ^ 0x5a) & 0xff


class _Run(object):
    """`n` bytes from `addr` holding `pattern` repeated (period 1 or 4)."""
    __slots__ = ("addr", "n", "pattern")

    def __init__(self, addr, n, pattern):
        self.addr, self.n, self.pattern = addr, n, list(pattern)

    def sym(self):
        return is_sym(self.addr) or any(is_sym(b) for b in self.pattern)

    def apply(self, addr, v):
        off = addr - self.addr
        p = self.pattern
        if len(p) == 1:
            b = p[0]
        else:
            b = p[-1]
            for k in range(len(p) - 2, -1, -1):
                b = ite(off % len(p) == k, p[k], b)
        return ite(sand(addr >= self.addr, addr < self.addr + self.n), b, v)


def _same_byte(a, b):
    if a is b:
        return True
    sa, sb = is_sym(a), is_sym(b)
    if sa and sb:
        try:
            return a.e.eq(b.e)          # the same term (hash-consed by z3)
        except AttributeError:
            return False
    return not sa and not sb and a == b


class Memory(object):
    """Byte-addressed memory: initial content + an ordered log of writes.
    Addresses and bytes may be symbolic.  A write of eight or more bytes
    that repeat with period 1 or 4 is logged as one run (so that large
    fills stay one if-then-else each)."""

    RUN = 8

    def __init__(self):
        self.writes = []        # (address, byte) or _Run, oldest first

    def store(self, addr, byte):
        self.writes.append((addr, byte))

    def store_run(self, addr, n, pattern):
        if n >= self.RUN:
            self.writes.append(_Run(addr, n, pattern))
        else:
            for i in range(n):
                self.store(addr + i, pattern[i % len(pattern)])

    def write(self, addr, data):
        n = len(data)
        if n >= self.RUN:
            for period in (1, 4):
                if all(_same_byte(data[i], data[i % period])
                       for i in range(n)):
                    self.store_run(addr, n, [data[k] for k in range(period)])
                    return
        for i in range(n):
            self.store(addr + i, data[i])

    def load(self, addr):
        v = _mix(addr)
        for w in self.writes:
            if isinstance(w, _Run):
                v = w.apply(addr, v)
            else:
                v = ite(w[0] == addr, w[1], v)
        return v

    def _symbolic(self):
        return any(w.sym() if isinstance(w, _Run)
                   else (is_sym(w[0]) or is_sym(w[1])) for w in self.writes)

    def read(self, addr, n):
        return SymBytes([self.load(addr + i) for i in range(n)]) \
            if (is_sym(addr) or self._symbolic()) \
            else bytes(self.load(addr + i) for i in range(n))


class Machine(object):
    def __init__(self, ctx, buffer_size=256, version=(2, 0, 0)):
        self.ctx = ctx
        self.buffer_size = buffer_size
        self.version = version
        self.memories = {}       # (x, y) or (x, y, link) -> Memory
        self.log = []            # every Request executed, in order
        self.problems = []       # protocol violations seen by the machine

    def __call__(self, data):
        return self.handle(data)

    # ------------------------------------------------------------------
    def memory(self, key):
        return self.memories.setdefault(key, Memory())

    def chip_key(self, q):
        return (int(q.dest_x), int(q.dest_y))

    def reply(self, q, rc=RC_OK, args=(), data=b""):
        hdr = (b"\0\0" + sstruct.pack("<8B", 0x07, q.tag, q.src_port_cpu,
                                      (q.dest_port << 5) | q.dest_cpu,
                                      q.src_y, q.src_x, q.dest_y, q.dest_x))
        out = hdr + sstruct.pack("<2H", rc, q.seq)
        for a in args:
            out = out + sstruct.pack("<I", a)
        return out + data

    def handle(self, data):
        q = Request(data)
        self.log.append(q)
        cmd = int(q.cmd)
        h = getattr(self, "cmd_%d" % cmd, None)
        if h is None:
            self.problems.append(("unknown command", cmd))
            return self.reply(q, RC_CMD)
        return h(q)

    # ------------------------------------------------------------------
    def cmd_0(self, q):         # sver
        x, y = q.dest_x, q.dest_y
        arg1 = (((x << 8) | y) << 16) | (q.dest_cpu << 8) | q.dest_cpu
        major, minor, patch = self.version
        arg2 = (0xffff << 16) | self.buffer_size
        name = b"SC&MP/SpiNNaker\0" + ("%d.%d.%d" % (
            major, minor, patch)).encode("ascii") + b"\0"
        return self.reply(q, args=(arg1, arg2, 0x5eed), data=name)

    def _check_access(self, q, n, unit):
        """A command's length fits the buffer, and a word / half-word access
        type is only used when address and length are so aligned."""
        if n > self.buffer_size:
            self.problems.append(("command longer than the buffer", n))
        return unit

    def cmd_2(self, q):         # read: arg1 address, arg2 length, arg3 type
        n = int(q.arg2)
        self._check_access(q, n, q.arg3)
        mem = self.memory(self.chip_key(q))
        return self.reply(q, data=mem.read(q.arg1, n))

    def cmd_3(self, q):         # write
        n = int(q.arg2)
        self._check_access(q, n, q.arg3)
        if n != len(q.data):
            self.problems.append(("write length differs from its payload",
                                  n, len(q.data)))
        mem = self.memory(self.chip_key(q))
        mem.write(q.arg1, q.data[:n])
        return self.reply(q)

    def cmd_5(self, q):         # fill: arg1 address, arg2 word, arg3 bytes
        n = int(q.arg3)
        mem = self.memory(self.chip_key(q))
        word = sstruct.pack("<I", q.arg2)
        mem.store_run(q.arg1, n, [word[k] for k in range(4)])
        return self.reply(q)

    def cmd_17(self, q):        # link read: arg1 addr, arg2 length, arg3 link
        n = int(q.arg2)
        self._check_access(q, n, 2)
        mem = self.memory(self.chip_key(q) + (int(q.arg3),))
        return self.reply(q, data=mem.read(q.arg1, n))

    def cmd_18(self, q):        # link write
        n = int(q.arg2)
        self._check_access(q, n, 2)
        if n != len(q.data):
            self.problems.append(("write length differs from its payload",
                                  n, len(q.data)))
        mem = self.memory(self.chip_key(q) + (int(q.arg3),))
        mem.write(q.arg1, q.data[:n])
        return self.reply(q)


class ConcretisingDict(dict):
    """A dict looked up with a key whose components may be proxies: they are
    concretised (forking over their feasible values) before the lookup.  Used
    for rig.machine_control.consts.address_length_dtype."""

    def _key(self, key):
        if isinstance(key, tuple):
            return tuple(int(k) if is_sym(k) else k for k in key)
        return int(key) if is_sym(key) else key

    def __getitem__(self, key):
        return dict.__getitem__(self, self._key(key))

    def get(self, key, default=None):
        return dict.get(self, self._key(key), default)

    def __contains__(self, key):
        return dict.__contains__(self, self._key(key))


def sym_bytearray(arg=0):
    from sx.proxies import SymByteArray
    return SymByteArray(arg)


def sym_memoryview(obj):
    from sx.proxies import SymMemoryView, SymByteArray
    if isinstance(obj, (SymByteArray, SymMemoryView)):
        return SymMemoryView(obj)
    return memoryview(obj)


def sym_bytes(obj=b"", *a):
    from sx.proxies import SymBytes as SB, SymMemoryView
    if isinstance(obj, SymMemoryView):
        obj = obj.tobytes()
    if isinstance(obj, SB):
        if obj.is_concrete():
            return bytes(obj.items)
        return SB(obj.items)
    return bytes(obj, *a)


class ControllerPatch(object):
    """Everything a MachineController needs to talk to a `Machine` through
    the real SCPConnection: clock/select/socket of models.net, the struct
    shim in packets / scp_connection / machine_controller, symbolic-aware
    bytearray/memoryview/bytes, and the concretising dtype table."""

    def __init__(self, world):
        from models.net import Patch
        self.net = Patch(world, struct_shim=True)

    def __enter__(self):
        from rig.machine_control import scp_connection as sc
        from rig.machine_control import machine_controller as mc
        from rig.machine_control import consts
        self.net.__enter__()
        self.sc, self.mc, self.consts = sc, mc, consts
        self.saved_dtype = consts.address_length_dtype
        consts.address_length_dtype = ConcretisingDict(self.saved_dtype)
        self.saved_mc_struct = mc.struct
        mc.struct = sstruct
        for mod in (sc, mc):
            mod.bytearray = sym_bytearray
            mod.memoryview = sym_memoryview
            mod.bytes = sym_bytes
        return self

    def __exit__(self, *exc):
        for mod in (self.sc, self.mc):
            for name in ("bytearray", "memoryview", "bytes"):
                if name in mod.__dict__:
                    del mod.__dict__[name]
        self.mc.struct = self.saved_mc_struct
        self.consts.address_length_dtype = self.saved_dtype
        return self.net.__exit__(*exc)
