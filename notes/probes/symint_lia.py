"""Int-backed proxies for probes (prototype)."""
import z3
from symex import Engine, SymBool, PathAbort

def iv(v):
    if isinstance(v, IntS): return v.e
    if isinstance(v, bool): v = int(v)
    if isinstance(v, int): return z3.IntVal(v)
    if isinstance(v, float) and v == int(v): return z3.IntVal(int(v))
    return NotImplemented

class IntS:
    __slots__ = ("e",)
    def __init__(self, e): self.e = e
    @staticmethod
    def var(name, lo=None, hi=None):
        eng = Engine.cur
        x = IntS(eng.fresh(name, z3.IntSort()))
        if lo is not None: eng.solver.add(x.e >= lo)
        if hi is not None: eng.solver.add(x.e <= hi)
        return x
    def _b(s, o, f):
        o = iv(o)
        if o is NotImplemented: return NotImplemented
        return IntS(f(s.e, o))
    def _r(s, o, f):
        o = iv(o)
        if o is NotImplemented: return NotImplemented
        return IntS(f(o, s.e))
    def __add__(s,o): return s._b(o, lambda a,b: a+b)
    def __radd__(s,o): return s._r(o, lambda a,b: a+b)
    def __sub__(s,o): return s._b(o, lambda a,b: a-b)
    def __rsub__(s,o): return s._r(o, lambda a,b: a-b)
    def __mul__(s,o): return s._b(o, lambda a,b: a*b)
    def __rmul__(s,o): return s._r(o, lambda a,b: a*b)
    def __floordiv__(s,o): return s._b(o, lambda a,b: a/b)   # z3 int div: floor for positive divisor
    def __mod__(s,o): return s._b(o, lambda a,b: a%b)
    def __neg__(s): return IntS(-s.e)
    def __abs__(s): return IntS(z3.If(s.e<0,-s.e,s.e))
    def _c(s,o,f):
        o = iv(o)
        if o is NotImplemented: return NotImplemented
        return SymBool(f(s.e,o))
    def __eq__(s,o): return s._c(o, lambda a,b: a==b)
    def __ne__(s,o): return s._c(o, lambda a,b: a!=b)
    def __lt__(s,o): return s._c(o, lambda a,b: a<b)
    def __le__(s,o): return s._c(o, lambda a,b: a<=b)
    def __gt__(s,o): return s._c(o, lambda a,b: a>b)
    def __ge__(s,o): return s._c(o, lambda a,b: a>=b)
    def __bool__(s): return Engine.cur.branch(s.e != 0)
    def __hash__(s): return 0x5157
    def __index__(s): return Engine.cur.concretize(s.e)
    def __format__(s, spec): return "<sym>"
    def __repr__(s): return "IntS(%s)" % s.e
