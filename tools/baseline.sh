#!/bin/bash
# Runs the pinned baseline command on a rig tree (default /repo) and compares
# the passing tests with BASELINE.json's stable_pass list.
# usage: tools/baseline.sh [tree]    exit 0 = all 475 stable tests pass
TREE=${1:-/repo}
OUT=$(mktemp /tmp/rigbase.XXXXXX.xml)
cd "$TREE" && PYTHONDONTWRITEBYTECODE=1 /venv/bin/python -m pytest -ra -q -p no:cacheprovider --timeout=900 --continue-on-collection-errors --junitxml="$OUT" >/dev/null 2>&1
python3 /w/lib/parse_tests.py "$OUT" > "$OUT.json" 2>/dev/null || true
python3 - "$OUT" <<'PY'
import json, sys, xml.etree.ElementTree as ET
base = json.load(open('/root/.vp/BASELINE.json'))
want = set(base['stable_pass'])
root = ET.parse(sys.argv[1]).getroot()
passed = set(); allc = 0; failed = 0
for tc in root.iter('testcase'):
    allc += 1
    name = tc.get('classname', '') + '::' + tc.get('name', '')
    bad = any(c.tag in ('failure', 'error', 'skipped') for c in tc)
    if bad:
        failed += 1
    else:
        passed.add(name)
missing = sorted(want - passed)
print("testcases=%d passed=%d notpassed=%d baseline_missing=%d" % (allc, len(passed), failed, len(missing)))
for m in missing[:20]:
    print("  MISSING", m)
sys.exit(1 if missing else 0)
PY
rc=$?
rm -f "$OUT" "$OUT.json"
exit $rc
