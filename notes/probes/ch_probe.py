import sys
sys.path.insert(0, "/tmp/scr")
from rig.place_and_route.allocate.utils import align, slices_overlap
from rig.geometry import minimise_xyz, shortest_mesh_path_length
from rig.routing_table.utils import intersect

def _align_ok(value: int, alignment: int) -> int:
    """
    pre: value >= 0 and 1 <= alignment <= 64
    post: _ >= value and _ % alignment == 0 and _ - value < alignment
    """
    return align(value, alignment)

def _min_xyz(x: int, y: int, z: int) -> int:
    """
    post: _ == 0
    """
    a, b, c = minimise_xyz((x, y, z))
    # minimal: median component zero, and same vector
    ok = (a - c == x - z) and (b - c == y - z) and sorted([a, b, c])[1] == 0 and \
        (max(a, b, c) - min(a, b, c)) == shortest_mesh_path_length((0, 0, 0), (x, y, z))
    return 0 if ok else 1

def _intersect_sem(ka: int, ma: int, kb: int, mb: int, k: int) -> bool:
    """
    pre: 0 <= ka < 256 and 0 <= ma < 256 and 0 <= kb < 256 and 0 <= mb < 256 and 0 <= k < 256
    pre: ka & ~ma == 0 and kb & ~mb == 0
    post: _
    """
    both = (k & ma) == ka and (k & mb) == kb
    return (not both) or intersect(ka, ma, kb, mb)
