"""C03 -- routing trees are loop-free, connected and use only live hardware.

Runs the real rig.place_and_route.route.ner.route (the public
rig.place_and_route.route) on a machine whose set of dead links is symbolic:
`machine.dead_links` is a SymLinkSet holding one solver boolean per directed
link under a pseudo-boolean budget "at most K dead".  The router only ever
asks `(x, y, link) in machine`; every such question is a solver-decided
branch, so one explored path stands for *every* fault map (within the budget)
that agrees with it on the links the router actually examined.  The oracle
walks the returned tree with its own link-vector table and proves, under the
path condition, that every hop uses a link that is not dead -- a hop over a
link the router never examined is a free boolean and fails the proof.  If the
router gives up with MachineHasDisconnectedSubregion the oracle proves that
"path condition and the working chips are strongly connected" is
unsatisfiable.  Every random tie-break (rig.geometry, route.utils) is a solver
real or an explored choice.

Found with this harness and repaired in /repo (df2138d): avoid_dead_links
attached one node twice when an A* detour ran through a node of the orphaned
subtree and then through one of its descendants (2x2 mesh, 3 dead links).
"""
import importlib

from sx.runner import Unit
from sx.proxies import sand, sor, snot, same_truth

PROPERTY = "C03"

META = {
    "bounds":
        "One call of route() per path.  CHOSEN (explored exhaustively inside "
        "a unit): machine shape 1x1, 1x2, 2x1, 2x2, 2x3, 3x3 (thorough adds "
        "3x2, 1x4, 4x1, 2x4, 4x4), each as a torus (no link concretely dead) "
        "and as a mesh (every off-edge link concretely dead); no dead chip, "
        "or (units marked deadchip=any) none or any one chip dead; one net "
        "whose source vertex is placed on every working chip (or on every "
        "chip of the list in the unit's name) and whose 1-2 (thorough: 1-3) "
        "sink vertices are placed on every multiset of working chips, "
        "including the source's chip and several sinks on one chip; search "
        "radius 0, 1 or 20; sink kinds: 1 allocated core, 2 allocated "
        "cores, a RouteEndpointConstraint (with a decoy allocation), or no "
        "allocation -- a fixed pattern per unit, every combination in the "
        "`kinds=all` units (ordered placements); variants: the first sink "
        "listed twice in the net (dup), the source also a sink (selfloop), a "
        "second net from the first sink back to the source (two_nets), a "
        "caller-defined core_resource with a decoy Cores allocation "
        "(custom_res).  SYMBOLIC (decided by the solver): the membership of "
        "every directed link (x, y, link) of every working chip in "
        "machine.dead_links, independently per direction, with at most K "
        "links dead in addition to the mesh's off-edge links (quick: K = 2, "
        "one 2x2 mesh unit K = 3, K = 1 or 0 where the unit says so; "
        "thorough: K = 3 on 1x1, 1x2, 2x1, 2x2, 2x3, 1x4 and on 3x3 with "
        "one sink and the source on (0,0) or (1,1), else K <= 2); every "
        "random tie-break of "
        "shortest_torus_path and longest_dimension_first (reals in [0, 1), "
        "every spiral count).  The cross product of the chosen dimensions "
        "is NOT complete: a unit fixes (shape, torus/mesh, K, radius, number "
        "of sinks, dead-chip mode, kind pattern, variant) and explores all "
        "the rest; the unit names in the evidence list exactly which "
        "combinations were explored (quick: 40 units, ~46 000 paths; "
        "thorough: 108 units, ~1.1 million paths).",
    "stubs": [
        "machine.dead_links is a SymLinkSet: membership of (x, y, link) is "
        "one solver boolean per directed link, created when the link is "
        "first looked at by the router or by the oracle (concretely True for "
        "the off-edge links of a mesh, concretely False -- not listed -- for "
        "links of a dead chip, which are implicitly dead), under the "
        "pseudo-boolean constraint 'at most K true'; once K links have been "
        "decided dead on a path the remaining ones answer False without a "
        "variable; copy() shares the variables; iteration, len and == are "
        "unsupported (route() never uses them)",
        "the name `random` in rig.geometry and in rig.place_and_route.route."
        "utils is rebound to a stub: random() is a solver real in [0, 1) "
        "that is only materialised when a comparison of `int + random()` "
        "keys is not already settled by the integer parts; randint(a, b) is "
        "an explored choice of a..b",
        "machine.has_wrap_around_links is rebound (on the instance) to a "
        "non-forking equivalent: one solver branch on a pseudo-boolean count "
        "of the working off-edge links instead of one branch per link "
        "(cuts paths ~12x on a 3x3 torus).  The `wrap stub == "
        "has_wrap_around_links` units prove it equal to the real method for "
        "every shape and K used (a difference makes the run inconclusive, "
        "not a violation); the units marked real_wrap run route() with the "
        "real method",
    ],
    "assumptions": [
        "precondition of route(): every vertex is placed on a working chip "
        "of the machine; allocations are slices of core numbers 0..17",
        "a sink listed twice in net.sinks may have its leaves twice (the "
        "oracle requires the *set* of leaves of every sink to be exact and "
        "no leaf to occur more often than the sink is listed)",
        "an endpoint constraint takes precedence over an allocation of the "
        "same sink",
        "'all working chips can reach each other' is read as strong "
        "connectivity of the directed graph of working links between "
        "working chips (a link may be dead in one direction only); encoded "
        "as reachability from and to one chip unrolled |chips|-1 steps over "
        "the link booleans",
        "a childless tree node that carries no sink (a stub branch left "
        "behind by the repair) is not a leaf in the property's sense and is "
        "accepted",
        "termination: a path that exceeds the engine's 60 s budget is "
        "replayed concretely and reported as non-termination",
    ],
    "outside_claim": [
        "more dead links than K (beyond a mesh's off-edge links), more than "
        "one dead chip, machines of more than 16 chips",
        "combinations of (shape, K, radius, number of sinks, dead chip) that "
        "are not a unit: in particular quick has K = 2 on 3x3 only with one "
        "sink and no dead chip, and two sinks on 3x3 only with K = 1 and a "
        "restricted set of source chips",
        "more than 2 (thorough: 3) sink vertices per net, more than 2 nets "
        "per call",
        "sinks with an empty core allocation (slice of length 0), "
        "allocations of more than 2 cores",
        "the iteration order of Python sets of (x, y) tuples (broken-link "
        "order, destination order among equidistant sinks) is CPython "
        "3.12's, not symbolic",
        "route() inside the non-real_wrap units calls the verified stub of "
        "has_wrap_around_links, not the method itself",
    ],
}

#: link number -> (dx, dy); deliberately not rig.links' table
VEC = ((1, 0), (1, 1), (0, 1), (-1, 0), (-1, -1), (0, -1))


class SymLinkSet(object):
    """Stands in for the set Machine.dead_links.

    One solver boolean per directed link, created when the link is first
    looked at (by the router or by the oracle), with the pseudo-boolean budget
    "at most K of the booleans created so far are true" re-stated at every
    creation.  A link never looked at has no boolean: the path stands for
    both of its states (within the budget)."""

    def __init__(self, ctx, w, h, K, fixed_dead, dead_chips):
        self.ctx = ctx
        self.w, self.h, self.K = w, h, K
        self.fixed = set(fixed_dead)
        self.dead_chips = set(dead_chips)
        self.var = {}           # (x, y, l) -> SymBool / bool
        self.known = {}         # (x, y, l) -> bool decided on this path
        self.ndead = 0          # number of links decided dead on this path
        self.examined = 0

    def _budget(self):
        vs = list(self.var.values())
        if len(vs) <= self.K:
            return
        if self.ctx.symbolic:
            import z3
            self.ctx.assume(z3.PbLe([(v.e, 1) for v in vs], self.K))
        else:
            self.ctx.assume(sum(1 for v in vs if v) <= self.K)

    def ensure(self, keys):
        """Create the booleans of several links at once."""
        new = False
        for key in keys:
            if (key not in self.var and key not in self.fixed and
                    key[:2] not in self.dead_chips and self.K > 0):
                self.var[key] = self.ctx.bool("dead_%d_%d_%d" % key)
                new = True
        if new:
            self._budget()

    def dead(self, x, y, l):
        """Non-forking: is link l of chip (x, y) in the set?  (bool when
        that is fixed by the structure or already decided on this path.)"""
        key = (x, y, int(l))
        if key in self.fixed:
            return True
        if ((x, y) in self.dead_chips or
                not (0 <= x < self.w and 0 <= y < self.h)):
            # Links of a dead chip are implicitly dead (Machine docstring)
            # and need not be listed: here they never are.
            return False
        k = self.known.get(key)
        if k is not None:
            return k
        if self.ndead >= self.K and key not in self.var:
            # K links were decided dead on this path: the budget forces
            # every other link alive (saves a variable and a solver call)
            return False
        if key not in self.var:
            self.ensure([key])
        return self.var[key]

    def __contains__(self, key):
        x, y, l = key
        d = self.dead(x, y, l)
        if isinstance(d, bool) and (x, y, int(l)) not in self.var:
            return d
        self.examined += 1
        r = bool(d)                 # a solver-decided branch
        key = (x, y, int(l))
        if key not in self.known:
            self.known[key] = r
            if r:
                self.ndead += 1
        return r

    def __bool__(self):
        """Is any link dead at all?  (One solver-decided branch over the
        booleans of every link of every live chip.)"""
        if self.fixed:
            return True
        if self.K <= 0:
            return False
        keys = [(x, y, l) for x in range(self.w) for y in range(self.h)
                if (x, y) not in self.dead_chips for l in range(6)]
        self.ensure(keys)
        states = [self.dead(*k) for k in keys]
        if any(d is True for d in states):
            return True
        return bool(sor(*[d for d in states if d is not False]))

    def copy(self):
        return self

    def _no(self, *a, **k):
        from sx.engine import Unsupported
        raise Unsupported("SymLinkSet supports membership tests only")
    __iter__ = __len__ = __eq__ = __ne__ = _no
    __hash__ = None


def off_edge_links(w, h):
    return [(x, y, l) for x in range(w) for y in range(h)
            for l, (dx, dy) in enumerate(VEC)
            if not (0 <= x + dx < w and 0 <= y + dy < h)]


def make_wrap_stub(ctx, machine, deadset):
    """Non-forking equivalent of Machine.has_wrap_around_links (which counts
    the working off-edge links one solver branch at a time): a single branch
    on a pseudo-boolean count.  Unit family `wrap` proves it equal to the
    real method for every fault map in the bound."""
    w, h = machine.width, machine.height

    def condition():
        total = 4 * w + 4 * h - 2
        links = off_edge_links(w, h)
        assert len(links) == total
        links = [k for k in links if k[:2] not in deadset.dead_chips]
        deadset.ensure(links)
        states = [deadset.dead(*k) for k in links]
        sure = sum(1 for d in states if d is False)
        open_ = [d for d in states if not isinstance(d, bool)]
        # working / total >= 0.9  <=>  10 * working >= 9 * total (the float
        # quotient is exact enough for totals <= 30: proved by unit `wrap`)
        need = -((-9 * total) // 10) - sure       # ceil(0.9 total) - sure
        if need <= 0:
            return True
        if need > len(open_):
            return False
        if ctx.symbolic:
            import z3
            from sx.proxies import SymBool
            return SymBool(z3.PbGe([(z3.Not(d.e), 1) for d in open_], need))
        return sum(1 for d in open_ if not d) >= need

    def has_wrap_around_links(minimum_working=0.9):
        assert minimum_working == 0.9
        return bool(condition())        # one solver-decided branch
    has_wrap_around_links.condition = condition
    return has_wrap_around_links


class _Lazy(object):
    """base + random.random(), the random part a solver real in [0, 1) that
    is only created when a comparison is not already settled by the integer
    parts (|difference| >= 1)."""
    __slots__ = ("rnd", "base", "val")

    def __init__(self, rnd, base):
        self.rnd = rnd
        self.base = base
        self.val = None

    def value(self):
        if self.val is None:
            r = self.rnd.ctx.real("rnd", 0, 1)
            self.rnd.ctx.assume(r < 1)
            self.val = r
        return self.base + self.val

    def __add__(self, o):
        if self.val is None and isinstance(o, int):
            return _Lazy(self.rnd, self.base + o)
        return self.value() + o
    __radd__ = __add__

    def _cmp(self, o, op):
        if (isinstance(o, _Lazy) and isinstance(self.base, int) and
                isinstance(o.base, int) and self.base != o.base):
            # a + r1 < b + r2 for all r1, r2 in [0, 1) iff a < b (a != b)
            a, b = self.base, o.base
            return {"lt": a < b, "le": a < b, "gt": a > b, "ge": a > b}[op]
        ov = o.value() if isinstance(o, _Lazy) else o
        v = self.value()
        return {"lt": lambda: v < ov, "le": lambda: v <= ov,
                "gt": lambda: v > ov, "ge": lambda: v >= ov}[op]()

    def __lt__(self, o): return self._cmp(o, "lt")
    def __le__(self, o): return self._cmp(o, "le")
    def __gt__(self, o): return self._cmp(o, "gt")
    def __ge__(self, o): return self._cmp(o, "ge")
    __hash__ = None


class SymRandom(object):
    """Stands in for the module `random`."""

    def __init__(self, ctx):
        self.ctx = ctx
        self.draws = 0

    def random(self):
        self.draws += 1
        return _Lazy(self, 0)

    def randint(self, a, b):
        self.draws += 1
        return a + self.ctx.choose(b - a + 1)

    def choice(self, seq):
        self.draws += 1
        return seq[self.ctx.choose(len(seq))]

    def __getattr__(self, name):
        from sx.engine import Unsupported
        raise Unsupported("random.%s is not modelled" % name)


def _serialise(node, RoutingTree, depth=0):
    if depth > 64:
        return "<too deep>"
    out = []
    for r, c in node.children:
        r = None if r is None else int(r)
        if isinstance(c, RoutingTree):
            out.append((r, _serialise(c, RoutingTree, depth + 1)))
        else:
            out.append((r, c))
    return (node.chip, out)


def _strongly_connected(chips, w, h, deadset):
    """Condition (SymBool/bool): every chip of `chips` reaches every other
    over links that are not dead (both end chips in `chips`)."""
    chips = list(chips)
    if len(chips) <= 1:
        return True
    alive = set(chips)
    edge = {}
    for (x, y) in chips:
        for l, (dx, dy) in enumerate(VEC):
            b = ((x + dx) % w, (y + dy) % h)
            if b in alive and b != (x, y):
                edge.setdefault(((x, y), b), []).append(
                    snot(deadset.dead(x, y, l)))
    edge = dict((k, sor(*v)) for k, v in edge.items())
    root = chips[0]
    conds = []
    for forward in (True, False):
        reach = dict((c, c == root) for c in chips)
        for _ in range(len(chips) - 1):
            new = {}
            for c in chips:
                terms = [reach[c]]
                for a in chips:
                    e = edge.get((a, c) if forward else (c, a))
                    if e is not None and reach[a] is not False:
                        terms.append(sand(reach[a], e))
                new[c] = sor(*terms)
            reach = new
        conds.extend(reach[c] for c in chips if c != root)
    return sand(*conds)


KINDS = ("cores1", "cores2", "endpoint", "endpoint0", "none")


def h_route(ctx, w, h, torus, K, radius, nsinks, deadchip="none", src=None,
            kinds=None, dup=False, selfloop=False, custom_res=False,
            two_nets=False, ordered=False, real_wrap=False):
    geometry = importlib.import_module("rig.geometry")
    rutils = importlib.import_module("rig.place_and_route.route.utils")
    ner = importlib.import_module("rig.place_and_route.route.ner")
    from rig.place_and_route.machine import Machine, Cores
    from rig.place_and_route.routing_tree import RoutingTree
    from rig.place_and_route.constraints import RouteEndpointConstraint
    from rig.place_and_route.exceptions import MachineHasDisconnectedSubregion
    from rig.routing_table import Routes
    from rig.netlist import Net
    from rig.links import Links

    all_chips = [(x, y) for x in range(w) for y in range(h)]

    # ---- chosen structure ------------------------------------------------
    dead_chips = set()
    if deadchip == "any":
        k = ctx.choose(len(all_chips) + 1)
        if k:
            dead_chips.add(all_chips[k - 1])
    elif deadchip == "one":
        dead_chips.add(all_chips[ctx.choose(len(all_chips))])
    elif deadchip != "none":
        dead_chips.add(tuple(deadchip))
    live = [c for c in all_chips if c not in dead_chips]
    if src is None:
        src_chips = live
    elif isinstance(src[0], int):
        src_chips = [tuple(src)]
    else:
        src_chips = [tuple(c) for c in src]
    src_chips = [c for c in src_chips if c not in dead_chips]
    if not src_chips:
        ctx.assume(False)

    placements = {}
    placements["src"] = ctx.pick(src_chips)
    sinks = ["s%d" % i for i in range(nsinks)]
    lowest = 0
    for s in sinks:
        # sinks are interchangeable for the router (it works on the set of
        # their chips): unless `ordered`, enumerate multisets of chips
        i = lowest + ctx.choose(len(live) - lowest)
        if not ordered:
            lowest = i
        placements[s] = live[i]
    kind = {}
    for i, s in enumerate(sinks):
        kind[s] = ctx.pick(KINDS) if kinds is None else kinds[i % len(kinds)]
    net_sinks = list(sinks)
    if dup:
        net_sinks.append(sinks[0])
    if selfloop:
        net_sinks.insert(0, "src")
        kind["src"] = "cores1"
    nets = [Net("src", net_sinks)]
    if two_nets:
        nets.append(Net(sinks[0], ["src"]))
        kind.setdefault("src", "cores2")

    core_res = object() if custom_res else Cores
    allocations = {}
    constraints = []
    expect = {}                 # vertex -> set of leaf routes (ints / None)
    for v, kd in sorted(kind.items()):
        if kd == "cores1":
            allocations[v] = {core_res: slice(3, 4)}
            expect[v] = {6 + 3}
        elif kd == "cores2":
            allocations[v] = {core_res: slice(1, 3)}
            expect[v] = {6 + 1, 6 + 2}
        elif kd == "endpoint":
            # an endpoint constraint wins over an allocation
            allocations[v] = {core_res: slice(5, 6)}
            constraints.append(RouteEndpointConstraint(v, Routes.north))
            expect[v] = {2}
        elif kd == "endpoint0":
            # ... on the east link, whose value is 0
            allocations[v] = {}
            constraints.append(RouteEndpointConstraint(v, Routes.east))
            expect[v] = {0}
        else:
            allocations[v] = {}
            expect[v] = {None}
        if custom_res:
            # decoy: the documented core_resource argument must be honoured
            allocations[v][Cores] = slice(10, 12)

    # ---- the machine: concrete shape, symbolic link faults -----------------
    fixed = set() if torus else set(off_edge_links(w, h))
    machine = Machine(w, h, dead_chips=set(dead_chips))
    deadset = SymLinkSet(ctx, w, h, K, fixed, dead_chips)
    machine.dead_links = deadset
    if not real_wrap:
        machine.has_wrap_around_links = make_wrap_stub(ctx, machine, deadset)

    rnd = SymRandom(ctx)
    saved = (geometry.random, rutils.random)
    geometry.random = rnd
    rutils.random = rnd
    outcome = None
    try:
        try:
            vr = dict((v, {}) for v in placements)
            kw = {}
            if custom_res:
                kw["core_resource"] = core_res
            routes = ner.route(vr, nets, machine, constraints, placements,
                               allocations, radius=radius, **kw)
            outcome = "ok"
        except MachineHasDisconnectedSubregion:
            outcome = "disconnected"
        except Exception as e:
            ctx.observe("unexpected", type(e).__name__)
            ctx.prove(False, "route-unexpected-exception", repr(e))
            return
    finally:
        geometry.random, rutils.random = saved

    if rnd.draws:
        ctx.witness("tie-break")
    if outcome == "disconnected":
        ctx.observe("disconnected")
        ctx.witness("disconnected")
        # The error is permitted only if the working chips are not mutually
        # reachable: "path condition and strongly connected" must be unsat.
        conn = _strongly_connected(live, w, h, deadset)
        ctx.prove(snot(conn), "route-spurious-disconnected-error",
                  sorted(placements.items()))
        return

    ctx.witness("routed")
    ctx.observe("ok", [_serialise(routes[n], RoutingTree) for n in nets
                       if n in routes])
    ctx.prove(set(routes) == set(nets) and len(routes) == len(nets),
              "route-net-set")
    for net in nets:
        if net not in routes:
            return
        _check_tree(ctx, routes[net], net, placements, expect, machine,
                    deadset, w, h, live, RoutingTree)


def _check_tree(ctx, root, net, placements, expect, machine, deadset, w, h,
                live, RoutingTree):
    ok = ctx.prove(isinstance(root, RoutingTree) and
                   root.chip == placements[net.source], "route-root-chip",
                   (getattr(root, "chip", None), placements[net.source]))
    if not ok:
        return
    seen_chips = {}
    seen_nodes = set()
    hops = []               # (chip, link, child chip, alive condition)
    leaves = {}             # chip -> [(route, vertex)]
    stack = [root]
    while stack:
        node = stack.pop()
        if id(node) in seen_nodes or node.chip in seen_chips:
            ctx.prove(False, "route-chip-visited-twice", (node.chip, _serialise(
                root, RoutingTree)))
            return
        seen_nodes.add(id(node))
        seen_chips[node.chip] = node
        ctx.prove(node.chip in live, "route-visits-dead-chip", node.chip)
        x, y = node.chip
        for r, c in node.children:
            if isinstance(c, RoutingTree):
                l = None if r is None else int(r)
                if l is None or not 0 <= l < 6:
                    ctx.prove(False, "route-hop-not-a-link", (node.chip, r))
                    return
                dx, dy = VEC[l]
                want = ((x + dx) % w, (y + dy) % h)
                if not ctx.prove(c.chip == want, "route-hop-wrong-chip",
                                 (node.chip, l, c.chip, want)):
                    return
                hops.append((node.chip, l, c.chip,
                             snot(deadset.dead(x, y, l))))
                stack.append(c)
            else:
                leaves.setdefault(node.chip, []).append(
                    (None if r is None else int(r), c))
    if hops:
        ctx.witness("hop")
    if len(hops) >= 3:
        ctx.witness("long-route")
    # every hop uses a working link -- valid under the path condition
    if not ctx.prove(sand(*[a for _, _, _, a in hops]) if hops else True,
                     "route-uses-dead-link",
                     [(c, l) for c, l, _, _ in hops]):
        for c, l, _, a in hops:
            ctx.prove(a, "route-uses-dead-link", (c, l))
        return
    # leaves: exactly the sinks, on their chips, with exactly their routes
    mult = {}
    for s in net.sinks:
        mult[s] = mult.get(s, 0) + 1
    got = {}
    for chip, ls in leaves.items():
        for r, v in ls:
            if not ctx.prove(v in mult, "route-leaf-not-a-sink",
                             (chip, r, v)):
                return
            if not ctx.prove(placements[v] == chip, "route-leaf-wrong-chip",
                             (v, chip, placements[v])):
                return
            got.setdefault(v, []).append(r)
    for s in mult:
        rs = got.get(s, [])
        ctx.prove(set(rs) == expect[s], "route-sink-wrong-leaves",
                  (s, rs, sorted(expect[s], key=repr)))
        ctx.prove(all(rs.count(r) <= mult[s] for r in set(rs)),
                  "route-sink-duplicated-leaf", (s, rs))
    # no dangling branches?  (not required by the property: a branch that
    # ends on a chip without a sink wastes a table entry but delivers
    # nothing wrong) -- not checked.


def h_wrap(ctx, w, h, K, deadchip):
    """The non-forking has_wrap_around_links used by h_route equals the real
    method, for every fault map in the bound."""
    from rig.place_and_route.machine import Machine
    all_chips = [(x, y) for x in range(w) for y in range(h)]
    dead_chips = set()
    if deadchip:
        k = ctx.choose(len(all_chips) + 1)
        if k:
            dead_chips.add(all_chips[k - 1])
    torus = ctx.choose(2)
    fixed = set() if torus else set(off_edge_links(w, h))
    machine = Machine(w, h, dead_chips=set(dead_chips))
    deadset = SymLinkSet(ctx, w, h, K, fixed, dead_chips)
    machine.dead_links = deadset
    stub = make_wrap_stub(ctx, machine, deadset)
    cond = stub.condition()         # built before any link is decided
    try:
        real = machine.has_wrap_around_links()
    except Exception as e:
        ctx.observe("unexpected", type(e).__name__)
        ctx.prove(False, "wrap-unexpected-exception", repr(e))
        return
    ctx.observe(real)
    ctx.witness("wrap" if real else "no-wrap")
    # A difference means this harness misrepresents the code (or the method
    # was changed): no verdict about C03 may be drawn -> inconclusive.
    same = same_truth(cond, real)
    differs = ctx.reachable(snot(same)) if ctx.symbolic else not same
    if differs or stub() != real:
        from sx.engine import Inconclusive
        raise Inconclusive(
            "the non-forking has_wrap_around_links stub of harness/c03.py "
            "differs from Machine.has_wrap_around_links (%dx%d, dead links "
            "%r): update the stub" % (w, h, sorted(
                k for k, v in deadset.known.items() if v)))
    ctx.prove(same, "wrap-stub-differs")


PATTERNS = (("cores2", "endpoint", "none"), ("none", "cores1", "endpoint0"),
            ("endpoint", "cores2", "cores1"), ("cores1", "none", "cores2"))


def h_tree_iter(ctx):
    """Iterating a routing tree (what the dead-link repair does to find the
    chips of a severed subtree) yields the node, every tree node below it and
    every other child object exactly once -- for every shape of up to three
    levels, the children of a node in every order (childless hops, longer
    subtrees and vertex objects mixed), at symbolic chips."""
    from rig.place_and_route.routing_tree import RoutingTree
    from rig.routing_table import Routes
    KINDS = ("hop", "chain", "fork", "vertex")
    made = []

    def node():
        t = RoutingTree((ctx.int("x", 0, 9), ctx.int("y", 0, 9)))
        made.append(t)
        return t

    def build(kind):
        if kind == "vertex":
            v = object()
            made.append(v)
            return v
        t = node()
        if kind == "chain":
            c = node()
            t.children.append((Routes.east, c))
            if ctx.choose(2):
                c.children.append((Routes.north, node()))
        elif kind == "fork":
            t.children.append((Routes.north, node()))
            c = node()
            c.children.append((Routes.east, node()))
            t.children.append((Routes.east, c))
        return t
    root = node()
    n = 2 + ctx.choose(2)
    dirs = (Routes.east, Routes.north, Routes.west)
    for i in range(n):
        root.children.append((dirs[i], build(ctx.pick(KINDS))))
    got = list(root)
    ctx.observe(len(got), len(made))
    ctx.witness("iterated")
    ids = [id(o) for o in got]
    ctx.prove(len(ids) == len(set(ids)), "tree-iteration-repeats-a-node",
              (len(ids), len(set(ids))))
    ctx.prove(set(ids) == set(id(o) for o in made),
              "tree-iteration-misses-a-node", (len(set(ids)), len(made)))
    ctx.prove(got and got[0] is root, "tree-iteration-node-not-first")


def units(tier, seed):
    us = [Unit("routing tree iteration, every shape of up to three levels",
               h_tree_iter, {}, split=3, witnesses=("iterated",))]
    n = [0]
    thorough = tier == "thorough"

    def add(w, h, torus, K, radius, nsinks, split=0, wit=(), **kw):
        if "kinds" not in kw:
            # fixed pattern of sink kinds, rotating over the units (every
            # combination of kinds is explored by the `leaves` units)
            kw["kinds"] = PATTERNS[n[0] % len(PATTERNS)]
            n[0] += 1
        name = "%dx%d %s K=%d r=%d sinks=%d" % (
            w, h, "torus" if torus else "mesh", K, radius, nsinks)
        for k in sorted(kw):
            if k == "kinds":
                name += " kinds=%s" % ("all" if kw[k] is None else
                                       "/".join(kw[k][:nsinks]))
            elif k == "src":
                name += " src=%s" % (kw[k],)
            elif kw[k] is True:
                name += " " + k
            else:
                name += " %s=%s" % (k, kw[k])
        us.append(Unit(name, h_route, dict(
            w=w, h=h, torus=torus, K=K, radius=radius, nsinks=nsinks, **kw),
            split=split, witnesses=("routed",) + tuple(wit),
            path_timeout_s=60))

    def wrap(w, h, K, deadchip, split=0):
        us.append(Unit("wrap stub == has_wrap_around_links %dx%d K=%d%s" % (
            w, h, K, " deadchip=any" if deadchip else ""), h_wrap,
            dict(w=w, h=h, K=K, deadchip=deadchip), split=split,
            witnesses=("wrap", "no-wrap")))

    TM = (True, False)
    RADII = (0, 1, 20)
    D = ("disconnected",)

    # ---- F1: one- and two-chip machines, everything crossed ---------------
    K1 = 3 if thorough else 2
    for (w, h) in ((1, 1), (1, 2), (2, 1)):
        for torus in TM:
            for r in RADII:
                if (w, h) == (2, 1) and r != 20 and not thorough:
                    continue
                add(w, h, torus, K1, r, 3 if thorough else 2, deadchip="any",
                    split=2, wit=D if (not torus and w * h > 1) else ())
    # ---- F2: 2x2 -----------------------------------------------------------
    for torus in TM:
        add(2, 2, torus, 2, 20, 2, split=3, wit=() if torus else D)
        add(2, 2, torus, 1, 0, 2, deadchip="any", split=3,
            wit=() if torus else D)
    # the smallest unit that reaches the defect fixed by df2138d (a detour
    # through a node of the orphaned subtree and then its descendant)
    add(2, 2, False, 3, 20, 1, deadchip="any", split=2, wit=D)
    # ---- F3: 2x3 -----------------------------------------------------------
    for torus in TM:
        add(2, 3, torus, 1, 20, 2, split=3)
        add(2, 3, torus, 2, 1, 1, split=3)
    # ---- F4: 3x3 -----------------------------------------------------------
    for torus in TM:
        add(3, 3, torus, 2, 20, 1, split=3)
    add(3, 3, True, 1, 20, 2, src=(0, 0), split=2)
    add(3, 3, False, 1, 0, 2, src=((0, 0), (1, 0), (1, 1)), split=3)
    # ---- F4b: lines: a route of >= 4 nodes before the last sink is joined
    # (radius 0: the concentric-hexagon search of ner_net is used instead of
    # the scan over the route)
    add(1, 5, False, 1, 0, 3, src=(0, 0), split=3)
    # ---- F4c: non-square tori (the two wrap-around moduli differ) with a
    # dead chip on the wrap-around path
    add(3, 4, True, 0, 20, 1, deadchip="any", src=((1, 2), (0, 0)), split=3)
    add(4, 3, True, 0, 20, 1, deadchip="any", src=((2, 1), (0, 0)), split=3)
    # ---- F5: the has_wrap_around_links stub is exact ----------------------
    for (w, h) in ((1, 1), (1, 2), (2, 1), (2, 2), (2, 3)):
        wrap(w, h, K1, True, split=2)
    wrap(3, 3, 2, thorough, split=3)
    # ---- F6: no stub: the real has_wrap_around_links inside route() -------
    add(2, 2, True, 1, 20, 1, deadchip="any", real_wrap=True, split=2)
    add(1, 2, True, 1, 1, 2, real_wrap=True, split=2)
    # ---- F7: leaves: every combination of sink kinds, ordered placements --
    add(2, 2, False, 0, 20, 2, kinds=None, ordered=True, split=3,
        src=((0, 0), (1, 1)))
    add(1, 2, False, 1, 1, 2, kinds=None, ordered=True, dup=True, split=3,
        custom_res=True)
    add(2, 2, False, 0, 1, 2, ordered=True, selfloop=True, custom_res=True,
        split=2)
    add(2, 2, False, 1, 20, 1, two_nets=True, deadchip="any", split=2)
    add(2, 2, True, 0, 0, 2, dup=True, two_nets=True, split=2)

    if thorough:
        # 2x2: more faults, every radius with a dead chip
        for torus in TM:
            add(2, 2, torus, 3, 20, 2, deadchip="any", split=4,
                wit=() if torus else D)
            for r in (0, 1):
                add(2, 2, torus, 2, r, 2, deadchip="any", split=4)
            add(2, 2, torus, 1, 1, 3, deadchip="any", split=4)
        # 2x3 / 3x2
        for torus in TM:
            add(2, 3, torus, 2, 20, 2, deadchip="any", split=4)
            add(3, 2, torus, 2, 20, 2, split=4)
            for r in (0, 1):
                add(2, 3, torus, 2, r, 2, split=4)
            add(2, 3, torus, 3, 20, 1, deadchip="any", split=4)
            add(2, 3, torus, 1, 1, 3, split=4)
        # 3x3
        for torus in TM:
            add(3, 3, torus, 2, 20, 2, split=4)
            add(3, 3, torus, 1, 1, 2, deadchip="any", split=4)
            add(3, 3, torus, 1, 0, 2, split=4)
            add(3, 3, torus, 2, 0, 1, deadchip="any", split=4)
            add(3, 3, torus, 3, 20, 1, src=((0, 0), (1, 1)), split=4)
            add(3, 3, torus, 1, 0, 3, src=((0, 0), (1, 1)), split=4)
        # 1x4, 4x1, 2x4, 4x4
        for torus in TM:
            for r in RADII:
                add(1, 4, torus, 3 if r == 20 else 2, r, 2, deadchip="any",
                    split=4)
            add(4, 1, torus, 2, 20, 2, deadchip="any", split=4)
            add(2, 4, torus, 2, 20, 1, deadchip="any", split=4)
            add(2, 4, torus, 1, 1, 2, split=4)
            add(4, 4, torus, 2, 20, 1, src=((0, 0), (1, 2)), split=4)
            add(4, 4, torus, 1, 20, 2, src=((0, 0), (1, 2)), split=4)
            add(4, 4, torus, 0, 0, 3, src=((0, 0), (1, 2)), split=4)
        for (w, h) in ((3, 2), (1, 4), (4, 1), (2, 4)):
            wrap(w, h, 3, True, split=3)
        wrap(4, 4, 3, False, split=4)
        wrap(4, 4, 2, True, split=4)
        wrap(3, 3, 3, False, split=4)
        # unstubbed
        add(2, 2, True, 2, 20, 2, real_wrap=True, src=(0, 0), split=4)
        add(2, 2, True, 2, 1, 1, real_wrap=True, deadchip="any", split=4)
        add(2, 3, True, 2, 1, 1, real_wrap=True, split=4)
        add(3, 3, True, 2, 20, 1, real_wrap=True, src=((0, 0), (1, 1)),
            split=4)
        add(3, 3, True, 1, 0, 2, real_wrap=True, src=(0, 0), split=4)
        # leaves
        add(2, 2, True, 1, 20, 2, kinds=None, ordered=True, split=4)
        add(2, 2, False, 0, 1, 3, kinds=None, src=(0, 0), split=4)
    return us
