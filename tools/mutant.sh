#!/bin/bash
# tools/mutant.sh <ID> <file-relative-to-rig-root> <python-regex-old> <new> [check args...]
# Applies one textual mutation to a scratch copy of /repo and runs ./check on it.
ID=$1; FILE=$2; OLD=$3; NEW=$4; shift 4
S=$(mktemp -d /tmp/rigmut.XXXXXX)
cp -r /repo/rig /repo/setup.py "$S"/ 2>/dev/null
python3 - "$S/$FILE" "$OLD" "$NEW" <<'PY'
import sys
p, old, new = sys.argv[1:4]
s = open(p).read()
if s.count(old) < 1:
    print("MUTANT PATTERN NOT FOUND", old); sys.exit(3)
open(p, "w").write(s.replace(old, new, 1))
PY
[ $? -eq 3 ] && { rm -rf "$S"; exit 3; }
cd /verif && RIG_REPO=$S timeout 1800 ./check $ID --no-evidence "$@" 2>&1 | grep -E "^(VIOLATION|INCONCLUSIVE|violated|KNOWN|C[0-9]+ )" | cut -c1-300 | head -8
echo "exit=${PIPESTATUS[0]}"
rm -rf "$S"
