"""C16 -- fixed-point conversion saturates, is monotone and inverts exactly.

(A) The real closures of rig.type_casts.float_to_fp / fp_to_float and of the
deprecated float_to_fix / fix_to_float are executed on an IEEE double proxy
(sx.fp.SymFloat: z3 FloatingPoint, Float64, RNE); the module's `int`, `float`
and `np` names are rebound so that int(x), float(i) and np.clip(x, lo, hi)
work on the proxies (and are the real thing on ordinary values).

(B) The bodies of NumpyFloatToFixConverter.__call__ and
NumpyFixToFloatConverter.__call__ run in compiled NumPy loops no proxy can
enter: they are translated on every run from the *current source's AST* into
z3 terms over one array element.  A shape the translator does not recognise
is inconclusive (exit 2).  The translator itself is validated on every run
against the real NumPy on a few hundred boundary doubles; the verdict comes
from the solver.

Oracle: exact reference (Float128 in SMT, fractions.Fraction in the concrete
replays): clamp(trunc_toward_zero(2**f * v), min, max).
"""
import ast
import inspect
import math
import operator
import sys
import textwrap
from fractions import Fraction

import z3

from sx.runner import Unit
from sx.engine import Inconclusive
from sx.proxies import SymBool, sand
from sx import fp
from sx.fp import SymFloat, WideInt, WW, D, fpval

PROPERTY = "C16"

META = {
    "bounds": "input: every finite IEEE double v (negative, zero, subnormal, "
              "huge) whose scaled value 2**n_frac * v is a finite double, as "
              "one symbolic Float64; formats (structural, one unit each): "
              "quick a spread of 16 (signedness, n_bits in {8,16,32,64}, "
              "n_frac) combinations; thorough every n_frac in 0..n_bits for "
              "8, 16 and 32 bits and 18 n_frac values (0, 1, 4, 8, 11, 16, "
              "24, 31-33, 40, 48, 52, 53, 56, 62-64) for 64 bits "
              "and, for the scalar functions only, every other n_bits in "
              "1..24 with n_frac in {0, 1, n_bits/2, n_bits-1, n_bits}; "
              "fixed-point values q: every integer of the format "
              "(symbolic 128-bit integer); arrays: one symbolic element "
              "(the converters are compositions of element-wise ufuncs)",
    "stubs": ["rig.type_casts.int -> sx.fp.shim_int (int(double) = fp.to_sbv "
              "toward zero, 128 bits, exact below 2**100; beyond that an "
              "unconstrained integer of the same sign and magnitude in "
              "[2**100, 2**120])",
              "rig.type_casts.float -> sx.fp.shim_float (float(int) = "
              "to_fp RNE)",
              "rig.type_casts.np -> sx.fp.NumpyShim (np.clip on a scalar "
              "double modelled as NumPy's float64 clip loop: bounds rounded "
              "to double, x > lo ? x : lo, x < hi ? x : hi; everything else "
              "is the real NumPy)",
              "NumpyFloatToFixConverter.__call__ / NumpyFixToFloatConverter."
              "__call__: translated from the source AST (values * c, "
              "np.clip, >=, np.where, np.array(dtype=intN) as the C cast "
              "double -> intN toward zero with out-of-range flagged "
              "undefined, values / c with int -> double RNE); __init__ runs "
              "for real; the translation is compared with the real NumPy on "
              "~500 boundary doubles per format on every run"],
    "assumptions": [
        "v is finite and 2**n_frac * v does not overflow to infinity (the "
        "property's quantifier); NaN and infinities are outside",
        "0 <= n_frac <= n_bits, so scaling by 2**n_frac is exact",
        "round trip, formats wider than 53 bits: 'representable' fixed-point "
        "value is read as one that survives the float, int(float(q)) == q "
        "(every q for n_bits <= 53)",
        "deprecated variants: only the formats validate_fp_params accepts "
        "(signed + n_frac <= n_bits); its rejections are compared with that "
        "documented rule",
        "input arrays are float64 (fixed -> float: the intN/uintN dtype of "
        "the format); hardware float64 arithmetic is IEEE-754 RNE",
    ],
    "outside_claim": [
        "NaN, infinities and inputs whose scaled value overflows",
        "n_frac < 0 other than the round-trip units S8.-2, U16.-3, S16.-1; "
        "n_frac > n_bits; n_bits > 24 other than 32 and 64 for the scalar "
        "functions",
        "array shape, strides and non-float64 input dtypes in the SOLVER's "
        "claim: one element stands for all (element-wise ufuncs); eight "
        "memory layouts and int8/uint8/int16/int32/int64/float32 inputs are "
        "compared concretely (real array converter against real scalar "
        "converter on boundary values) before the translation is used",
        "what the C cast does on an out-of-range double is undefined "
        "behaviour: the check proves the cast never sees one rather than "
        "modelling the platform",
    ],
}


# ----------------------------------------------------------------------
# Formats and the exact reference
# ----------------------------------------------------------------------
def _range(signed, n_bits):
    if signed:
        return -(1 << (n_bits - 1)), (1 << (n_bits - 1)) - 1
    return 0, (1 << n_bits) - 1


def py_ref(v, signed, n_bits, n_frac):
    """clamp(trunc(2**f * v), min, max) in exact rational arithmetic."""
    lo, hi = _range(signed, n_bits)
    return max(lo, min(hi, math.trunc(Fraction(v) * 2 ** n_frac)))


# The format the exact reference is stated in: 12 exponent bits hold every
# double times 2**f (f <= 64, subnormals included) and 72 significand bits
# hold every integer of a 64-bit format +- 1 as well as every double, so
# conversions into it, the scaling and R +- 1 are all exact.
F128 = z3.FPSort(12, 72)
RB = 68          # signed width that holds every value of a 64-bit format


def _q(i):
    """Integer constant (|i| < 2**66) as an exact numeral of F128."""
    assert abs(i) < (1 << 66)
    return z3.simplify(z3.fpSignedToFP(z3.RNE(), z3.BitVecVal(i, WW), F128))


def _exact_scaled(v_e, n_frac):
    """2**f * v exactly."""
    assert -64 <= n_frac <= 64
    return z3.fpMul(z3.RNE(), z3.fpFPToFP(z3.RNE(), v_e, F128),
                    fpval(2.0 ** n_frac, F128))


def _exact_int(r):
    """The 128-bit integer r as a real of F128; exact when |r| < 2**67, which
    every use below guarantees by conjoining `r in range`."""
    return z3.fpSignedToFP(z3.RNE(), z3.Extract(RB - 1, 0, r), F128)


def _scaled_double(v_e, n_frac):
    """The double product 2**f * v carried into F128 (exact conversion)."""
    return z3.fpFPToFP(z3.RNE(), z3.fpMul(z3.RNE(), fpval(2.0 ** n_frac),
                                         v_e), F128)


def z3_scaling_exact(v_e, n_frac):
    """Lemma (proved on every path, not assumed): the double product
    2**f * v equals the exact product whenever it is finite.  It lets the
    reference below start from the double product, which halves the cost of
    the queries."""
    return z3.fpEQ(_scaled_double(v_e, n_frac), _exact_scaled(v_e, n_frac))


def z3_spec(r, v_e, signed, n_bits, n_frac):
    """r (128-bit term) is clamp(trunc(2**f v), min, max), and (4) is within
    one step of 2**f v when that lies in [min, max]; stated without
    fp.to_sbv: trunc(P) is the integer R with |R| <= |P| < |R| + 1 on P's
    side of zero."""
    lo, hi = _range(signed, n_bits)
    P = _scaled_double(v_e, n_frac)
    R = _exact_int(r)
    one, zero = _q(1), _q(0)
    in_range = z3.And(r >= z3.BitVecVal(lo, WW), r <= z3.BitVecVal(hi, WW))
    within = z3.And(z3.fpLT(z3.fpSub(z3.RNE(), R, one), P),
                    z3.fpLT(P, z3.fpAdd(z3.RNE(), R, one)))
    trunc = z3.And(
        within,
        z3.Implies(z3.fpGEQ(P, zero), z3.And(z3.fpGEQ(R, zero),
                                             z3.fpLEQ(R, P))),
        z3.Implies(z3.fpLEQ(P, zero), z3.And(z3.fpLEQ(R, zero),
                                             z3.fpGEQ(R, P))))
    model = z3.If(z3.fpGEQ(P, _q(hi + 1)), r == z3.BitVecVal(hi, WW),
                  z3.If(z3.fpLEQ(P, _q(lo - 1)),
                        r == z3.BitVecVal(lo, WW), trunc))
    step = z3.Implies(z3.And(z3.fpGEQ(P, _q(lo)), z3.fpLEQ(P, _q(hi))),
                      within)
    return z3.And(in_range, model, step)


def scaled_finite(ctx, v, n_frac):
    if ctx.symbolic:
        return SymBool(z3.Not(z3.fpIsInf(
            z3.fpMul(z3.RNE(), fpval(2.0 ** n_frac), v.e))))
    return math.isfinite(v * 2.0 ** n_frac)


def _is_intlike(r):
    return isinstance(r, WideInt) or (isinstance(r, int) and
                                      not isinstance(r, bool))


def _stubs(tc):
    import numpy
    return fp.rebound(tc, int=fp.shim_int, float=fp.shim_float,
                      np=fp.NumpyShim(numpy))


# ----------------------------------------------------------------------
# (B) translation of the NumPy converters' bodies
# ----------------------------------------------------------------------
class Py(object):
    """A concrete Python object met while translating."""
    def __init__(self, v):
        self.v = v


class F64(object):
    """One element of a float64 array."""
    def __init__(self, e):
        self.e = e


class BoolArr(object):
    def __init__(self, e):
        self.e = e


class IntArr(object):
    """One element of an intN / uintN array (N-bit term)."""
    def __init__(self, e, bits, signed):
        self.e, self.bits, self.signed = e, bits, signed


class Unrecognised(Inconclusive):
    pass


class ConverterRaises(Exception):
    """A constant sub-expression of the (straight-line) body raises: the
    real call raises whatever the elements are."""


_BINOPS = {ast.Add: operator.add, ast.Sub: operator.sub,
           ast.Mult: operator.mul, ast.Div: operator.truediv,
           ast.Pow: operator.pow, ast.FloorDiv: operator.floordiv,
           ast.Mod: operator.mod, ast.LShift: operator.lshift,
           ast.RShift: operator.rshift, ast.BitAnd: operator.and_,
           ast.BitOr: operator.or_}
_CMPOPS = {ast.GtE: z3.fpGEQ, ast.Gt: z3.fpGT, ast.LtE: z3.fpLEQ,
           ast.Lt: z3.fpLT, ast.Eq: z3.fpEQ}
_PYCMP = {ast.GtE: operator.ge, ast.Gt: operator.gt, ast.LtE: operator.le,
          ast.Lt: operator.lt, ast.Eq: operator.eq, ast.NotEq: operator.ne}


def _int_dtype_info(np, dt):
    """(bits, signed) of a NumPy integer dtype / scalar type, else None."""
    try:
        d = np.dtype(dt)
    except Exception:
        return None
    if d.kind == "i":
        return d.itemsize * 8, True
    if d.kind == "u":
        return d.itemsize * 8, False
    return None


class Translator(object):
    """Abstract interpreter of a converter's __call__ over one element."""

    def __init__(self, np, func, self_obj, arg):
        self.np = np
        self.ub = []            # (z3 Bool "undefined here", description)
        try:
            src = textwrap.dedent(inspect.getsource(func))
            tree = ast.parse(src)
        except Exception as e:
            raise Unrecognised("cannot read the source of %r: %r" % (func, e))
        fn = tree.body[0]
        if not isinstance(fn, ast.FunctionDef) or len(tree.body) != 1:
            raise Unrecognised("not a plain function definition")
        a = fn.args
        if (len(a.args) != 2 or a.vararg or a.kwarg or a.kwonlyargs or
                a.defaults or getattr(a, "posonlyargs", None) or
                fn.decorator_list):
            raise Unrecognised("unexpected signature of %s" % fn.name)
        self.globals = func.__globals__
        self.env = {a.args[0].arg: Py(self_obj), a.args[1].arg: arg}
        self.result = None
        for st in fn.body:
            if self.result is not None:
                raise Unrecognised("statement after return")
            self.stmt(st)
        if self.result is None:
            raise Unrecognised("no return statement")

    # -- statements --------------------------------------------------
    def stmt(self, st):
        if (isinstance(st, ast.Expr) and isinstance(st.value, ast.Constant)
                and isinstance(st.value.value, str)):
            return                                   # docstring
        if isinstance(st, ast.Assign):
            if len(st.targets) != 1 or not isinstance(st.targets[0],
                                                      ast.Name):
                raise Unrecognised("assignment target at line %d" %
                                   st.lineno)
            self.env[st.targets[0].id] = self.expr(st.value)
            return
        if isinstance(st, ast.Return) and st.value is not None:
            self.result = self.expr(st.value)
            return
        raise Unrecognised("statement %s at line %d" % (
            type(st).__name__, st.lineno))

    # -- expressions -------------------------------------------------
    def expr(self, e):
        m = getattr(self, "e_" + type(e).__name__, None)
        if m is None:
            raise Unrecognised("expression %s at line %d" % (
                type(e).__name__, e.lineno))
        return m(e)

    def e_Constant(self, e):
        return Py(e.value)

    def e_Name(self, e):
        if e.id in self.env:
            return self.env[e.id]
        if e.id in self.globals:
            v = self.globals[e.id]
        else:
            import builtins
            if not hasattr(builtins, e.id):
                raise Unrecognised("unknown name %s" % e.id)
            v = getattr(builtins, e.id)
        # the scalar harness' stand-ins denote the real things
        if isinstance(v, fp.NumpyShim):
            v = v._np
        if v is fp.shim_int:
            v = int
        if v is fp.shim_float:
            v = float
        return Py(v)

    def e_Attribute(self, e):
        o = self.expr(e.value)
        if not isinstance(o, Py):
            raise Unrecognised("attribute .%s of an array at line %d" % (
                e.attr, e.lineno))
        try:
            return Py(getattr(o.v, e.attr))
        except AttributeError as x:
            raise Unrecognised("attribute error: %s" % x)

    def e_UnaryOp(self, e):
        o = self.expr(e.operand)
        if isinstance(e.op, ast.USub):
            if isinstance(o, Py):
                return Py(-o.v)
            if isinstance(o, F64):
                return F64(z3.fpNeg(o.e))
        raise Unrecognised("unary operator at line %d" % e.lineno)

    def _scalar_double(self, p, what):
        """A Python/NumPy scalar operand of a float64 ufunc as a double
        (NEP 50: Python ints and floats are weak and take the array's
        float64; float(int) rounds to nearest even)."""
        v = p.v
        np = self.np
        if isinstance(v, bool) or not isinstance(
                v, (int, float, np.floating, np.integer)):
            raise Unrecognised("%s operand of type %s" % (
                what, type(v).__name__))
        if isinstance(v, np.floating) and not isinstance(v, np.float64):
            if np.dtype(type(v)).itemsize > 8:
                raise Unrecognised("%s operand wider than float64" % what)
        try:
            return fpval(float(v))
        except OverflowError:
            raise Unrecognised("%s operand too large for a double" % what)

    def _as_f64(self, x, what):
        """Operand of a float64 loop."""
        if isinstance(x, F64):
            return x.e
        if isinstance(x, Py):
            return self._scalar_double(x, what)
        if isinstance(x, IntArr):
            # C cast (double)intN: exact below 2**53, else RNE
            if x.signed:
                return z3.fpSignedToFP(z3.RNE(), x.e, D)
            return z3.fpUnsignedToFP(z3.RNE(), x.e, D)
        raise Unrecognised("%s operand %s" % (what, type(x).__name__))

    def e_BinOp(self, e):
        a, b = self.expr(e.left), self.expr(e.right)
        if isinstance(a, Py) and isinstance(b, Py):
            f = _BINOPS.get(type(e.op))
            if f is None:
                raise Unrecognised("operator at line %d" % e.lineno)
            try:
                return Py(f(a.v, b.v))
            except Exception as x:
                raise ConverterRaises("line %d: %r" % (e.lineno, x))
        if isinstance(a, BoolArr) or isinstance(b, BoolArr):
            raise Unrecognised("arithmetic on a boolean array")
        floaty = (isinstance(a, F64) or isinstance(b, F64) or
                  any(isinstance(x, Py) and isinstance(
                      x.v, (float, self.np.floating)) for x in (a, b)))
        if isinstance(e.op, ast.Div):
            floaty = True          # true_divide of integers is float64
        if not floaty:
            raise Unrecognised("integer array arithmetic at line %d" %
                               e.lineno)
        for x in (a, b):
            if isinstance(x, IntArr) and x.bits > 64:
                raise Unrecognised("wide integer array")
        x, y = self._as_f64(a, "arithmetic"), self._as_f64(b, "arithmetic")
        if isinstance(e.op, ast.Mult):
            return F64(z3.fpMul(z3.RNE(), x, y))
        if isinstance(e.op, ast.Div):
            return F64(z3.fpDiv(z3.RNE(), x, y))
        if isinstance(e.op, ast.Add):
            return F64(z3.fpAdd(z3.RNE(), x, y))
        if isinstance(e.op, ast.Sub):
            return F64(z3.fpSub(z3.RNE(), x, y))
        raise Unrecognised("array operator %s at line %d" % (
            type(e.op).__name__, e.lineno))

    def e_Compare(self, e):
        if len(e.ops) != 1:
            raise Unrecognised("chained comparison at line %d" % e.lineno)
        a, b = self.expr(e.left), self.expr(e.comparators[0])
        if isinstance(a, Py) and isinstance(b, Py):
            f = _PYCMP.get(type(e.ops[0]))
            if f is None:
                raise Unrecognised("comparison at line %d" % e.lineno)
            return Py(f(a.v, b.v))
        f = _CMPOPS.get(type(e.ops[0]))
        if f is None or not (isinstance(a, F64) or isinstance(b, F64)):
            raise Unrecognised("comparison at line %d" % e.lineno)
        for x in (a, b):
            if isinstance(x, Py) and not isinstance(
                    x.v, (float, self.np.floating)):
                # A Python int compared with a float64 array: under NEP 50
                # (NumPy >= 2) the int is weak and becomes float64(int),
                # rounded to nearest even, exactly like an arithmetic
                # operand.  Older NumPy versions differ: not translated.
                # (The differential validation against the installed NumPy
                # on the boundary doubles guards this reading.)
                if (isinstance(x.v, bool) or not isinstance(x.v, int) or
                        int(self.np.__version__.split(".")[0]) < 2):
                    raise Unrecognised("float array compared with a %s" %
                                       type(x.v).__name__)
            if not isinstance(x, (Py, F64)):
                raise Unrecognised("comparison operand at line %d" %
                                   e.lineno)
        return BoolArr(f(self._as_f64(a, "comparison"),
                         self._as_f64(b, "comparison")))

    def e_Call(self, e):
        f = self.expr(e.func)
        if not isinstance(f, Py):
            raise Unrecognised("call of an array at line %d" % e.lineno)
        if any(isinstance(a, ast.Starred) for a in e.args) or any(
                k.arg is None for k in e.keywords):
            raise Unrecognised("star arguments at line %d" % e.lineno)
        args = [self.expr(a) for a in e.args]
        kw = {k.arg: self.expr(k.value) for k in e.keywords}
        np = self.np
        if f.v is np.clip:
            return self.c_clip(e, args, kw)
        if f.v is np.where:
            return self.c_where(e, args, kw)
        if f.v is np.array or f.v is np.asarray:
            return self.c_array(e, args, kw)
        if all(isinstance(a, Py) for a in args) and all(
                isinstance(a, Py) for a in kw.values()):
            try:
                return Py(f.v(*[a.v for a in args],
                              **{k: a.v for k, a in kw.items()}))
            except Exception as x:
                raise ConverterRaises("line %d: %r" % (e.lineno, x))
        raise Unrecognised("call of %r on an array at line %d" % (
            getattr(f.v, "__name__", f.v), e.lineno))

    # -- modelled NumPy functions ---------------------------------------
    def c_clip(self, e, args, kw):
        if kw or len(args) != 3 or not isinstance(args[0], F64):
            raise Unrecognised("np.clip form at line %d" % e.lineno)
        x = args[0].e
        r = x
        lo, hi = args[1], args[2]
        for b in (lo, hi):
            if not isinstance(b, Py) or b.v is None:
                raise Unrecognised("np.clip bound at line %d" % e.lineno)
        lo = self._scalar_double(lo, "np.clip")
        hi = self._scalar_double(hi, "np.clip")
        # float64 loop of the clip ufunc: _NPY_MIN(_NPY_MAX(x, lo), hi),
        # PyArray_MAX(a, b) = a > b ? a : b, NaN in x propagates
        r = z3.If(z3.fpGT(r, lo), r, lo)
        r = z3.If(z3.fpLT(r, hi), r, hi)
        return F64(z3.If(z3.fpIsNaN(x), x, r))

    def _int_const(self, v, bits, signed):
        """Python int / NumPy integer scalar as an element of intN."""
        np = self.np
        if isinstance(v, np.integer):
            if _int_dtype_info(np, type(v)) != (bits, signed):
                raise Unrecognised("np.where mixes integer types (%s with "
                                   "%sint%d): promotion not translated" % (
                                       type(v).__name__,
                                       "" if signed else "u", bits))
            v = int(v)
        elif isinstance(v, bool) or not isinstance(v, int):
            raise Unrecognised("np.where mixes an integer array with a %s"
                               % type(v).__name__)
        lo, hi = _range(signed, bits)
        if not lo <= v <= hi:
            raise Unrecognised("integer constant %d does not fit the array"
                               % v)
        return z3.BitVecVal(v, bits)

    def c_where(self, e, args, kw):
        if kw or len(args) != 3 or not isinstance(args[0], BoolArr):
            raise Unrecognised("np.where form at line %d" % e.lineno)
        c, a, b = args[0].e, args[1], args[2]
        ints = [x for x in (a, b) if isinstance(x, IntArr)]
        if ints:
            bits, signed = ints[0].bits, ints[0].signed
            out = []
            for x in (a, b):
                if isinstance(x, IntArr):
                    if (x.bits, x.signed) != (bits, signed):
                        raise Unrecognised("np.where mixes integer arrays")
                    out.append(x.e)
                elif isinstance(x, Py):
                    out.append(self._int_const(x.v, bits, signed))
                else:
                    raise Unrecognised("np.where mixes an integer array "
                                       "with a float array (promotion to "
                                       "float64 not translated)")
            return IntArr(z3.If(c, out[0], out[1]), bits, signed)
        if isinstance(a, F64) or isinstance(b, F64):
            out = []
            for x in (a, b):
                if isinstance(x, Py) and not isinstance(
                        x.v, (float, self.np.floating)):
                    raise Unrecognised("np.where mixes a float array with "
                                       "a %s" % type(x.v).__name__)
                if not isinstance(x, (Py, F64)):
                    raise Unrecognised("np.where operands")
                out.append(self._as_f64(x, "np.where"))
            return F64(z3.If(c, out[0], out[1]))
        raise Unrecognised("np.where without an array operand at line %d" %
                           e.lineno)

    def c_array(self, e, args, kw):
        extra = set(kw) - {"copy", "dtype"}
        if extra or len(args) != 1 or "dtype" not in kw:
            raise Unrecognised("np.array form at line %d" % e.lineno)
        if "copy" in kw and not (isinstance(kw["copy"], Py) and
                                 isinstance(kw["copy"].v, bool)):
            raise Unrecognised("np.array copy= at line %d" % e.lineno)
        dt = kw["dtype"]
        if not isinstance(dt, Py):
            raise Unrecognised("np.array dtype= at line %d" % e.lineno)
        info = _int_dtype_info(self.np, dt.v)
        x = args[0]
        if info is None:
            try:
                isf64 = self.np.dtype(dt.v) == self.np.float64
            except Exception:
                isf64 = False
            if isf64 and isinstance(x, F64):
                return x
            raise Unrecognised("np.array to dtype %r" % (dt.v,))
        bits, signed = info
        if isinstance(x, IntArr) and (x.bits, x.signed) == info:
            return x
        if not isinstance(x, F64):
            raise Unrecognised("np.array of %s" % type(x).__name__)
        # C cast double -> intN: truncation toward zero; undefined unless
        # the truncated value is representable
        t = z3.fpRoundToIntegral(z3.RTZ(), x.e)
        lo, hi = _range(signed, bits)
        defined = z3.And(z3.Not(z3.fpIsNaN(x.e)),
                         z3.fpGEQ(t, fpval(float(lo))),
                         z3.fpLT(t, fpval(float(hi + 1))))
        self.ub.append((z3.Not(defined),
                        "cast of a double outside %sint%d (line %d)" % (
                            "" if signed else "u", bits, e.lineno)))
        bv = z3.BitVecSort(bits)
        r = (z3.fpToSBV(z3.RTZ(), x.e, bv) if signed
             else z3.fpToUBV(z3.RTZ(), x.e, bv))
        return IntArr(r, bits, signed)


class Translation(object):
    """Result term of a converter's __call__ over the placeholder element."""
    def __init__(self, x, result, ub):
        self.x, self.result, self.ub = x, result, ub

    def at(self, e):
        """(result term, undefined-behaviour flag) for the element `e`."""
        sub = lambda t: z3.substitute(t, (self.x, e))
        ub = [sub(c) for c, _ in self.ub]
        return sub(self.result.e), (z3.Or(ub) if ub else z3.BoolVal(False))


_CACHE = {}


def _boundary_doubles(signed, n_bits, n_frac):
    lo, hi = _range(signed, n_bits)
    pts = set()

    def around(x, n=3):
        a = b = x
        pts.add(x)
        for _ in range(n):
            a = math.nextafter(a, -math.inf)
            b = math.nextafter(b, math.inf)
            pts.add(a)
            pts.add(b)

    for E in (lo - 1, lo, lo + 1, -2, -1, 0, 1, 2, hi - 1, hi, hi + 1,
              2 * hi, 2 * lo - 2, hi // 2, (1 << 53) + 1, -(1 << 53) - 1):
        for h in (0, Fraction(1, 2), Fraction(-1, 2)):
            try:
                around(float((Fraction(E) + h) / 2 ** n_frac))
            except OverflowError:
                pass
    for k in list(range(-1074, 1024, 41)) + [-1074, -1073, -1023, -1022,
                                             1023, 62, 63, 64, 65]:
        for s in (1.0, -1.0):
            around(math.ldexp(s, k), 1)
    big = sys.float_info.max / 2.0 ** n_frac
    for x in (0.0, -0.0, big, -big, 1e30, -1e30, 1e300, -1e300, 0.1, -0.1,
              1 / 3.0, math.pi * 1e5, -math.e * 1e-5):
        around(x, 1)
    return sorted(x for x in pts if math.isfinite(x) and
                  math.isfinite(x * 2.0 ** n_frac))


def _z3_value(t):
    t = z3.simplify(t)
    if z3.is_bv_value(t) or z3.is_true(t) or z3.is_false(t) or (
            z3.is_fp(t) and isinstance(t, z3.FPNumRef)):
        return t
    return None


def float_to_fix_translation(tc, signed, n_bits, n_frac):
    """Translate and differentially validate NumpyFloatToFixConverter for
    one format (once per process)."""
    key = ("f2x", signed, n_bits, n_frac)
    if key in _CACHE:
        return _CACHE[key]
    import numpy as np
    conv = tc.NumpyFloatToFixConverter(signed, n_bits, n_frac)
    x = z3.FP("c16!elem", D)
    tr = Translator(np, type(conv).__call__, conv, F64(x))
    res = tr.result
    if not isinstance(res, IntArr):
        raise Unrecognised("NumpyFloatToFixConverter returns %s, expected "
                           "an integer array" % type(res).__name__)
    T = Translation(x, res, tr.ub)
    # --- the translator against the real NumPy ---
    pts = _boundary_doubles(signed, n_bits, n_frac)
    with np.errstate(all="ignore"):
        real = conv(np.array(pts, dtype=np.float64))
    if _int_dtype_info(np, real.dtype) != (res.bits, res.signed) or \
            real.shape != (len(pts),):
        raise Inconclusive("translator validation: NumPy returns dtype %s "
                           "shape %s, the translation %sint%d" % (
                               real.dtype, real.shape,
                               "" if res.signed else "u", res.bits))
    compared = 0
    for p, want in zip(pts, real):
        r, ub = T.at(fpval(p))
        ub = _z3_value(ub)
        if ub is None:
            raise Inconclusive("translator validation: flag not constant")
        if z3.is_true(ub):
            continue            # undefined in C: nothing to compare
        r = _z3_value(r)
        if r is None:
            raise Inconclusive("translator validation: no value at %r" % p)
        got = r.as_signed_long() if res.signed else r.as_long()
        if got != int(want):
            raise Inconclusive(
                "translator validation: NumpyFloatToFixConverter(%s, %d, "
                "%d) at %r: NumPy %d, translation %d" % (
                    signed, n_bits, n_frac, p, int(want), got))
        compared += 1
    if compared < len(pts) // 2:
        raise Inconclusive("translator validation compared only %d of %d "
                           "points" % (compared, len(pts)))
    _CACHE[key] = T
    return T


def fix_to_float_translation(tc, signed, n_bits, n_frac):
    key = ("x2f", signed, n_bits, n_frac)
    if key in _CACHE:
        return _CACHE[key]
    import numpy as np
    conv = tc.NumpyFixToFloatConverter(n_frac)
    dt = tc.NumpyFloatToFixConverter.dtypes[(signed, n_bits)]
    if _int_dtype_info(np, dt) is None:
        raise Inconclusive("dtype table maps (%s, %d) to %r" % (
            signed, n_bits, dt))
    # (a wrong entry of the table is the "numpy converter widths" unit's
    # and float_to_fix's business; here the input array has the format's
    # own dtype)
    dt = _np_dtype(tc, signed, n_bits).type
    x = z3.BitVec("c16!word", n_bits)
    tr = Translator(np, type(conv).__call__, conv,
                    IntArr(x, n_bits, signed))
    res = tr.result
    if not isinstance(res, F64):
        raise Unrecognised("NumpyFixToFloatConverter returns %s, expected a "
                           "float64 array" % type(res).__name__)
    T = Translation(x, res, tr.ub)
    lo, hi = _range(signed, n_bits)
    pts = set()
    for c in (lo, hi, 0, 1, -1, 2, 3, hi // 2, lo // 2, hi // 3, 1 << 53,
              (1 << 53) + 1, (1 << 53) - 1, -(1 << 53) - 1, (1 << 54) + 2,
              (1 << 62) + 511, (1 << 62) + 513, hi - (1 << 9), hi - 511,
              hi - 512, hi - 513, lo + 511, lo + 512, lo + 513,
              0x5555555555555555, 0x2aaaaaaaaaaaaaaa):
        for d in (-1, 0, 1):
            if lo <= c + d <= hi:
                pts.add(c + d)
    pts = sorted(pts)
    with np.errstate(all="ignore"):
        real = conv(np.array(pts, dtype=dt))
    if real.dtype != np.float64 or real.shape != (len(pts),):
        raise Inconclusive("translator validation: NumPy returns dtype %s" %
                           real.dtype)
    for p, want in zip(pts, real):
        r, ub = T.at(z3.BitVecVal(p, n_bits))
        r = _z3_value(r)
        if r is None or not z3.is_false(z3.simplify(ub)):
            raise Inconclusive("translator validation: no value at %r" % p)
        from sx.engine import _fp_to_float
        got = _fp_to_float(r)
        if got != float(want) or math.copysign(1, got) != math.copysign(
                1, float(want)):
            raise Inconclusive(
                "translator validation: NumpyFixToFloatConverter(%d) at %d:"
                " NumPy %r, translation %r" % (n_frac, p, float(want), got))
    _CACHE[key] = T
    return T


_LAYOUT = {}


def _layouts(np, flat):
    """The same elements in several memory layouts: (name, array)."""
    n = len(flat)
    a = np.array(flat)
    out = [("1-d", a), ("0-d", a[0].reshape(()))]
    r = n // 4 * 4
    if r >= 8:
        sq = a[:r].reshape(r // 4, 4)
        out += [("2-d C", sq), ("2-d transposed view", sq.T),
                ("2-d Fortran copy", np.asfortranarray(sq)),
                ("strided view", sq[:, ::2]),
                ("reversed view", a[::-1])]
    r = n // 6 * 6
    if r >= 12:
        cube = a[:r].reshape(r // 6, 3, 2)
        out.append(("3-d swapped axes", np.swapaxes(cube, 0, 2)))
    return out


def layout_differential(tc, direction, signed, n_bits, n_frac):
    """The real array converter against the real scalar converter, element
    for element, on boundary values held in arrays of several memory layouts
    (both sides are rig's own functions run concretely: a disagreement is a
    violation of the property as it stands, whatever the translator can or
    cannot read).  Returns None or (layout, index, element, array result,
    scalar result).  Once per format and process."""
    key = (direction, signed, n_bits, n_frac)
    if key in _LAYOUT:
        return _LAYOUT[key]
    import numpy as np
    bad = None
    try:
        if direction == "f2x":
            conv = tc.NumpyFloatToFixConverter(signed, n_bits, n_frac)
            scalar = tc.float_to_fp(signed, n_bits, n_frac)
            pts = _boundary_doubles(signed, n_bits, n_frac)
            flat = np.array(pts[::max(1, len(pts) // 96)][:96],
                            dtype=np.float64)
        else:
            conv = tc.NumpyFixToFloatConverter(n_frac)
            scalar = tc.fp_to_float(n_frac)
            flats = []
            # the converter is parameterised by n_frac alone: arrays of every
            # supported width and signedness are legitimate arguments
            for sg, nb in [(signed, n_bits)] + [
                    (a, b) for a in (True, False) for b in (8, 16, 32, 64)
                    if (a, b) != (signed, n_bits)]:
                lo, hi = _range(sg, nb)
                cs = sorted(set(c for c in (
                    lo, lo + 1, lo // 2, -3, -2, -1, 0, 1, 2, 3, 5, hi // 3,
                    hi // 2, hi - 1, hi, 85 & hi, 170 & hi, (1 << 53) + 1,
                    hi - 511, hi - 513, lo + 513, 7, 11, 13, 100, 127)
                    if lo <= c <= hi))
                flats.append(np.array(cs, dtype=_np_dtype(tc, sg, nb)))
        if direction == "f2x":
            flats = [flat]
            # integer (and float32) input arrays are legitimate arguments of
            # the float-to-fix converter too: NumPy promotes them
            lo, hi = _range(signed, n_bits)
            span = max(abs(lo), abs(hi)) / 2.0 ** n_frac
            for dt in ("int8", "uint8", "int16", "int32", "int64",
                       "float32"):
                info = np.iinfo(dt) if dt != "float32" else None
                cand = [0, 1, 2, 3, -1, -2, 5, 7, 100, 127, -128, 255,
                        1000, 32767, -32768, 65536, 70000, 2 ** 31 - 1,
                        int(span), int(span) + 1, -int(span) - 1]
                vals = [c for c in cand if info is None or
                        info.min <= c <= info.max]
                vals = [c for c in vals if math.isfinite(
                    float(c) * 2.0 ** n_frac)]
                if len(vals) >= 8:
                    flats.append(np.array(vals, dtype=dt))
        with np.errstate(all="ignore"):
            for flat in flats:
                for name, arr in _layouts(np, flat):
                    res = np.asarray(conv(arr))
                    if res.shape != arr.shape:
                        bad = (name, "shape", arr.shape, res.shape, None)
                        break
                    for idx in np.ndindex(*arr.shape):
                        e = arr[idx]
                        if direction == "f2x":
                            want = scalar(float(e))
                            got = int(res[idx])
                        else:
                            want = scalar(int(e))
                            got = float(res[idx])
                        if got != want:
                            bad = (name + " " + str(arr.dtype), idx,
                                   e.item(), got, want)
                            break
                    if bad:
                        break
                if bad:
                    break
    except Exception as x:
        bad = ("converter raised", repr(x), None, None, None)
    _LAYOUT[key] = bad
    return bad


def _check_layouts(ctx, tc, direction, signed, n_bits, n_frac):
    bad = layout_differential(tc, direction, signed, n_bits, n_frac)
    ctx.prove(bad is None, "numpy-differs-from-scalar-in-some-layout",
              (direction, signed, n_bits, n_frac, bad))
    return bad is None


def _ext(e, signed):
    n = e.size()
    if n > WW:
        raise Inconclusive("integer array wider than %d bits" % WW)
    if n == WW:
        return e
    return z3.SignExt(WW - n, e) if signed else z3.ZeroExt(WW - n, e)


def _np_dtype(tc, signed, n_bits):
    import numpy as np
    return np.dtype({8: "int8", 16: "int16", 32: "int32", 64: "int64"}[
        n_bits] if signed else {8: "uint8", 16: "uint16", 32: "uint32",
                                64: "uint64"}[n_bits])


def numpy_float_to_fix(ctx, tc, v, signed, n_bits, n_frac):
    """What NumpyFloatToFixConverter(signed, n_bits, n_frac) returns for an
    element v: symbolic = the translation (with the proof that no cast is
    undefined), concrete = the real converter on real arrays."""
    if not _check_layouts(ctx, tc, "f2x", signed, n_bits, n_frac):
        return None
    if ctx.symbolic:
        try:
            T = float_to_fix_translation(tc, signed, n_bits, n_frac)
        except ConverterRaises as x:
            ctx.prove(False, "numpy-converter-raised", str(x))
            return None
        ctx.prove((T.result.bits, T.result.signed) == (n_bits, signed),
                  "numpy-result-dtype-or-shape",
                  ("%sint%d" % ("" if T.result.signed else "u",
                                T.result.bits),))
        r, ub = T.at(v.e)
        ctx.prove(z3.Not(ub), "numpy-cast-of-out-of-range-double", (v,))
        return WideInt(_ext(r, T.result.signed))
    import numpy as np
    import warnings
    with warnings.catch_warnings(record=True) as caught:
        warnings.simplefilter("always")
        with np.errstate(all="ignore", invalid="warn"):
            try:
                conv = tc.NumpyFloatToFixConverter(signed, n_bits, n_frac)
                a1 = conv(np.array([v, v], dtype=np.float64))
                a2 = conv(np.array([[v], [0.0]], dtype=np.float64))
            except Exception as x:
                ctx.prove(False, "numpy-converter-raised", repr(x))
                return None
    # NumPy reports an out-of-range float -> int cast (where the hardware
    # flags it) even if the wrapped element is discarded afterwards
    bad = [str(w.message) for w in caught
           if issubclass(w.category, RuntimeWarning) and
           "cast" in str(w.message)]
    ctx.prove(not bad, "numpy-cast-of-out-of-range-double",
              (v, bad[:1], "NumPy returns", a1.tolist()))
    want = _np_dtype(tc, signed, n_bits)
    ctx.prove(a1.dtype == want and a2.dtype == want and a1.shape == (2,)
              and a2.shape == (2, 1), "numpy-result-dtype-or-shape",
              (str(a1.dtype), a1.shape, a2.shape))
    ctx.prove(int(a1[0]) == int(a1[1]) == int(a2[0, 0]),
              "numpy-elements-differ", (v, a1.tolist(), a2.tolist()))
    return int(a1[0])


def numpy_fix_to_float(ctx, tc, q, signed, n_bits, n_frac):
    if not _check_layouts(ctx, tc, "x2f", signed, n_bits, n_frac):
        return None
    if ctx.symbolic:
        try:
            T = fix_to_float_translation(tc, signed, n_bits, n_frac)
        except ConverterRaises as x:
            ctx.prove(False, "numpy-converter-raised", str(x))
            return None
        r, ub = T.at(z3.Extract(n_bits - 1, 0, fp.wide(q)))
        ctx.prove(z3.Not(ub), "numpy-cast-of-out-of-range-double", (q,))
        return SymFloat(r)
    import numpy as np
    try:
        conv = tc.NumpyFixToFloatConverter(n_frac)
        a = conv(np.array([q, q], dtype=_np_dtype(tc, signed, n_bits)))
    except Exception as x:
        ctx.prove(False, "numpy-converter-raised", repr(x))
        return None
    ctx.prove(a.dtype == np.float64 and a.shape == (2,),
              "numpy-result-dtype-or-shape", (str(a.dtype), a.shape))
    return float(a[0])


# ----------------------------------------------------------------------
# Harnesses
# ----------------------------------------------------------------------
def _call(ctx, label, f, *args):
    """Call rig code; an exception is a violation (none is documented for
    these closures)."""
    try:
        return True, f(*args)
    except Exception as e:
        ctx.observe(label, type(e).__name__)
        ctx.prove(False, label + "-raised", repr(e))
        return False, None


def h_scalar(ctx, signed, n_bits, n_frac, numpy):
    """(1) result = exact reference, (3) in range, (4) within one step,
    (6) the array converter agrees."""
    import rig.type_casts as tc
    fp.install_fp_solver(ctx)
    lo, hi = _range(signed, n_bits)
    v = fp.sym_float(ctx, "v")
    ctx.assume(scaled_finite(ctx, v, n_frac))
    with _stubs(tc):
        ok, r = _call(ctx, "float_to_fp", lambda: tc.float_to_fp(
            signed, n_bits, n_frac)(v))
        if not ok:
            return
        ctx.observe(r)
        if not _is_intlike(r):
            ctx.prove(False, "float_to_fp-result-type", type(r).__name__)
            return
        if not ctx.symbolic:
            pass
        elif isinstance(r, WideInt):
            ctx.witness("truncated")
        elif r == hi:
            ctx.witness("saturated-high")
        elif r == lo:
            ctx.witness("saturated-low")
        ctx.prove(sand(r >= lo, r <= hi), "float_to_fp-out-of-range", (v, r))
        if ctx.symbolic:
            ctx.prove(z3_scaling_exact(v.e, n_frac),
                      "lemma-scaling-by-2**n_frac-is-exact", (v,))
            # (1) and (4) in one query
            ctx.prove(z3_spec(fp.wide(r), v.e, signed, n_bits, n_frac),
                      "float_to_fp-not-truncate-then-saturate", (v, r))
        else:
            ref = py_ref(v, signed, n_bits, n_frac)
            P = Fraction(v) * 2 ** n_frac
            ctx.prove(Fraction(v * 2.0 ** n_frac) == P,
                      "lemma-scaling-by-2**n_frac-is-exact", (v,))
            ctx.prove(r == ref and (not (lo <= P <= hi) or abs(r - P) < 1),
                      "float_to_fp-not-truncate-then-saturate", (v, r, ref))
        if numpy:
            a = numpy_float_to_fix(ctx, tc, v, signed, n_bits, n_frac)
            if a is None:
                return
            ctx.observe(a)
            ctx.prove(a == r, "numpy-differs-from-float_to_fp", (v, r, a))


def h_mono(ctx, signed, n_bits, n_frac):
    """(2) v1 <= v2  =>  float_to_fp(v1) <= float_to_fp(v2)."""
    import rig.type_casts as tc
    fp.install_fp_solver(ctx)
    v1 = fp.sym_float(ctx, "v1")
    v2 = fp.sym_float(ctx, "v2")
    ctx.assume(sand(scaled_finite(ctx, v1, n_frac),
                    scaled_finite(ctx, v2, n_frac), v1 <= v2))
    with _stubs(tc):
        f = tc.float_to_fp(signed, n_bits, n_frac)
        ok, r1 = _call(ctx, "float_to_fp", f, v1)
        if not ok:
            return
        ok, r2 = _call(ctx, "float_to_fp", f, v2)
        if not ok:
            return
        ctx.observe(r1, r2)
        if not (_is_intlike(r1) and _is_intlike(r2)):
            ctx.prove(False, "float_to_fp-result-type")
            return
        if isinstance(r1, WideInt) and isinstance(r2, WideInt):
            ctx.witness("both-truncated")      # symbolic mode only
        ctx.prove(r1 <= r2, "float_to_fp-not-monotone", (v1, v2, r1, r2))


def _survives_float(ctx, q):
    """int(float(q)) == q: q is exactly a double."""
    return fp.shim_int(fp.shim_float(q)) == q


def h_roundtrip(ctx, signed, n_bits, n_frac, numpy):
    """(5) float_to_fp(fp_to_float(q)) == q, fp_to_float exact; the same
    through the array converters, which agree with the scalar ones."""
    import rig.type_casts as tc
    fp.install_fp_solver(ctx)
    lo, hi = _range(signed, n_bits)
    q = fp.sym_wide_int(ctx, "q", lo, hi)
    with _stubs(tc):
        ok, x = _call(ctx, "fp_to_float", lambda: tc.fp_to_float(n_frac)(q))
        if not ok:
            return
        ctx.observe(x)
        if not isinstance(x, (SymFloat, float)):
            ctx.prove(False, "fp_to_float-result-type", type(x).__name__)
            return
        y = None
        if numpy:
            # (6) for every q of the format, also those a double rounds
            y = numpy_fix_to_float(ctx, tc, q, signed, n_bits, n_frac)
            if y is None:
                return
            ctx.observe(y)
            ctx.prove(y == x, "numpy-fix-to-float-differs-from-fp_to_float",
                      (q, x, y))
        if n_bits > 53:
            ctx.assume(_survives_float(ctx, q))
        # exactness: x * 2**f == q
        if ctx.symbolic:
            ctx.prove(z3.fpEQ(_exact_scaled(x.e, n_frac),
                              _exact_int(fp.wide(q))),
                      "fp_to_float-inexact", (q, x))
        else:
            ctx.prove(math.isfinite(x) and
                      Fraction(x) * 2 ** n_frac == q,
                      "fp_to_float-inexact", (q, x))
        ok, r = _call(ctx, "float_to_fp", lambda: tc.float_to_fp(
            signed, n_bits, n_frac)(x))
        if not ok:
            return
        ctx.observe(r)
        if ctx.symbolic:
            ctx.witness("round-trip")
        ctx.prove(r == q, "round-trip-changes-value", (q, x, r))
        if numpy:
            a = numpy_float_to_fix(ctx, tc, y, signed, n_bits, n_frac)
            if a is None:
                return
            ctx.observe(a)
            ctx.prove(a == q, "numpy-round-trip-changes-value", (q, y, a))


def _documented_rejection(signed, n_bits, n_frac):
    """validate_fp_params' documented rule."""
    return (n_bits < 1 or n_frac < 0 or
            (1 if signed else 0) + n_frac > n_bits)


def _siblings_first(ctx, tc, signed, n_bits, n_frac):
    """By choice: the module is loaded afresh and converters for the
    format's sign siblings (the other signedness with the same width, and
    with the same number of non-sign bits) are built before the format's
    own -- what they computed is theirs."""
    import importlib
    if not ctx.choose(2):
        return
    importlib.reload(tc)
    for (s2, n2) in ((not signed, n_bits + (-1 if signed else 1)),
                     (not signed, n_bits)):
        for make in (tc.float_to_fix, tc.fix_to_float, tc.float_to_fp):
            try:
                make(s2, n2, n_frac)
            except Exception:
                pass
    ctx.witness("after-siblings")


def _deprecated(ctx, tc, signed, n_bits, n_frac):
    """The two deprecated closures, or None when the format is rejected."""
    try:
        f2x = tc.float_to_fix(signed, n_bits, n_frac)
        x2f = tc.fix_to_float(signed, n_bits, n_frac)
    except ValueError:
        ctx.observe("ValueError")
        ctx.witness("rejected")
        ctx.prove(_documented_rejection(signed, n_bits, n_frac),
                  "deprecated-rejects-documented-format",
                  (signed, n_bits, n_frac))
        return None
    ctx.witness("accepted")
    ctx.prove(not _documented_rejection(signed, n_bits, n_frac),
              "deprecated-accepts-undocumented-format",
              (signed, n_bits, n_frac))
    return f2x, x2f


def h_dep_f2x(ctx, signed, n_bits, n_frac):
    """(7) float_to_fix(v) == float_to_fp(v) mod 2**n_bits."""
    import rig.type_casts as tc
    fp.install_fp_solver(ctx)
    mask = (1 << n_bits) - 1
    v = fp.sym_float(ctx, "v")
    ctx.assume(scaled_finite(ctx, v, n_frac))
    _siblings_first(ctx, tc, signed, n_bits, n_frac)
    with _stubs(tc):
        fs = _deprecated(ctx, tc, signed, n_bits, n_frac)
        if fs is None:
            return
        ok, r = _call(ctx, "float_to_fp", lambda: tc.float_to_fp(
            signed, n_bits, n_frac)(v))
        if not ok:
            return
        ok, w = _call(ctx, "float_to_fix", fs[0], v)
        if not ok:
            return
        ctx.observe(r, w)
        if not (_is_intlike(r) and _is_intlike(w)):
            ctx.prove(False, "float_to_fix-result-type")
            return
        ctx.prove(w == (r & mask),
                  "deprecated-float_to_fix-differs-from-float_to_fp",
                  (v, r, w))


def h_dep_x2f(ctx, signed, n_bits, n_frac):
    """(7) fix_to_float(word) == fp_to_float(value of the word); (5) round
    trip through the deprecated pair."""
    import rig.type_casts as tc
    fp.install_fp_solver(ctx)
    lo, hi = _range(signed, n_bits)
    mask = (1 << n_bits) - 1
    q = fp.sym_wide_int(ctx, "q", lo, hi)
    _siblings_first(ctx, tc, signed, n_bits, n_frac)
    with _stubs(tc):
        fs = _deprecated(ctx, tc, signed, n_bits, n_frac)
        if fs is None:
            return
        word = q & mask
        ok, y = _call(ctx, "fix_to_float", fs[1], word)
        if not ok:
            return
        ok, x = _call(ctx, "fp_to_float", lambda: tc.fp_to_float(n_frac)(q))
        if not ok:
            return
        ctx.observe(x, y)
        if not (isinstance(x, (SymFloat, float)) and
                isinstance(y, (SymFloat, float))):
            ctx.prove(False, "fix_to_float-result-type")
            return
        ctx.prove(y == x, "deprecated-fix_to_float-differs-from-fp_to_float",
                  (q, x, y))
        if n_bits > 53:
            ctx.assume(_survives_float(ctx, q))
        ok, w = _call(ctx, "float_to_fix", fs[0], y)
        if not ok:
            return
        ctx.observe(w)
        ctx.prove(w == word, "deprecated-round-trip-changes-value",
                  (q, y, w))


# ----------------------------------------------------------------------
def h_np_widths(ctx):
    """The array converter exists exactly for the widths 8, 16, 32, 64 (all
    64 candidate widths, both signs: structural enumeration) and maps them
    to the dtype of that width and sign."""
    import numpy as np
    import rig.type_casts as tc
    for n in range(0, 66):
        for s in (True, False):
            try:
                c = tc.NumpyFloatToFixConverter(s, n, 0)
                made = True
            except ValueError:
                made = False
            except Exception as e:
                ctx.prove(False, "numpy-converter-constructor-raised",
                          (s, n, repr(e)))
                continue
            ctx.prove(made == (n in (8, 16, 32, 64)),
                      "numpy-converter-supported-widths", (s, n, made))
            if made and n in (8, 16, 32, 64):
                lo, hi = _range(s, n)
                ctx.prove(np.dtype(c.dtype) == _np_dtype(tc, s, n) and
                          c.min_value == lo and c.max_value == hi,
                          "numpy-converter-dtype-or-range",
                          (s, n, str(c.dtype), c.min_value, c.max_value))
    ctx.observe("ok")


# ----------------------------------------------------------------------
def _formats(tier):
    """[(signed, n_bits, n_frac, numpy?)], the expensive ones first."""
    out = []
    for n in (64, 32, 16, 8):
        if tier == "thorough":
            # every n_frac for the narrower widths; for 64 bits (the
            # slowest queries) a spread that keeps the boundary formats
            fr = (list(range(n, -1, -1)) if n < 64 else
                  [64, 63, 62, 56, 53, 52, 48, 40, 33, 32, 31, 24, 16, 11, 8,
                   4, 1, 0])
            pairs = [(s, f) for f in fr for s in (True, False)]
        elif n == 8:
            pairs = [(s, f) for f in (7, 4, 0) for s in (True, False)]
        else:
            # quick: the wide formats dominate the solver time; a spread of
            # (signedness, n_frac) per width instead of the full product
            pairs = {64: [(True, 63), (True, 0), (False, 32), (False, 0)],
                     32: [(True, 16), (False, 31), (False, 0)],
                     16: [(True, 15), (False, 8), (True, 0)]}[n]
        for (s, f) in pairs:
            out.append((s, n, f, True))
    if tier == "thorough":
        for n in range(24, 0, -1):
            if n in (8, 16):
                continue
            for f in sorted({0, 1, n // 2, n - 1, n}, reverse=True):
                for s in (True, False):
                    out.append((s, n, f, False))
    return out


def units(tier, seed):
    us = []
    # z3's timeout is wall-clock: generous, the queries take 0.1-30 s of CPU
    kw = dict(timeout_ms=600000, path_timeout_s=3000)
    for (s, n, f, numpy) in _formats(tier):
        tag = "%s%d.%d" % ("S" if s else "U", n, f)
        p = dict(signed=s, n_bits=n, n_frac=f)
        pn = dict(p, numpy=numpy)
        us.append(Unit("round-trip " + tag, h_roundtrip, pn,
                       witnesses=("round-trip",), **kw))
        us.append(Unit(("scalar+numpy " if numpy else "scalar ") + tag,
                       h_scalar, pn,
                       witnesses=("truncated", "saturated-high",
                                  "saturated-low"), **kw))
        us.append(Unit("monotone " + tag, h_mono, p,
                       witnesses=("both-truncated",), **kw))
        us.append(Unit("deprecated fix_to_float " + tag, h_dep_x2f, p, **kw))
        us.append(Unit("deprecated float_to_fix " + tag, h_dep_f2x, p, **kw))
    # negative n_frac (the least significant bit weighs 2**-n_frac > 1):
    # accepted by float_to_fp / fp_to_float and the NumPy converters; the
    # round trip only (the deprecated variants reject it, and the scalar
    # units' exact-scaling lemma is stated for n_frac >= 0)
    for (s, n, f) in ((True, 8, -2), (False, 16, -3), (True, 16, -1)):
        us.append(Unit("round-trip %s%d.%d" % ("S" if s else "U", n, f),
                       h_roundtrip, dict(signed=s, n_bits=n, n_frac=f,
                                         numpy=True),
                       witnesses=("round-trip",), **kw))
    us.append(Unit("numpy converter widths", h_np_widths))
    return us
