import z3, time, sys
def conv(v, n_bits, n_frac, signed, mutant=False):
    D = z3.Float64()
    scale = z3.FPVal(2.0**n_frac, D)
    p = z3.fpMul(z3.RNE(), scale, v)
    BW = 128
    big = z3.FPVal(2.0**100, D)
    small = z3.fpLT(z3.fpAbs(p), big)
    i_small = z3.fpToSBV(z3.RTZ(), p, z3.BitVecSort(BW))
    # abstraction for huge: sign * 2^100
    i_big = z3.If(z3.fpIsNegative(p), z3.BitVecVal(-(2**100), BW), z3.BitVecVal(2**100, BW))
    i = z3.If(small, i_small, i_big)
    if signed:
        max_v = (1 << (n_bits-1)) - 1; min_v = -max_v - 1
    else:
        max_v = (1 << n_bits) - 1; min_v = 0
    if mutant: max_v += 1
    mx = z3.BitVecVal(max_v, BW); mn = z3.BitVecVal(min_v, BW)
    m1 = z3.If(mx < i, mx, i)   # min(max_v, i)
    r = z3.If(m1 > mn, m1, mn)
    fin = z3.And(z3.Not(z3.fpIsNaN(v)), z3.Not(z3.fpIsInf(v)), z3.Not(z3.fpIsInf(p)))
    return r, fin, (mn, mx)
for (nb, nf, sg) in [(8,4,True),(32,15,True),(64,63,True),(64,0,False),(16,20,False)]:
    v1, v2 = z3.FPs("v1 v2", z3.Float64())
    r1, f1, (mn, mx) = conv(v1, nb, nf, sg)
    r2, f2, _ = conv(v2, nb, nf, sg)
    s = z3.Solver(); s.set("timeout", 120000)
    s.add(f1, f2, z3.fpLEQ(v1, v2), r1 > r2)
    t=time.time(); res = s.check(); print("mono", nb, nf, sg, res, "%.1fs" % (time.time()-t)); sys.stdout.flush()
    s = z3.Solver(); s.set("timeout", 120000)
    s.add(f1, z3.Or(r1 > mx, r1 < mn))
    t=time.time(); res = s.check(); print("range", nb, nf, sg, res, "%.1fs" % (time.time()-t)); sys.stdout.flush()
