#!/bin/bash
# Idempotent, offline: overlay venv on /venv (rig's own interpreter and
# dependencies) plus z3-solver (and crosshair-tool for the cross-check) from
# the wheelhouse.  Nothing is fetched from a network.
set -e
cd "$(dirname "$0")"
V=/verif/.venv
[ "$(pwd)" != "/verif" ] && V="$(pwd)/.venv"
if [ ! -x "$V/bin/python" ] || ! "$V/bin/python" -c "import z3" 2>/dev/null; then
    rm -rf "$V"
    /venv/bin/python -m venv "$V"
    SP=$("$V/bin/python" -c "import sysconfig; print(sysconfig.get_paths()['purelib'])")
    echo "import site; site.addsitedir('/venv/lib/python3.12/site-packages')" > "$SP/_overlay.pth"
    PIP_NO_INDEX=1 "$V/bin/python" -m pip install -q --no-index --find-links /opt/veriftools/wheels z3-solver >/dev/null
    PIP_NO_INDEX=1 "$V/bin/python" -m pip install -q --no-index --find-links /opt/veriftools/wheels crosshair-tool >/dev/null 2>&1 || true
fi
"$V/bin/python" -c "import z3, numpy, six; print('bootstrap ok: z3', z3.get_version_string())"
