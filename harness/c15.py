"""C15 -- SDP and SCP packets encode to the documented wire layout and decode
back unchanged.  Runs the real SDPPacket / SCPPacket constructors,
`bytestring`, `packed_data`, `from_bytestring` and `_unpack_sdp_into_packet`
with every header field a bit-vector backed symbolic integer and symbolic
payload bytes; `rig.machine_control.packets.struct` is rebound to the sx
struct shim while a harness runs.

The oracle is the SDP/SCP wire layout written down here independently of the
code under test (SpiNNaker AppNote 4 "SDP" / AppNote 5 "SCP", as summarised by
the property text):

    byte 0,1   zero padding
    byte 2     flags: 0x87 reply expected, 0x07 no reply expected
    byte 3     IP tag
    byte 4     destination port (3 bits, high) and core (5 bits, low)
    byte 5     source port and core, same split
    byte 6,7   destination chip: y then x (the 16-bit address (x << 8) | y,
               little endian)
    byte 8,9   source chip: y then x
    -- SCP only --
    byte 10,11 cmd_rc, little endian
    byte 12,13 seq, little endian
    then       the arguments that are present, 32 bits little endian each
    then       the payload
"""
import struct as _real_struct

from sx.runner import Unit
from sx.proxies import sand, sor, snot, simplies, ite, smin, smax

PROPERTY = "C15"

META = {
    "bounds": "every SDP/SCP header field symbolic over its full documented "
              "width (ports 3 bits, cores 5 bits, x/y coordinates and tag 8 "
              "bits, cmd_rc and seq 16 bits, each present argument 32 bits); "
              "all 8 None/present patterns of arg1..arg3 (prefix-closed and "
              "not); payload length 0..16 (quick) / 0..24 (thorough) with "
              "symbolic bytes, so every length 1..11 ending inside the "
              "argument words is covered; reply_expected both; n_args of "
              "from_bytestring an unbounded symbolic integer (negative and "
              "> 3 included).  Decode-first direction: every byte string of "
              "length 10..26 (quick) / 10..38 (thorough), all bytes symbolic "
              "(any padding, any flags byte).  Wider-than-documented units: "
              "ports and cores 8 bits, coordinates and tag 12 bits, cmd_rc "
              "and seq 20 bits, arguments 36 bits (thorough adds 16/16/32/48 "
              "bits), payload lengths 0 and 5 (thorough 0..16)",
    "stubs": ["rig.machine_control.packets.struct is rebound to "
              "sx.shims.struct (pack/unpack_from on symbolic integers and "
              "bytes, including struct.error for out-of-range arguments and "
              "short buffers; delegates to the real struct module on "
              "concrete arguments, which is how every path is replayed)"],
    "assumptions": [
        "wire layout as in the property text / SpiNNaker SDP and SCP "
        "application notes, spelled out in this module's docstring",
        "decoding 'takes as many arguments as both the caller allows and "
        "the data contains' is read as k = min(max(n_args, 0), 3, "
        "len(bytes after cmd_rc/seq) // 4)",
        "decode-first: a byte string is well formed when its padding bytes "
        "are zero and its flags byte is 0x87 or 0x07; decode-then-encode is "
        "demanded to be the identity on well-formed strings only, "
        "reply_expected is demanded for the two legal flags bytes only, "
        "every other field and bytes 3.. of the re-encoding are demanded "
        "for all strings.  Not demanded, read from the code and seen in the "
        "replays: from_bytestring ignores the padding bytes and maps every "
        "flags byte other than 0x87 to reply_expected=False, so "
        "re-encoding zeroes bytes 0,1 and normalises byte 2 to 0x07",
        "observed, not claimed: SDPPacket.from_bytestring needs >= 10 bytes "
        "and SCPPacket.from_bytestring >= 14 bytes, shorter SCP strings "
        "(lengths 10..13 are explored) raise struct.error",
    ],
    "outside_claim": ["code that packs through something other than the "
                      "module's `struct` name (e.g. a precompiled "
                      "struct.Struct): the symbolic units give up after 40 "
                      "values per field (inconclusive); the concrete unit "
                      "'extreme field values' still runs it",
                      "payloads longer than 16 (quick) / 24 (thorough) bytes "
                      "(the code has no length-dependent branch beyond 12 "
                      "bytes after cmd_rc/seq)",
                      "negative field values and fields wider than the "
                      "widths listed for the wide units",
                      "reply_expected values other than True/False; payloads "
                      "that are not bytes"],
}

DOC = dict(port=3, cpu=5, coord=8, tag=8, cmd=16, arg=32)
WIDE = dict(port=8, cpu=8, coord=12, tag=12, cmd=20, arg=36)
WIDER = dict(port=16, cpu=16, coord=16, tag=16, cmd=32, arg=48)

SDP_FIELDS = ("tag", "dest_port", "dest_cpu", "src_port", "src_cpu",
              "dest_x", "dest_y", "src_x", "src_y")


# ----------------------------------------------------------------------
# Oracle helpers: ordinary Python operators only, so that they work on
# proxies and on plain ints alike.
# ----------------------------------------------------------------------
def _le(v, nbytes):
    """Little-endian bytes of an integer, as a list of integers."""
    return [(v >> (8 * i)) & 0xff for i in range(nbytes)]


def _word(bs):
    """Little-endian integer of a list of byte values."""
    v = bs[0]
    for i in range(1, len(bs)):
        v = v | (bs[i] << (8 * i))
    return v


def _items(b):
    return [b[i] for i in range(len(b))]


def _eq_bytes(got, exp):
    """`got` (bytes / SymBytes) equals the list of byte values `exp`."""
    if len(got) != len(exp):
        return False
    return sand(*[got[i] == exp[i] for i in range(len(exp))])


def _is_bytes(ctx, b):
    from sx.proxies import SymBytes
    return isinstance(b, (bytes, SymBytes))


def _sdp_values(ctx, w):
    f = {}
    f["tag"] = ctx.bv("tag", w["tag"])
    f["dest_port"] = ctx.bv("dest_port", w["port"])
    f["dest_cpu"] = ctx.bv("dest_cpu", w["cpu"])
    f["src_port"] = ctx.bv("src_port", w["port"])
    f["src_cpu"] = ctx.bv("src_cpu", w["cpu"])
    for n in ("dest_x", "dest_y", "src_x", "src_y"):
        f[n] = ctx.bv(n, w["coord"])
    return f


def _out_of_range(f, scp_args):
    """Some field that struct packs unmasked exceeds its wire width."""
    cs = [f[n] > 0xff for n in ("tag", "dest_x", "dest_y", "src_x", "src_y")]
    if "cmd_rc" in f:
        cs += [f["cmd_rc"] > 0xffff, f["seq"] > 0xffff]
        cs += [a > 0xffffffff for a in scp_args]
    return sor(*cs)


def _prove_header(ctx, bs, f, reply, masked):
    """Bytes 0..9 of `bs` are the SDP header of the field values `f`."""
    ctx.prove(len(bs) >= 10, "layout-header-length", len(bs))
    ctx.prove(sand(bs[0] == 0, bs[1] == 0), "layout-padding",
              (bs[0], bs[1]))
    ctx.prove(bs[2] == ite(reply, 0x87, 0x07), "layout-flags",
              (bs[2], reply))
    ctx.prove(bs[3] == f["tag"], "layout-tag", (bs[3], f["tag"]))
    for i, side in ((4, "dest"), (5, "src")):
        port, cpu = f[side + "_port"], f[side + "_cpu"]
        if masked:
            # a field wider than documented cannot disturb its neighbour
            ctx.prove(sand((bs[i] >> 5) == (port & 0x7),
                           (bs[i] & 0x1f) == (cpu & 0x1f)),
                      "layout-%s-port-cpu-isolation" % side,
                      (bs[i], port, cpu))
        else:
            ctx.prove(bs[i] == ((port << 5) | cpu),
                      "layout-%s-port-cpu" % side, (bs[i], port, cpu))
    ctx.prove(sand(bs[6] == f["dest_y"], bs[7] == f["dest_x"]),
              "layout-dest-chip", (bs[6], bs[7], f["dest_y"], f["dest_x"]))
    ctx.prove(sand(bs[8] == f["src_y"], bs[9] == f["src_x"]),
              "layout-src-chip", (bs[8], bs[9], f["src_y"], f["src_x"]))


def _prove_header_fields(ctx, p, f, reply, masked, label):
    """The decoded packet `p` has the SDP header field values `f`."""
    if reply is not None:
        ctx.prove(p.reply_expected == reply, label + "-reply_expected",
                  (p.reply_expected, reply))
    for n in SDP_FIELDS:
        want = f[n]
        if masked and n.endswith("_port"):
            want = want & 0x7
        elif masked and n.endswith("_cpu"):
            want = want & 0x1f
        ctx.prove(getattr(p, n) == want, label + "-" + n,
                  (getattr(p, n), want))


def _observe_packet(ctx, p, scp):
    ctx.observe(p.reply_expected, [getattr(p, n) for n in SDP_FIELDS])
    if scp:
        ctx.observe(p.cmd_rc, p.seq, p.arg1, p.arg2, p.arg3)
    ctx.observe(p.data)


def _prove_scp_decode(ctx, p2, wire, n_args, label):
    """`p2` was decoded with `n_args` from a string whose bytes after the SDP
    header are the byte values `wire`: cmd_rc, seq, then as many arguments as
    both the caller allows and the data contains, the rest is payload."""
    ctx.prove(sand(p2.cmd_rc == _word(wire[0:2]), p2.seq == _word(wire[2:4])),
              label + "-cmd-seq", (p2.cmd_rc, p2.seq))
    rest = wire[4:]
    got = [p2.arg1, p2.arg2, p2.arg3]
    k = 0
    while k < 3 and got[k] is not None:
        k += 1
    ctx.prove(all(a is None for a in got[k:]), label + "-args-not-a-prefix",
              [a is None for a in got])
    k_want = smin(smax(n_args, 0), min(3, len(rest) // 4))
    ctx.prove(k_want == k, label + "-arg-count",
              (k, n_args, len(rest)))
    for i in range(k):
        if 4 * i + 4 <= len(rest):
            ctx.prove(got[i] == _word(rest[4 * i:4 * i + 4]),
                      label + "-arg-value", (i + 1, got[i]))
    ctx.prove(_is_bytes(ctx, p2.data), label + "-payload-type")
    ctx.prove(_eq_bytes(p2.data, rest[4 * k:]), label + "-payload",
              (k, p2.data))
    ctx.witness("args-taken-%d" % k)
    if len(rest) % 4 and len(rest) < 12 and k == len(rest) // 4:
        ctx.witness("payload-ends-inside-argument-words")
    return k


# ----------------------------------------------------------------------
# Encode first: fields -> bytes (layout) -> fields (round trip)
# ----------------------------------------------------------------------
def h_encode(ctx, scp, pattern, widths, lengths, masked):
    import rig.machine_control.packets as pk
    from sx import shims
    saved = pk.struct
    pk.struct = shims.struct
    try:
        _encode(ctx, pk, scp, pattern, widths, lengths, masked)
    finally:
        pk.struct = saved


def _encode(ctx, pk, scp, pattern, w, lengths, masked):
    reply = bool(ctx.choose(2))
    f = _sdp_values(ctx, w)
    args = [None, None, None]
    if scp:
        f["cmd_rc"] = ctx.bv("cmd_rc", w["cmd"])
        f["seq"] = ctx.bv("seq", w["cmd"])
        for i in range(3):
            if pattern[i]:
                args[i] = ctx.bv("arg%d" % (i + 1), w["arg"])
    present = [a for a in args if a is not None]
    n = ctx.pick(lengths)
    data = ctx.bytes("data", n)

    kw = dict(reply_expected=reply, data=data)
    kw.update((name, f[name]) for name in SDP_FIELDS)
    if scp:
        p = pk.SCPPacket(cmd_rc=f["cmd_rc"], seq=f["seq"], arg1=args[0],
                         arg2=args[1], arg3=args[2], **kw)
    else:
        p = pk.SDPPacket(**kw)

    # the wire image after the SDP header, from the documentation
    wire = []
    if scp:
        wire += _le(f["cmd_rc"], 2) + _le(f["seq"], 2)
        for a in present:
            wire += _le(a, 4)
    wire += _items(data)

    # ---- encode ------------------------------------------------------
    try:
        bs = p.bytestring
        packed = p.packed_data
    except Exception as e:
        ctx.observe(type(e).__name__)
        if not masked:
            ctx.prove(False, "encode-raised-on-documented-values", repr(e))
            return
        ctx.witness("struct-error")
        # the only other outcome: a real struct range error, and only when
        # a field that is packed unmasked does not fit
        ctx.prove(isinstance(e, _real_struct.error),
                  "encode-unexpected-exception", repr(e))
        ctx.prove(_out_of_range(f, present),
                  "encode-struct-error-with-all-fields-in-range", repr(e))
        return
    ctx.observe(bs)
    ctx.witness("encoded")
    if masked:
        ctx.prove(snot(_out_of_range(f, present)),
                  "encode-accepted-out-of-range-field")
    ctx.prove(_is_bytes(ctx, bs), "encode-result-type")
    _prove_header(ctx, bs, f, reply, masked)
    ctx.prove(len(bs) == 10 + len(wire), "layout-length",
              (len(bs), 10 + len(wire)))
    if len(bs) != 10 + len(wire):
        return
    body = bs[10:]
    if scp:
        ctx.prove(_eq_bytes(body[0:2], wire[0:2]), "layout-cmd_rc",
                  (body[0:2], f["cmd_rc"]))
        ctx.prove(_eq_bytes(body[2:4], wire[2:4]), "layout-seq",
                  (body[2:4], f["seq"]))
        na = 4 + 4 * len(present)
        ctx.prove(_eq_bytes(body[4:na], wire[4:na]), "layout-args",
                  (body[4:na], present))
        ctx.prove(_eq_bytes(body[na:], wire[na:]), "layout-payload",
                  (body[na:], data))
    else:
        ctx.prove(_eq_bytes(body, wire), "layout-payload", (body, data))
    ctx.prove(_eq_bytes(packed, wire), "packed_data-layout", packed)

    # ---- decode what was encoded ------------------------------------------
    try:
        if scp:
            n_args = ctx.int("n_args")
            p2 = pk.SCPPacket.from_bytestring(bs, n_args=n_args)
        else:
            p2 = pk.SDPPacket.from_bytestring(bs)
    except Exception as e:
        ctx.observe(type(e).__name__)
        ctx.prove(False, "roundtrip-decode-raised", repr(e))
        return
    _observe_packet(ctx, p2, scp)
    ctx.prove(isinstance(p2, pk.SCPPacket if scp else pk.SDPPacket),
              "roundtrip-type")
    _prove_header_fields(ctx, p2, f, reply, masked, "roundtrip")
    if not scp:
        ctx.prove(_is_bytes(ctx, p2.data), "roundtrip-payload-type")
        ctx.prove(_eq_bytes(p2.data, _items(data)), "roundtrip-payload",
                  (p2.data, data))
        return
    k = _prove_scp_decode(ctx, p2, wire, n_args, "roundtrip")
    # "decoding those bytes with the same argument count yields a packet
    # equal in every field": stated directly for prefix-closed packets
    m = len(present)
    if all(a is not None for a in args[:m]):
        got = [p2.arg1, p2.arg2, p2.arg3]
        if k == m:
            ctx.witness("same-count")
            same = sand(p2.cmd_rc == f["cmd_rc"], p2.seq == f["seq"],
                        _eq_bytes(p2.data, _items(data)),
                        *[got[i] == args[i] for i in range(m)])
            if any(a is not None for a in got[m:]):
                same = False
        else:
            same = False
        ctx.prove(simplies(n_args == m, same), "roundtrip-same-count",
                  (m, n_args, got, p2.data))


# ----------------------------------------------------------------------
# Decode first: bytes -> fields (layout) -> bytes
# ----------------------------------------------------------------------
def h_decode(ctx, scp, lengths):
    import rig.machine_control.packets as pk
    from sx import shims
    saved = pk.struct
    pk.struct = shims.struct
    try:
        _decode(ctx, pk, scp, lengths)
    finally:
        pk.struct = saved


def _decode(ctx, pk, scp, lengths):
    L = ctx.pick(lengths)
    B = ctx.bytes("b", L)
    b = _items(B)
    need = 14 if scp else 10
    try:
        if scp:
            n_args = ctx.int("n_args")
            p = pk.SCPPacket.from_bytestring(B, n_args=n_args)
        else:
            p = pk.SDPPacket.from_bytestring(B)
    except Exception as e:
        ctx.observe(type(e).__name__)
        if L >= need:
            ctx.prove(False, "decode-raised", repr(e))
        else:
            # not part of the claim: observed (and replayed) only
            ctx.witness("too-short")
        return
    _observe_packet(ctx, p, scp)
    if L < need:
        return
    ctx.witness("decoded")
    f = {"tag": b[3],
         "dest_port": b[4] >> 5, "dest_cpu": b[4] & 0x1f,
         "src_port": b[5] >> 5, "src_cpu": b[5] & 0x1f,
         "dest_y": b[6], "dest_x": b[7], "src_y": b[8], "src_x": b[9]}
    # Only 0x87 and 0x07 are flags bytes of the documented layout; what
    # other values decode to is not demanded (see META).
    legal_flags = sor(b[2] == 0x87, b[2] == 0x07)
    ctx.prove(simplies(legal_flags, p.reply_expected == (b[2] == 0x87)),
              "decode-reply_expected", (p.reply_expected, b[2]))
    _prove_header_fields(ctx, p, f, None, False, "decode")
    if scp:
        _prove_scp_decode(ctx, p, b[10:], n_args, "decode")
    else:
        ctx.prove(_is_bytes(ctx, p.data), "decode-payload-type")
        ctx.prove(_eq_bytes(p.data, b[10:]), "decode-payload", p.data)

    # ---- encode what was decoded -------------------------------------
    try:
        re = p.bytestring
    except Exception as e:
        ctx.observe(type(e).__name__)
        ctx.prove(False, "reencode-raised", repr(e))
        return
    ctx.observe(re)
    ctx.witness("reencoded")
    # a well-formed string (zero padding, legal flags) comes back unchanged
    legal = sand(b[0] == 0, b[1] == 0, legal_flags)
    ctx.prove(simplies(legal, _eq_bytes(re, b)), "reencode-differs",
              (re, B))
    # whatever the padding and flags were, everything after them does
    ctx.prove(_eq_bytes(re[3:], b[3:]), "reencode-differs-after-flags",
              (re, B))
    if ctx.symbolic and ctx.reachable(legal):
        # the implication above is not vacuous on this path
        ctx.witness("reencoded-legal-input")


# ----------------------------------------------------------------------
PATTERNS = [(a, b, c) for a in (0, 1) for b in (0, 1) for c in (0, 1)]


def _pname(p):
    return "".join("A" if x else "-" for x in p)


def h_extremes(ctx):
    """Concrete packets with every field at 0, at its documented maximum and
    at a one-bit pattern, through the real struct module: encode, compare
    with the documented layout written out by hand, decode, compare.  (The
    symbolic units cover all values when the code packs through the module's
    `struct` name; this unit also runs code that packs some other way.)"""
    import struct as real_struct
    from rig.machine_control.packets import SDPPacket, SCPPacket
    FM = dict(tag=0xff, dest_port=7, dest_cpu=31, src_port=7, src_cpu=31,
              dest_x=0xff, dest_y=0xff, src_x=0xff, src_y=0xff)
    kind = ctx.pick(["zero", "max", "high-bit", "low-bit"])

    def val(name, top):
        return {"zero": 0, "max": top, "low-bit": 1,
                "high-bit": (top + 1) >> 1}[kind]
    f = {k: val(k, v) for k, v in FM.items()}
    reply = ctx.pick([True, False])
    nargs = ctx.pick([0, 1, 2, 3])
    data = ctx.pick([b"", b"\x01", b"\xff" * 5])
    args = [val("arg", 0xffffffff) for _ in range(nargs)] + \
        [None] * (3 - nargs)
    cmd, seq = val("cmd_rc", 0xffff), val("seq", 0xffff)
    hdr = b"\0\0" + bytes([0x87 if reply else 0x07, f["tag"],
                            (f["dest_port"] << 5) | f["dest_cpu"],
                            (f["src_port"] << 5) | f["src_cpu"],
                            f["dest_y"], f["dest_x"], f["src_y"], f["src_x"]])
    try:
        p = SCPPacket(reply, f["tag"], f["dest_port"], f["dest_cpu"],
                      f["src_port"], f["src_cpu"], f["dest_x"], f["dest_y"],
                      f["src_x"], f["src_y"], cmd, seq, args[0], args[1],
                      args[2], data)
        bs = p.bytestring
        want = hdr + real_struct.pack("<2H", cmd, seq) + b"".join(
            real_struct.pack("<I", a) for a in args if a is not None) + data
        ctx.observe(kind, reply, nargs, len(bs))
        ctx.prove(bs == want, "layout-extreme-values", (kind, bs, want))
        q = SCPPacket.from_bytestring(bs, n_args=nargs)
        same = all(getattr(q, k) == getattr(p, k) for k in list(FM) + [
            "reply_expected", "cmd_rc", "seq", "arg1", "arg2", "arg3",
            "data"])
        ctx.prove(same, "roundtrip-extreme-values", (kind, nargs))
        s = SDPPacket(reply, f["tag"], f["dest_port"], f["dest_cpu"],
                      f["src_port"], f["src_cpu"], f["dest_x"], f["dest_y"],
                      f["src_x"], f["src_y"], data)
        ctx.prove(s.bytestring == hdr + data, "layout-extreme-values",
                  (kind, "sdp"))
        t = SDPPacket.from_bytestring(s.bytestring)
        ctx.prove(all(getattr(t, k) == getattr(s, k) for k in list(FM) + [
            "reply_expected", "data"]), "roundtrip-extreme-values", "sdp")
        ctx.witness("extremes")
    except Exception as e:
        ctx.observe(type(e).__name__)
        ctx.prove(False, "encode-raised-on-documented-values",
                  (kind, nargs, repr(e)))


def h_after_rejected(ctx):
    """A packet that cannot be encoded (an argument outside 32 bits, a
    negative one, a payload that is not bytes, a field outside its byte) is
    rejected with an exception; the valid packet encoded next -- the same
    object as before or another -- has exactly the documented bytes.
    Concrete values through the real struct module."""
    import struct as real_struct
    from rig.machine_control.packets import SDPPacket, SCPPacket
    bad = ctx.pick(["arg1 2**32", "arg2 -1", "arg3 str", "data not bytes",
                    "cmd 2**16", "tag 256", "sdp data not bytes"])
    nargs = ctx.pick([0, 2, 3])
    data = ctx.pick([b"", b"\x05\x06\x07"])
    args = [0x01020304, 0x0a0b0c0d, 0xf0e0d0c0][:nargs] + [None] * (3 - nargs)

    def good():
        return SCPPacket(True, 0x11, 1, 2, 3, 4, 5, 6, 7, 8, 0x1234, 0x4321,
                         args[0], args[1], args[2], data)
    want = (b"\0\0" + bytes([0x87, 0x11, (1 << 5) | 2, (3 << 5) | 4, 6, 5, 8,
                             7]) + real_struct.pack("<2H", 0x1234, 0x4321) +
            b"".join(real_struct.pack("<I", a) for a in args
                     if a is not None) + data)
    g = good()
    try:
        first = g.bytestring
    except Exception as e:
        ctx.prove(False, "encode-raised-on-documented-values", repr(e))
        return
    ctx.prove(first == want, "layout-extreme-values", ("before", first))
    kw = dict(cmd_rc=1, seq=2, arg1=3, arg2=4, arg3=5, data=b"xy")
    tag = 0
    if bad == "arg1 2**32":
        kw["arg1"] = 1 << 32
    elif bad == "arg2 -1":
        kw["arg2"] = -1
    elif bad == "arg3 str":
        kw["arg3"] = "3"
    elif bad in ("data not bytes", "sdp data not bytes"):
        kw["data"] = 7
    elif bad == "cmd 2**16":
        kw["cmd_rc"] = 1 << 16
    elif bad == "tag 256":
        tag = 256
    rejected = False
    try:
        if bad.startswith("sdp"):
            SDPPacket(False, tag, 0, 0, 0, 0, 0, 0, 0, 0, kw["data"]
                      ).bytestring
        else:
            SCPPacket(False, tag, 0, 0, 0, 0, 0, 0, 0, 0, **kw).bytestring
    except Exception as e:
        rejected = True
        ctx.observe(bad, type(e).__name__)
    ctx.witness("rejected" if rejected else "accepted")
    try:
        again, other = g.bytestring, good().bytestring
    except Exception as e:
        ctx.prove(False, "encode-raised-on-documented-values", repr(e))
        return
    ctx.prove(again == want and other == want,
              "layout-after-a-rejected-packet", (bad, nargs, again, other))
    q = SCPPacket.from_bytestring(other, n_args=nargs)
    ctx.prove((q.cmd_rc, q.seq, q.arg1, q.arg2, q.arg3, q.data) ==
              (0x1234, 0x4321, args[0], args[1], args[2], data),
              "roundtrip-after-a-rejected-packet", (bad, nargs))


def h_decode_twice(ctx):
    """The same datagram decoded twice, the first result altered by the
    caller in between (as when a reply is built from a request): the second
    decode gives the fields of the bytes again, in an object of its own."""
    from rig.machine_control.packets import SDPPacket, SCPPacket
    kind = ctx.pick(["sdp", "scp"])
    data = ctx.pick([b"", b"\x01\x02\x03\x04\x05\x06\x07\x08\x09"])
    sdp = SDPPacket(True, 0x21, 2, 3, 4, 5, 6, 7, 8, 9, data)
    scp = SCPPacket(False, 0x21, 2, 3, 4, 5, 6, 7, 8, 9, 0x1122, 0x3344,
                    1, 2, 3, data)
    cls, wire = (SDPPacket, sdp.bytestring) if kind == "sdp" else (
        SCPPacket, scp.bytestring)
    names = ["reply_expected", "tag", "dest_port", "dest_cpu", "src_port",
             "src_cpu", "dest_x", "dest_y", "src_x", "src_y", "data"]
    if kind == "scp":
        names += ["cmd_rc", "seq", "arg1", "arg2", "arg3"]
    try:
        a = cls.from_bytestring(wire)
        first = [getattr(a, n) for n in names]
        # the caller turns the request into a reply
        a.dest_x, a.src_x = a.src_x, a.dest_x
        a.dest_y, a.src_y = a.src_y, a.dest_y
        a.dest_cpu, a.src_cpu = a.src_cpu, a.dest_cpu
        a.tag, a.reply_expected, a.data = 0, False, b"changed"
        b = cls.from_bytestring(bytes(bytearray(wire)))
        second = [getattr(b, n) for n in names]
        again = b.bytestring
    except Exception as e:
        ctx.observe(type(e).__name__)
        ctx.prove(False, "encode-raised-on-documented-values", repr(e))
        return
    ctx.observe(kind, len(wire))
    ctx.witness("decoded-twice")
    ctx.prove(b is not a, "decode-returns-shared-object", kind)
    ctx.prove(second == first, "decode-depends-on-earlier-decode",
              (kind, first, second))
    ctx.prove(again == wire, "roundtrip-after-earlier-decode", kind)


def units(tier, seed):
    thorough = tier == "thorough"
    us = [Unit("extreme field values (concrete)", h_extremes, {},
               witnesses=("extremes",)),
          Unit("the same datagram decoded twice (concrete)", h_decode_twice,
               {}, witnesses=("decoded-twice",)),
          Unit("a rejected packet, then a valid one (concrete)",
               h_after_rejected, {}, witnesses=("rejected",))]
    lens = tuple(range(0, 25 if thorough else 17))
    wlens = tuple(range(0, 17)) if thorough else (0, 5)
    dlens = tuple(range(10, 39 if thorough else 27))

    # documented widths
    us.append(Unit("sdp encode", h_encode, dict(
        scp=False, pattern=(0, 0, 0), widths=DOC, lengths=lens,
        masked=False), witnesses=("encoded",)))
    for pat in PATTERNS:
        wit = ["encoded", "args-taken-0", "args-taken-1", "args-taken-2",
               "args-taken-3"]
        if sum(pat) < 3:
            wit.append("payload-ends-inside-argument-words")
        if pat in ((0, 0, 0), (1, 0, 0), (1, 1, 0), (1, 1, 1)):
            wit.append("same-count")
        us.append(Unit("scp encode args=%s" % _pname(pat), h_encode, dict(
            scp=True, pattern=pat, widths=DOC, lengths=lens, masked=False),
            split=3, witnesses=tuple(wit)))

    # decode first
    us.append(Unit("sdp decode", h_decode, dict(scp=False, lengths=dlens),
                   witnesses=("decoded", "reencoded",
                              "reencoded-legal-input")))
    us.append(Unit("scp decode", h_decode, dict(scp=True, lengths=dlens),
                   split=3,
                   witnesses=("decoded", "reencoded", "too-short",
                              "reencoded-legal-input",
                              "args-taken-0", "args-taken-1", "args-taken-2",
                              "args-taken-3",
                              "payload-ends-inside-argument-words")))

    # wider than documented
    widths = [("wide", WIDE)] + ([("wider", WIDER)] if thorough else [])
    for wname, w in widths:
        us.append(Unit("sdp encode %s fields" % wname, h_encode, dict(
            scp=False, pattern=(0, 0, 0), widths=w, lengths=wlens,
            masked=True), witnesses=("encoded", "struct-error")))
        for pat in PATTERNS:
            us.append(Unit("scp encode %s fields args=%s" % (
                wname, _pname(pat)), h_encode, dict(
                    scp=True, pattern=pat, widths=w, lengths=wlens,
                    masked=True), split=3,
                witnesses=("encoded", "struct-error")))
    # code that hands a symbolic field to a C function needing a real int
    # makes the engine enumerate values: give up early (inconclusive) rather
    # than after 4096 values per field
    for u in us:
        u.max_concretise = 40
    return us
