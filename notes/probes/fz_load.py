import sys, random, tempfile, os, warnings, itertools, collections
warnings.simplefilter("ignore")
sys.path.insert(0, "/tmp/proto")
import fakemachine as fm
from rig.machine_control import machine_controller as mcm, consts
from rig.machine_control.consts import AppState
mcm.SCPConnection = fm.FakeConn
mcm.time = __import__("types").SimpleNamespace(sleep=lambda s: None, time=__import__("time").time)
random.seed(int(sys.argv[1]))
tmp = tempfile.mkdtemp()
stats = collections.Counter()
for it in range(int(sys.argv[2])):
    mc0 = None
    buf = random.choice([16, 32, 64])
    FakeStructs = None
    m = fm.Machine(random.randint(1, 3), random.randint(1, 3), None, buf)
    fm.FakeConn.machine = m
    mc = mcm.MachineController("h")
    m.structs = mc.structs
    nb = random.randint(1, 2)
    amap = {}
    used = set()
    for b in range(nb):
        size = random.choice([buf - 4, buf, buf + 4, 2 * buf, 3 * buf - 4, 4])
        fn = os.path.join(tmp, "a%d_%d.aplx" % (it, b))
        data = bytes(random.randrange(256) for _ in range(size))
        open(fn, "wb").write(data)
        t = {}
        for _ in range(random.randint(1, 3)):
            chip = random.choice(list(m.chips))
            cores = set(random.sample(range(1, 18), random.randint(1, 3)))
            cores = set(c for c in cores if (chip, c) not in used)
            for c in cores: used.add((chip, c))
            if cores: t.setdefault(chip, set()).update(cores)
        if t: amap[fn] = (t, data)
    if not amap: continue
    app_id = random.randint(1, 255)
    pm = random.choice([0.0, 0.3, 0.7])
    misses = {}
    m.miss = lambda a, c: misses.setdefault((a, c), random.random() < pm)
    wait = random.random() < .5; use_count = random.random() < .5; n_tries = random.randint(0, 2)
    # pre-existing waiter
    pre = None
    if random.random() < float(sys.argv[3]):
        chip = random.choice(list(m.chips)); free = [c for c in range(1, 18) if (chip, c) not in used]
        pre = (chip, random.choice(free)); m.chips[chip].state[pre[1]] = AppState.wait; m.chips[chip].app[pre[1]] = app_id; m.chips[chip].image[pre[1]] = b"old"
    try:
        mc.load_application({fn: t for fn, (t, d) in amap.items()}, app_id=app_id, wait=wait, use_count=use_count, n_tries=n_tries)
        ok = True
    except mcm.SpiNNakerLoadingError as e:
        ok = False; emap = e.app_map
    except AssertionError as e:
        stats["MODEL-ASSERT " + str(e)[:40]] += 1; continue
    # oracle
    want = {}
    for fn, (t, d) in amap.items():
        for chip, cores in t.items():
            for c in cores: want[(chip, c)] = d
    loaded = {k for k, d in want.items() if m.chips[k[0]].image[k[1]] == d and m.chips[k[0]].app[k[1]] == app_id}
    if ok:
        stats["ok"] += 1
        bad = set(want) - loaded
        if bad: stats["RETURNED-BUT-UNLOADED"] += 1; print("RETURNED BUT UNLOADED", sorted(bad), "use_count", use_count, "pre", pre, "tries", n_tries)
        extra = [(c, i) for c, ch in m.chips.items() for i in range(1, 18) if ch.image[i] is not None and (c, i) not in want and (c, i) != pre]
        if extra: stats["EXTRA"] += 1; print("EXTRA", extra)
        for k in loaded:
            st = m.chips[k[0]].state[k[1]]
            if (wait and st != AppState.wait) or (not wait and st != AppState.run): stats["STATE"] += 1; print("STATE", k, st, wait); break
    else:
        stats["err"] += 1
        named = {(chip, c) for fn, t in emap.items() for chip, cs in t.items() for c in cs}
        if named != set(want) - loaded: stats["ERRMAP"] += 1; print("ERRMAP", sorted(named), sorted(set(want) - loaded))
        if m.attempt > n_tries + 1: stats["ATTEMPTS"] += 1
print(sorted(stats.items()))
import shutil; shutil.rmtree(tmp)
