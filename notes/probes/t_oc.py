import sys, time, itertools, warnings
warnings.simplefilter("ignore")
sys.path.insert(0, "/tmp/proto"); sys.path.insert(0, "/repo")
import z3
from symex import *
from rig.routing_table import RoutingTableEntry, Routes
from rig.routing_table import ordered_covering as oc
from rig.routing_table import remove_default_routes as rdr

def first_match_expr(table, k):
    """returns (matched_expr, route_id_expr) with routes mapped to ints"""
    pass

def run(masks, routes, minimiser):
    N = len(masks)
    stats = {}
    def body(eng):
        P = SymInt.var("P", 0, 0xffffffff)
        keys = [(P & (0xffffffff & ~WIN)) | (SymInt.var("k%d" % i, 0, WIN)) for i in range(N)]
        for k, m in zip(keys, masks):
            eng.assume((k & ~m & 0xffffffff) == 0)
        # orthogonality
        for i in range(N):
            for j in range(i+1, N):
                eng.assume(~SymBool(((keys[i].e & masks[j]) == (keys[j].e & masks[i]))))
        table = [RoutingTableEntry(routes[i], keys[i], SymInt(z3.BitVecVal(masks[i], W))) for i in range(N)]
        out = minimiser(table, None)
        # oracle: for all k matched by original: route same
        k = eng.fresh("pk", z3.BitVecSort(W))
        rid = {}
        def route_id(r):
            return rid.setdefault(frozenset(r), len(rid))
        def fm(tab):
            # returns (matched, routeid)
            matched = z3.BoolVal(False); r = z3.IntVal(-1)
            for e in reversed(tab):
                hit = (k & bv(e.mask)) == bv(e.key)
                r = z3.If(hit, route_id(e.route), r)
                matched = z3.Or(hit, matched)
            return matched, r
        mo, ro = fm(table); mn, rn = fm(out)
        bad = z3.And(k >= 0, k <= 0xffffffff, mo, z3.Or(z3.Not(mn), rn != ro))
        m = eng.prove(z3.Not(bad))
        return (len(out), m is None)
    eng = Engine()
    t = time.time()
    eng.explore(body)
    return eng.paths, eng.checks, time.time() - t, eng.solver_time, eng.results

F = 0xffffffff
WIN = int(sys.argv[1])
R = [{Routes.north}, {Routes.south}, {Routes.core(1)}]
for masks in [(F, F, F), (F, F & ~1, F & ~3), (F&~1, F&~2, F&~3, F), (F,F,F,F)]:
    routes = [R[0]] * len(masks)
    routes[-1] = R[1]
    p, c, wall, st, res = run(list(masks), routes, oc.minimise)
    print(len(masks), [hex(m) for m in masks], "paths", p, "checks", c, "wall %.2f solver %.2f" % (wall, st), "ok", all(r[1] for r in res), sorted(set(r[0] for r in res)))
