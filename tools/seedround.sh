#!/bin/bash
# tools/seedround.sh <ID> <suffix> <worktree>   e.g. C02 e /tmp/r5w_C02
# confirm a sub-agent's seeded change, store it, remove the worktree, run the quick check on it
ID=$1; SUF=$2; W=$3
/verif/tools/seedverify.sh $ID $ID-$SUF $W/patch.diff $W/demo.py 2>&1 | tail -2
git -C /repo worktree remove --force $W 2>/dev/null; git -C /repo worktree prune
( time /verif/tools/seedcheck.sh $ID /verif/seeded/$ID-$SUF/patch.diff ) 2>&1 | grep -v "^$\|user\|sys" | cut -c1-420
