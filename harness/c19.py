"""C19 -- SpiNN-5 board geometry functions agree with the board tiling.

Runs the real rig.geometry functions spinn5_chip_coord, spinn5_local_eth_coord,
spinn5_fpga_link, spinn5_eth_coords and standard_system_dimensions on symbolic
(unbounded, mathematical-integer) chip coordinates, root-chip coordinates,
machine sizes and board counts.

The oracle is a description of the physical board written here, not rig's
tables: a SpiNN-5 board is the 48 chips at offsets (i, j) from its Ethernet
chip with 0 <= i, j <= 7 and -3 <= i - j <= 4 (the hexagon drawn in
tests/test_geometry.py and "forty-eight-chip" in rig/wizard.py); boards are
laid out so that the Ethernet chips sit at (0, 0), (4, 8), (8, 4) modulo 12
relative to the root chip (the example in the docstring of spinn5_eth_coords).
The unit "tile model" has z3 prove that this description is a tiling of the
plane (every chip lies in exactly one board), so "the board that contains the
chip" is well defined by the description alone.
"""
from sx.runner import Unit as _Unit
from sx.proxies import sand, sor, snot, simplies, ite, is_sym

PROPERTY = "C19"

ETH = ((0, 0), (4, 8), (8, 4))      # Ethernet chips of a 12 x 12 cell

# Direction of travel of each link (SpiNNaker convention, rig/links.py
# docstring: anticlockwise from east).  Keyed by name so that the harness
# does not depend on rig's own vector table.
DIRECTION = {"east": (1, 0), "north_east": (1, 1), "north": (0, 1),
             "west": (-1, 0), "south_west": (-1, -1), "south": (0, -1)}

ETH_MENU_QUICK = ((12, 12), (24, 12), (12, 24), (24, 24), (36, 12), (12, 36))
TORUS_MENU_QUICK = ((12, 12), (24, 12), (12, 36), (36, 24), (96, 60))
DIMS_QUICK = 400        # triads: boards <= 1202
DIMS_THOROUGH = 3200    # triads: boards <= 9602
DIMS_CHUNK = 50

META = {
    "bounds": "spinn5_chip_coord / spinn5_local_eth_coord / spinn5_fpga_link: "
              "chip x, y and root_x, root_y are unbounded symbolic integers "
              "of any sign, machine w, h are unbounded symbolic integers >= 1 "
              "(left symbolic under the final `% w`, `% h`: z3 decides the "
              "non-linear queries within the timeouts; the 12 x 12 table "
              "index is concretised by the engine: 144 paths, x 6 links for "
              "the FPGA function; work is partitioned into 12 units by "
              "(y - root_y) mod 12).  The wrap-around form of the "
              "local-Ethernet statement (result congruent to an Ethernet "
              "position modulo 12, chip inside that board's tile going round "
              "the torus, unique) needs 12 | w under a symbolic modulus, "
              "which is beyond z3: it is proved for concrete (w, h) in "
              "{(12,12), (24,12), (12,36), (36,24), (96,60)} (quick) / all "
              "64 multiples of 12 up to 96 x 96 (thorough), x, y, root "
              "still unbounded.  spinn5_eth_coords: width and height "
              "symbolic inside a block wmax-11..wmax x hmax-11..hmax per "
              "unit, root_x, root_y unbounded symbolic; blocks (12,12), "
              "(24,12), (12,24), (24,24), (36,12), (12,36) (quick: every "
              "1 <= width, height <= 24 and 25..36 x 1..12, 1..12 x 25..36) / "
              "all blocks with wmax, hmax in {12,24,36,48} and wmax * hmax <= "
              "1296 (thorough: every 1 <= width, height <= 36, and 37..48 x "
              "1..24, 1..24 x 37..48).  FPGA link numbers: all 3 x 48 x 6 "
              "(board position, chip, link) triples with symbolic root and "
              "symbolic whole-cell displacement.  "
              "standard_system_dimensions: symbolic board count n; every "
              "n >= 0 for the special cases 0, 1 and the ValueError; "
              "3 <= n <= 1202 (quick) / 9602 (thorough) for the "
              "factorisation (int(sqrt(n // 3)) concretises n // 3)",
    "stubs": [],
    "assumptions": [
        "the board description used as the oracle: 48 chips at offsets "
        "(i, j), 0 <= i, j <= 7, -3 <= i - j <= 4 from the board's Ethernet "
        "chip (the hexagon drawn in rig's tests/test_geometry.py; "
        "'forty-eight-chip' in rig/wizard.py); Ethernet chips at root + "
        "(0,0), (4,8), (8,4) modulo 12 (example in the docstring of "
        "spinn5_eth_coords); z3 proves in unit 'tile model' that this "
        "description is an exact tiling of the plane",
        "link directions east (+1,0), north_east (+1,+1), north (0,+1), west "
        "(-1,0), south_west (-1,-1), south (0,-1); proved equal to "
        "Links.to_vector()",
        "machine sizes w, h >= 1 and board counts n >= 0",
        "spinn5_local_eth_coord is required to return the board's Ethernet "
        "chip reduced modulo (w, h) (the function's wrap-around), hence the "
        "Ethernet chip itself whenever that chip lies inside the machine; "
        "for w, h multiples of 12 this is the torus statement above",
        "spinn5_eth_coords may list the chips in any order but each once",
        "'squarest': (12a, 12b) with 3ab = n, a >= b and no divisor d of n/3 "
        "with b < d <= sqrt(n/3)",
    ],
    "outside_claim": [
        "spinn5_eth_coords for width > 48 or height > 48, and for sizes with "
        "both width > 36 and height > 24 or vice versa (quick: beyond the "
        "six listed blocks)",
        "the wrap-around (modulo-12 congruence) form of the local-Ethernet "
        "statement for machine sizes other than the listed multiples of 12 "
        "(the identity 'result = board's Ethernet chip modulo (w, h)' is "
        "proved for all w, h >= 1)",
        "standard_system_dimensions for more than 1202 (quick) / 9602 "
        "(thorough) boards when the count is a multiple of three",
        "which physical FPGA and S-ATA link a given board edge is wired to: "
        "only 'None exactly on links that stay on the board', the ranges "
        "fpga in 0..2, link in 0..15 and pairwise distinctness (a bijection "
        "onto 3 x 16) are checked",
        "zero or negative machine sizes, negative board counts",
    ],
}


# ----------------------------------------------------------------------
# The oracle: the board description
# ----------------------------------------------------------------------
def in_tile(i, j):
    """(i, j) is the offset of one of the 48 chips of a SpiNN-5 board from
    the board's Ethernet (bottom-left) chip."""
    return sand(0 <= i, i <= 7, 0 <= j, j <= 7, -3 <= i - j, i - j <= 4)


def is_eth(dx, dy):
    """A chip at (dx, dy) relative to the root chip is an Ethernet chip."""
    return sor(*[sand(dx % 12 == ex, dy % 12 == ey) for ex, ey in ETH])


def board_of(px, py, rx, ry):
    """Ethernet chip (unwrapped plane) of the board containing chip (px, py),
    from the description alone: the candidate origin at or below-left of the
    chip in each of the three Ethernet lattices, whichever has the chip in
    its tile (exactly one does: unit 'tile model')."""
    cands = []
    for ex, ey in ETH:
        i = (px - rx - ex) % 12
        j = (py - ry - ey) % 12
        cands.append((in_tile(i, j), px - i, py - j))
    ox = ite(cands[0][0], cands[0][1], ite(cands[1][0], cands[1][1],
                                           cands[2][1]))
    oy = ite(cands[0][0], cands[0][2], ite(cands[1][0], cands[1][2],
                                           cands[2][2]))
    return ox, oy


def _row(ctx, y, ry, row):
    """Work partition: a unit covers the chips with (y - root_y) mod 12 ==
    row; the twelve units together cover every integer (proved in unit 'tile
    model').  Used instead of the engine's `split` because numpy turns any
    exception raised by __index__ -- including the engine's frontier cut --
    into IndexError."""
    ctx.assume((y - ry) % 12 == row)


def _prove(ctx, cond, label, detail=None):
    """ctx.prove, but the validity query is first put to a fresh z3 solver
    holding the engine's path condition: the engine's incremental solver
    (one per path, queried with assumptions) is 5-10 x slower on the large
    disjunctive queries of this property.  A fresh solver's `unsat` is the
    same verdict; anything else falls through to ctx.prove, which produces
    and replays the counterexample as usual."""
    if ctx.symbolic and is_sym(cond):
        import z3
        s = z3.Solver()
        s.set("timeout", ctx.timeout_ms)
        s.add(ctx.solver.assertions())
        s.add(z3.Not(cond.e))
        if s.check() == z3.unsat:
            ctx.stats.unsat += 1
            return ctx.prove(True, label, detail)
    return ctx.prove(cond, label, detail)


def _count(conds):
    return sum((ite(c, 1, 0) for c in conds), 0)


# ----------------------------------------------------------------------
def h_tile_model(ctx):
    """The description itself: 48 chips; every point of the plane lies in the
    tile of exactly one Ethernet chip (so boards neither overlap nor leave
    gaps), whatever the root chip."""
    chips = [(i, j) for i in range(-2, 11) for j in range(-2, 11)
             if in_tile(i, j)]
    ctx.prove(len(chips) == 48, "model-tile-48-chips", len(chips))
    px, py = ctx.int("px"), ctx.int("py")
    rx, ry = ctx.int("rx"), ctx.int("ry")
    hits = []
    for ex, ey in ETH:
        hits.append(in_tile((px - rx - ex) % 12, (py - ry - ey) % 12))
    ctx.prove(_count(hits) == 1, "model-tiling-exact", (px, py, rx, ry))
    # and in the unwrapped plane: any Ethernet chip whose tile holds the
    # point is the one board_of() names
    ox, oy = board_of(px, py, rx, ry)
    fx, fy = ctx.int("fx"), ctx.int("fy")
    ctx.prove(simplies(sand(is_eth(fx - rx, fy - ry),
                            in_tile(px - fx, py - fy)),
                       sand(fx == ox, fy == oy)),
              "model-board-unique", (px, py, fx, fy, ox, oy))
    ctx.prove(sand(is_eth(ox - rx, oy - ry), in_tile(px - ox, py - oy)),
              "model-board-exists", (px, py, ox, oy))
    # an Ethernet chip is root + e + 12 * (tx, ty), and conversely
    tx, ty = ctx.int("tx"), ctx.int("ty")
    for ex, ey in ETH:
        ctx.prove(is_eth(ex + 12 * tx, ey + 12 * ty), "model-eth-lattice")
    dx, dy = fx - rx, fy - ry
    ctx.prove(simplies(is_eth(dx, dy), sor(*[
        sand(dx == ex + 12 * ((dx - ex) // 12),
             dy == ey + 12 * ((dy - ey) // 12))
        for ex, ey in ETH])), "model-eth-lattice")
    # the twelve `row` work units cover every chip
    ctx.prove(sor(*[(py - ry) % 12 == k for k in range(12)]),
              "model-rows-cover")
    ctx.observe("ok")


def h_board(ctx, row):
    """spinn5_chip_coord and spinn5_local_eth_coord for every chip, root chip
    and machine size (all symbolic).  `row`: see _row()."""
    from rig.geometry import spinn5_chip_coord, spinn5_local_eth_coord
    x, y = ctx.int("x"), ctx.int("y")
    rx, ry = ctx.int("root_x"), ctx.int("root_y")
    w, h = ctx.int("w", 1), ctx.int("h", 1)
    _row(ctx, y, ry, row)

    cx, cy = spinn5_chip_coord(x, y, rx, ry)
    ex, ey = spinn5_local_eth_coord(x, y, w, h, rx, ry)
    ctx.observe((cx, cy), (ex, ey))
    ctx.witness("called")

    # --- on-board coordinate: a chip of the tile, measured from an
    # Ethernet chip, and no other Ethernet chip has this chip in its tile
    ctx.prove(in_tile(cx, cy), "chip-coord-not-on-board", (x, y, rx, ry,
                                                           cx, cy))
    ox, oy = x - cx, y - cy
    ctx.prove(is_eth(ox - rx, oy - ry), "chip-coord-origin-not-ethernet",
              (x, y, rx, ry, cx, cy))
    fx, fy = ctx.int("fx"), ctx.int("fy")
    ctx.prove(simplies(sand(is_eth(fx - rx, fy - ry),
                            in_tile(x - fx, y - fy)),
                       sand(fx == ox, fy == oy)),
              "chip-coord-board-not-unique", (x, y, rx, ry, fx, fy, ox, oy))
    bx, by = board_of(x, y, rx, ry)
    ctx.prove(sand(bx == ox, by == oy), "chip-coord-wrong-board",
              (x, y, rx, ry, (cx, cy), (x - bx, y - by)))

    # --- local Ethernet chip: that board's Ethernet chip, wrapped into
    # the machine
    ctx.prove(sand(0 <= ex, ex < w, 0 <= ey, ey < h),
              "local-eth-outside-machine", (x, y, w, h, rx, ry, ex, ey))
    ctx.prove(sand(ex == bx % w, ey == by % h), "local-eth-wrong-chip",
              (x, y, w, h, rx, ry, (ex, ey), (bx, by)))
    ctx.prove(simplies(sand(0 <= bx, bx < w, 0 <= by, by < h),
                       sand(ex == bx, ey == by)),
              "local-eth-not-board-origin", (x, y, w, h, rx, ry, (ex, ey),
                                             (bx, by)))


def h_torus(ctx, w, h):
    """Direct (wrap-around) form for a w x h torus of whole 12 x 12 cells:
    the reported chip is an Ethernet chip of the machine, the queried chip is
    in its tile going round the torus, and it is the only such chip."""
    from rig.geometry import spinn5_chip_coord, spinn5_local_eth_coord
    x, y = ctx.int("x"), ctx.int("y")
    rx, ry = ctx.int("root_x"), ctx.int("root_y")
    ex, ey = spinn5_local_eth_coord(x, y, w, h, rx, ry)
    cx, cy = spinn5_chip_coord(x, y, rx, ry)
    ctx.observe((ex, ey), (cx, cy))
    ctx.witness("called")
    ctx.prove(sand(0 <= ex, ex < w, 0 <= ey, ey < h),
              "local-eth-outside-machine", (x, y, w, h, rx, ry, ex, ey))
    ctx.prove(is_eth(ex - rx, ey - ry), "local-eth-not-ethernet-chip",
              (x, y, w, h, rx, ry, ex, ey))
    ctx.prove(in_tile((x - ex) % w, (y - ey) % h),
              "local-eth-chip-not-on-that-board",
              (x, y, w, h, rx, ry, ex, ey))
    ctx.prove(sand((x - ex) % w == cx, (y - ey) % h == cy),
              "chip-coord-not-offset-from-local-eth",
              (x, y, w, h, rx, ry, (ex, ey), (cx, cy)))
    fx, fy = ctx.int("fx", 0, w - 1), ctx.int("fy", 0, h - 1)
    ctx.prove(simplies(sand(is_eth(fx - rx, fy - ry),
                            in_tile((x - fx) % w, (y - fy) % h)),
                       sand(fx == ex, fy == ey)),
              "local-eth-board-not-unique", (x, y, w, h, rx, ry, fx, fy))


def h_fpga(ctx, row):
    """spinn5_fpga_link is None exactly when the link stays on the board."""
    from rig.geometry import spinn5_fpga_link
    from rig.links import Links
    link = ctx.pick(list(Links))
    x, y = ctx.int("x"), ctx.int("y")
    rx, ry = ctx.int("root_x"), ctx.int("root_y")
    _row(ctx, y, ry, row)
    dx, dy = DIRECTION[link.name]
    ctx.prove(tuple(link.to_vector()) == (dx, dy), "link-direction-table",
              link.name)
    r = spinn5_fpga_link(x, y, link, rx, ry)
    ctx.observe(link.name, r)
    ax, ay = board_of(x, y, rx, ry)
    bx, by = board_of(x + dx, y + dy, rx, ry)
    leaves = sor(ax != bx, ay != by)
    if r is None:
        ctx.witness("interior")
        ctx.prove(snot(leaves), "fpga-link-missing-on-board-edge",
                  (x, y, link.name, rx, ry))
    else:
        ctx.witness("edge")
        ctx.prove(leaves, "fpga-link-on-interior-link",
                  (x, y, link.name, rx, ry, r))
        ok = (isinstance(r, tuple) and len(r) == 2 and
              all(isinstance(v, int) for v in r) and
              0 <= r[0] <= 2 and 0 <= r[1] <= 15)
        ctx.prove(ok, "fpga-link-number-range", (link.name, r))


def h_fpga_distinct(ctx):
    """Over all (chip, link) pairs of one board (at any of the three board
    positions, any root, any whole-cell displacement) the links that leave
    the board get pairwise distinct (fpga, link) numbers, and there are
    exactly as many as the description says."""
    from rig.geometry import spinn5_fpga_link
    from rig.links import Links
    ex, ey = ctx.pick(ETH)
    rx, ry = ctx.int("root_x"), ctx.int("root_y")
    kx, ky = ctx.int("kx"), ctx.int("ky")
    ox, oy = rx + ex + 12 * kx, ry + ey + 12 * ky
    chips = [(i, j) for i in range(8) for j in range(8) if in_tile(i, j)]
    seen = {}
    nleaving = 0
    for i, j in chips:
        for link in Links:
            dx, dy = DIRECTION[link.name]
            leaves = not in_tile(i + dx, j + dy)
            nleaving += leaves
            r = spinn5_fpga_link(ox + i, oy + j, link, rx, ry)
            ctx.prove((r is not None) == leaves, "fpga-link-edge-mismatch",
                      ((ex, ey), (i, j), link.name, r))
            if r is not None:
                other = seen.setdefault(tuple(r), (i, j, link.name))
                ctx.prove(other == (i, j, link.name),
                          "fpga-link-number-duplicated",
                          (r, other, (i, j, link.name)))
    ctx.observe(sorted(seen))
    ctx.witness("all-links")
    ctx.prove(len(seen) == nleaving, "fpga-link-count", (len(seen), nleaving))
    # 3 FPGAs x 16 links serve one board: the numbering is a bijection
    ctx.prove(nleaving == 48 and
              set(seen) == {(f, n) for f in range(3) for n in range(16)},
              "fpga-link-numbers-not-a-bijection", sorted(seen))


def h_eth_coords(ctx, wmax, hmax):
    """spinn5_eth_coords = exactly the Ethernet chips inside width x height,
    each once, for every root chip.  width in wmax-11..wmax and height in
    hmax-11..hmax are symbolic (wmax, hmax multiples of 12: the unit covers
    the 144 machine sizes that round up to wmax x hmax)."""
    from rig.geometry import spinn5_eth_coords
    width = ctx.int("width", wmax - 11, wmax)
    height = ctx.int("height", hmax - 11, hmax)
    rx, ry = ctx.int("root_x"), ctx.int("root_y")
    if ctx.choose(2):
        coords = list(spinn5_eth_coords(width, height, rx, ry))
    else:
        # default root chip
        ctx.assume(sand(rx == 0, ry == 0))
        coords = list(spinn5_eth_coords(width, height))
    ctx.observe(coords)
    ctx.witness("listed")
    for nx, ny in coords:
        ctx.prove(sand(0 <= nx, nx < width, 0 <= ny, ny < height),
                  "eth-coords-outside-machine", (width, height, rx, ry,
                                                 nx, ny))
        ctx.prove(is_eth(nx - rx, ny - ry), "eth-coords-not-ethernet-chip",
                  (width, height, rx, ry, nx, ny))
    distinct = [sor(a[0] != b[0], a[1] != b[1])
                for k, a in enumerate(coords) for b in coords[k + 1:]]
    ctx.prove(sand(True, *distinct), "eth-coords-duplicate",
              (width, height, rx, ry, coords))
    # every Ethernet chip inside the machine is listed: an Ethernet chip is
    # root + e + 12 * (tx, ty) for one of the three e and integers tx, ty
    for ex, ey in ETH:
        tx, ty = ctx.int("tx"), ctx.int("ty")
        px, py = rx + ex + 12 * tx, ry + ey + 12 * ty
        inside = sand(0 <= px, px < width, 0 <= py, py < height)
        listed = sor(False, *[sand(px == nx, py == ny) for nx, ny in coords])
        _prove(ctx, simplies(inside, listed), "eth-coords-missing-chip",
               (width, height, rx, ry, px, py, coords))


def _isqrt(n):
    r = 0
    while (r + 1) * (r + 1) <= n:
        r += 1
    return r


def h_dims(ctx, lo, hi):
    """standard_system_dimensions(n).  hi None: the special cases and the
    error for every n >= 0; otherwise every n in [lo, hi]."""
    from rig.geometry import standard_system_dimensions
    n = ctx.int("n", lo, hi)
    if hi is None:
        ctx.assume(sor(n <= 1, n % 3 != 0))
    try:
        r = standard_system_dimensions(n)
    except ValueError:
        ctx.observe("ValueError")
        ctx.witness("error")
        ctx.prove(sand(n % 3 != 0, n != 1), "dims-error-on-valid-count", n)
        return
    except Exception as e:
        ctx.observe(type(e).__name__)
        ctx.prove(False, "dims-unexpected-exception", (n, repr(e)))
        return
    ctx.observe(r)
    ok = isinstance(r, tuple) and len(r) == 2
    ctx.prove(ok, "dims-result-type", repr(r))
    if not ok:
        return
    W, H = r
    special = sor(n == 0, n == 1)
    if is_sym(special):
        special = bool(special)
    if special:
        ctx.witness("special")
        ctx.prove(sand(simplies(n == 0, sand(W == 0, H == 0)),
                       simplies(n == 1, sand(W == 8, H == 8))),
                  "dims-special-case", (n, W, H))
        return
    ctx.witness("triads")
    ok = ctx.prove(n % 3 == 0, "dims-no-error-on-non-multiple-of-3",
                   (n, W, H))
    if hi is None or not ok:
        return
    ctx.prove(sand(W % 12 == 0, H % 12 == 0, W >= 12, H >= 12),
              "dims-not-whole-triads", (n, W, H))
    a, b = W // 12, H // 12
    ctx.prove(3 * a * b == n, "dims-wrong-board-count", (n, W, H))
    ctx.prove(a >= b, "dims-taller-than-wide", (n, W, H))
    # no squarer factorisation: no divisor d of n/3 with b < d <= sqrt(n/3)
    better = [sand(3 * d * d <= n, n % (3 * d) == 0, d > b)
              for d in range(1, _isqrt(hi // 3) + 1)]
    ctx.prove(snot(sor(False, *better)), "dims-not-squarest", (n, W, H))


# ----------------------------------------------------------------------
def units(tier, seed):
    thorough = tier == "thorough"
    if thorough:
        torus = [(w, h) for w in range(12, 97, 12) for h in range(12, 97, 12)]
        eth = [(w, h) for w in (12, 24, 36, 48) for h in (12, 24, 36, 48)
               if w * h <= 36 * 36]
        dims = DIMS_THOROUGH
    else:
        torus = list(TORUS_MENU_QUICK)
        eth = list(ETH_MENU_QUICK)
        dims = DIMS_QUICK
    us = []
    # generous solver / path budgets: nothing here comes near them on an
    # idle machine, they only keep a heavily loaded one from reporting
    # "inconclusive"
    def Unit(*a, **kw):
        kw.setdefault("timeout_ms", 120000)
        kw.setdefault("path_timeout_s", 240)
        return _Unit(*a, **kw)
    # the largest units first: their split prefixes join the end of the queue
    for w, h in sorted(eth, key=lambda wh: -wh[0] * wh[1]):
        us.append(Unit("eth coords up to %dx%d" % (w, h), h_eth_coords,
                       dict(wmax=w, hmax=h), witnesses=("listed",),
                       split=(5 if w * h > 24 * 36 else 4 if w * h > 12 * 24
                              else 0)))
    for row in range(12):
        us.append(Unit("board row %d: chip coord + local eth, symbolic w h"
                       % row, h_board, dict(row=row), witnesses=("called",)))
    us.append(Unit("tile model", h_tile_model))
    us.append(Unit("fpga link numbers distinct", h_fpga_distinct,
                   witnesses=("all-links",), split=1))
    for row in range(12):
        us.append(Unit("fpga link row %d: None iff interior" % row, h_fpga,
                       dict(row=row), witnesses=("interior", "edge")))
    for w, h in torus:
        us.append(Unit("torus %dx%d" % (w, h), h_torus, dict(w=w, h=h),
                       witnesses=("called",)))
    us.append(Unit("dims: special cases and error, all n", h_dims,
                   dict(lo=0, hi=None), witnesses=("error", "special")))
    for m in range(1, dims + 1, DIMS_CHUNK):
        lo, hi = 3 * m, 3 * min(m + DIMS_CHUNK - 1, dims) + 2
        us.append(Unit("dims: n in %d..%d" % (lo, hi), h_dims,
                       dict(lo=lo, hi=hi), witnesses=("error", "triads")))
    return us
