"""sx.runner -- runs the units of one property's harness over a process pool,
filters violations through known_findings.jsonl, writes the evidence file.

usage: python -m sx.runner <ID> [--tier quick|thorough] [--replay FILE]
                                [--jobs N] [--unit SUBSTR]

exit 0  property held on everything explored (KNOWN-FINDING lines allowed)
exit 1  a replayed violation: prints VIOLATION property=<id> replay=<path>
exit 2  inconclusive: solver unknown, engine divergence, harness error,
        vacuous unit -- never to be read as success
"""
import argparse
import hashlib
import importlib
import json
import os
import sys
import time
import traceback
import concurrent.futures as cf

VERIF = os.path.dirname(os.path.dirname(os.path.abspath(__file__)))
REPO = os.environ.get("RIG_REPO", "/repo")


class Unit(object):
    """A family of structures explored completely by one harness function."""
    def __init__(self, name, fn, params=None, split=0, witnesses=(),
                 validate=True, timeout_ms=60000, max_paths=None,
                 max_concretise=4096, path_timeout_s=60):
        self.path_timeout_s = path_timeout_s
        self.name = name
        self.fn = fn
        self.params = params or {}
        self.split = split            # fork depth at which to split, 0 = no
        self.witnesses = tuple(witnesses)
        self.validate = validate
        self.timeout_ms = timeout_ms
        self.max_paths = max_paths
        self.max_concretise = max_concretise


# ----------------------------------------------------------------------
# Worker side
# ----------------------------------------------------------------------
_SEEN = set()
_LINES = set()
_MOD = {}


def _init_worker():
    sys.setrecursionlimit(20000)
    try:
        mon = sys.monitoring
        tool = 3
        mon.use_tool_id(tool, "sx")
        prefix = os.path.join(REPO, "rig") + os.sep

        def on_start(code, offset):
            fn = code.co_filename
            if fn.startswith(prefix) and code.co_flags & 0x1:
                _SEEN.add("%s:%s" % (fn[len(REPO) + 1:], code.co_qualname))
            return mon.DISABLE
        mon.register_callback(tool, mon.events.PY_START, on_start)
        events = mon.events.PY_START
        if os.environ.get("VERIF_LINECOV"):
            # audit aid (tools/linecov.py): which lines of rig ran at all
            def on_line(code, line):
                fn = code.co_filename
                if fn.startswith(prefix):
                    _LINES.add((fn[len(REPO) + 1:], line))
                return mon.DISABLE
            mon.register_callback(tool, mon.events.LINE, on_line)
            events |= mon.events.LINE
        mon.set_events(tool, events)
    except Exception:
        pass


def _load(prop, tier, seed):
    key = (prop, tier, seed)
    if key not in _MOD:
        mod = importlib.import_module("harness.%s" % prop.lower())
        _MOD[key] = (mod, mod.units(tier, seed))
    return _MOD[key]


def _run_task(task):
    from sx import engine as E
    prop, tier, seed, ui, prefix, frontier_depth = task
    mod, units = _load(prop, tier, seed)
    u = units[ui]
    eng = E.Engine(timeout_ms=u.timeout_ms, validate=u.validate,
                   max_paths=u.max_paths, max_concretise=u.max_concretise,
                   path_timeout_s=u.path_timeout_s,
                   known=[d["signature"] for d in load_known(prop)])
    eng.witnessed = set()
    # second-opinion sample: proof queries per task re-decided by z3 4.8.12
    if os.path.exists(E.XCHECK_SOLVER):
        eng.xcheck_left = int(os.environ.get(
            "VERIF_XCHECK", "3" if tier == "thorough" else "1"))
    res = {"unit": ui, "status": "ok", "frontier": None, "error": None}
    t0 = time.time()

    def h(ctx):
        return u.fn(ctx, **u.params)
    try:
        fr = eng.explore(h, prefix=prefix, frontier_depth=frontier_depth)
        res["frontier"] = fr
    except E.Stopped:
        res["status"] = "stopped"
    except E.Inconclusive as e:
        res["status"] = "inconclusive"
        res["error"] = "%s: %s" % (type(e).__name__, e)
        res["trace"] = list(getattr(eng, "trace", []))[:80]
    except BaseException as e:        # harness or engine bug
        res["status"] = "error"
        res["error"] = "".join(traceback.format_exception(
            type(e), e, e.__traceback__))[-3000:]
    res["stats"] = eng.stats.as_dict()
    res["violations"] = [v.as_dict() for v in eng.violations]
    res["divergences"] = eng.divergences[:5]
    res["ndivergences"] = len(eng.divergences)
    res["samples"] = eng.samples[:3]
    res["witnessed"] = sorted(eng.witnessed)
    res["functions"] = sorted(_SEEN)
    if os.environ.get("VERIF_LINECOV"):
        res["lines"] = sorted(_LINES)
    res["wall"] = time.time() - t0
    return res


# ----------------------------------------------------------------------
# Known findings
# ----------------------------------------------------------------------
def load_known(prop):
    known = []
    p = os.path.join(VERIF, "known_findings.jsonl")
    if os.path.exists(p):
        for line in open(p):
            line = line.strip()
            if not line or line.startswith("#"):
                continue
            d = json.loads(line)
            if d.get("property") == prop and d.get("status") == "known":
                known.append(d)
    return known


def replay_path(prop, rec):
    h = hashlib.sha1(json.dumps(rec, sort_keys=True,
                                default=repr).encode()).hexdigest()[:12]
    d = os.path.join(VERIF, "replays", prop)
    os.makedirs(d, exist_ok=True)
    p = os.path.join(d, h + ".json")
    with open(p, "w") as f:
        json.dump(rec, f, indent=1, default=repr)
    return p


# ----------------------------------------------------------------------
def do_replay(prop, path):
    from sx import engine as E
    rec = json.load(open(path))
    mod, units = _load(prop, rec["tier"], rec["seed"])
    u = [x for x in units if x.name == rec["unit"]][0]
    eng = E.Engine()
    eng.witnessed = set()

    def h(ctx):
        return u.fn(ctx, **u.params)
    try:
        obs, cv = eng.run_concrete(h, E._decode_inputs(rec["inputs"]),
                                   rec["choices"],
                                   pad_choices=rec["label"] == "nontermination")
    except E.PathTimeout:
        print("violated: nontermination (no return within %ss)" %
              eng.concrete_timeout_s)
        print("VIOLATION property=%s replay=%s" % (prop, path))
        return 1
    print("replay unit=%s inputs=%s choices=%s" % (
        rec["unit"], rec["inputs"], rec["choices"]))
    print("observed:", E._short(obs, 2000))
    if cv is not None:
        print("violated: %s %s" % (cv.label, E._short(cv.detail, 2000)))
        print("VIOLATION property=%s replay=%s" % (prop, path))
        return 1
    print("no violation on replay")
    return 0


def main(argv=None):
    ap = argparse.ArgumentParser()
    ap.add_argument("prop")
    ap.add_argument("--tier", default=os.environ.get("VERIF_TIER", "quick"))
    ap.add_argument("--replay")
    ap.add_argument("--jobs", type=int, default=int(
        os.environ.get("VERIF_JOBS", str(min(16, os.cpu_count() or 1)))))
    ap.add_argument("--unit", default=None)
    ap.add_argument("--no-evidence", action="store_true")
    a = ap.parse_args(argv)
    prop = a.prop.upper()
    tier = a.tier if a.tier in ("quick", "thorough") else "quick"
    seed = int(os.environ.get("VERIF_SEED", "0") or 0)
    sys.setrecursionlimit(20000)

    if a.replay:
        _init_worker()
        return do_replay(prop, a.replay)

    t0 = time.time()
    mod, units = _load(prop, tier, seed)
    sel = [i for i, u in enumerate(units)
           if a.unit is None or a.unit in u.name]
    results = {i: [] for i in sel}
    problems = []
    stopped = False
    import multiprocessing as mp
    ctx = mp.get_context("fork")
    from sx import engine as E
    E.STOP_EVENT[0] = ctx.Event()
    with cf.ProcessPoolExecutor(max_workers=a.jobs, mp_context=ctx,
                                initializer=_init_worker) as ex:
        pending = set()
        for i in sel:
            u = units[i]
            fd = u.split if u.split else None
            pending.add(ex.submit(_run_task, (prop, tier, seed, i, [], fd)))
        # a run that does not end (a change to rig can make a harness
        # branch on every bit of a 32-bit value) is cut off and reported as
        # inconclusive rather than left running
        wall_cap = float(os.environ.get(
            "VERIF_WALL_S", "1800" if tier == "quick" else "21600"))
        while pending:
            done, pending = cf.wait(pending, timeout=5,
                                    return_when=cf.FIRST_COMPLETED)
            if time.time() - t0 > wall_cap and not E.STOP_EVENT[0].is_set():
                E.STOP_EVENT[0].set()
                problems.append("wall-clock budget of %d s exceeded: the "
                                "remaining units were abandoned" % wall_cap)
            for f in done:
                try:
                    r = f.result()
                except BaseException as e:
                    problems.append("worker died: %r" % (e,))
                    continue
                results[r["unit"]].append(r)
                if E.STOP_EVENT[0].is_set():
                    continue
                for pre in (r["frontier"] or []):
                    pending.add(ex.submit(
                        _run_task, (prop, tier, seed, r["unit"], pre, None)))

    # ---------------- aggregate ----------------
    from sx.engine import Stats
    total = Stats()
    functions = set()
    unit_reports = []
    violations = []
    samples = []
    for i in sel:
        u = units[i]
        st = Stats()
        wit = set()
        for r in results[i]:
            st.add(r["stats"])
            functions.update(r["functions"])
            if r.get("lines"):
                _LINES.update(tuple(x) for x in r["lines"])
            wit.update(r["witnessed"])
            if r["status"] == "stopped":
                stopped = True
            elif r["status"] != "ok":
                problems.append("unit %s: %s: %s" % (
                    u.name, r["status"], r["error"]))
            if r["ndivergences"]:
                problems.append("unit %s: %d engine divergences, e.g. %s" % (
                    u.name, r["ndivergences"],
                    json.dumps(r["divergences"][0], default=repr)[:1500]))
            for v in r["violations"]:
                v["unit"] = u.name
                violations.append(v)
            if len(samples) < 6 and r["samples"]:
                s = dict(r["samples"][0])
                s["unit"] = u.name
                samples.append(s)
        if E.STOP_EVENT[0].is_set():
            pass
        elif st.paths - st.vacuous <= 0:
            problems.append("unit %s: no non-vacuous path" % u.name)
        elif st.proved == 0:
            problems.append("unit %s: no proof obligation reached" % u.name)
        missing = [w for w in u.witnesses if w not in wit]
        if missing and not E.STOP_EVENT[0].is_set():
            problems.append("unit %s: vacuity witnesses not reached: %s" %
                            (u.name, missing))
        total.add(st)
        unit_reports.append({"unit": u.name, "paths": st.paths,
                             "vacuous": st.vacuous, "branches": st.branches,
                             "proved": st.proved, "validated": st.validated,
                             "solver_s": round(st.solver_s, 2),
                             "witnessed": sorted(wit)})

    # ---------------- violations ----------------
    known = load_known(prop)
    new_viol = []
    known_hit = {}
    for v in violations:
        if not v["confirmed"]:
            problems.append(
                "unit %s: solver counterexample for %r did not reproduce on "
                "the real code (encoding or stub at fault): %s" % (
                    v["unit"], v["label"], json.dumps(
                        v, default=repr)[:1500]))
            continue
        k = [d for d in known if d["signature"] == v["label"]]
        if k:
            known_hit.setdefault(v["label"], (k[0], v))
        else:
            new_viol.append(v)
    for sig, (d, v) in sorted(known_hit.items()):
        print("KNOWN-FINDING: property=%s %s" % (prop, d["what"]))
    printed = set()
    for v in new_viol:
        if v["label"] in printed:
            continue
        printed.add(v["label"])
        rec = {"property": prop, "tier": tier, "seed": seed,
               "unit": v["unit"], "label": v["label"],
               "inputs": v["inputs"], "choices": v["choices"],
               "detail": v["detail"]}
        p = replay_path(prop, rec)
        print("violated: %s (unit %s) inputs=%s detail=%s" % (
            v["label"], v["unit"], json.dumps(v["inputs"])[:600],
            v["detail"]))
        print("VIOLATION property=%s replay=%s" % (prop, p))

    wall = time.time() - t0
    meta = getattr(mod, "META", {})
    ev = {
        "property_id": prop, "tier": tier, "seed": seed,
        "level": "model_checking",
        "coverage": {
            "states": total.paths - total.vacuous,
            "transitions": total.branches + total.forks,
            "traces_validated_against_impl": total.validated,
            "samples": samples or [{"note": "no sample recorded"}],
            "exhaustive": not problems and not E.STOP_EVENT[0].is_set(),
            "units": unit_reports,
            "queries": {"sat": total.sat, "unsat": total.unsat,
                        "unknown": total.unknown,
                        "asked_again_from_scratch": total.rechecks},
            "obligations_discharged": total.proved,
            "solver_s": round(total.solver_s, 2),
            "second_solver": {
                "solver": "z3 4.8.12 binary via SMT-LIB export",
                "proof_queries_rechecked": total.xchecked,
                "agreeing": total.xchecked,
                "second_solver_unknown_or_unsupported": total.xunknown},
            "functions_encoded": sorted(functions),
            "bounds": meta.get("bounds", ""),
            "stubs": meta.get("stubs", []),
            "outside_claim": meta.get("outside_claim", []),
            "engine": "sx path-wise symbolic execution of the real Python "
                      "functions, z3 %s" % _z3_version(),
            "known_findings_reported": sorted(known_hit),
            "problems": problems[:20],
        },
        "assumptions": meta.get("assumptions", []),
        "wall_s": round(wall, 2),
        "violations": len(printed),
    }
    extra = getattr(mod, "extra_evidence", None)
    if extra is not None:
        try:
            ev["coverage"].update(extra())
        except Exception as e:       # pragma: no cover
            problems.append("extra_evidence failed: %r" % (e,))
    if os.environ.get("VERIF_LINECOV"):
        d = os.environ["VERIF_LINECOV"]
        os.makedirs(d, exist_ok=True)
        with open(os.path.join(d, "%s.%s.json" % (prop, tier)), "w") as f:
            json.dump(sorted(_LINES), f)
    if not a.no_evidence and a.unit is None:
        os.makedirs(os.path.join(VERIF, "evidence"), exist_ok=True)
        with open(os.path.join(VERIF, "evidence", prop + ".json"), "w") as f:
            json.dump(ev, f, indent=1, default=repr)
    if os.environ.get("VERIF_VERBOSE"):
        for ur in unit_reports:
            print("  unit %-70s paths=%-7d solver=%.1fs" % (
                ur["unit"], ur["paths"], ur["solver_s"]))
    print("%s %s: units=%d paths=%d (vacuous %d) branches=%d proved=%d "
          "validated=%d sat/unsat/unknown=%d/%d/%d solver=%.1fs wall=%.1fs"
          % (prop, tier, len(sel), total.paths, total.vacuous, total.branches,
             total.proved, total.validated, total.sat, total.unsat,
             total.unknown, total.solver_s, wall))
    if printed:
        return 1
    if problems:
        for p in problems[:20]:
            print("INCONCLUSIVE: " + p)
        return 2
    return 0


def _z3_version():
    import z3
    return z3.get_version_string()


if __name__ == "__main__":
    sys.exit(main())
