import random, sys, warnings, itertools, collections, struct
warnings.simplefilter("ignore")
random.seed(1)
from rig.machine_control.machine_controller import SystemInfo, ChipInfo
from rig.machine_control.consts import AppState
from rig.place_and_route.utils import build_machine, build_core_constraints
from rig.place_and_route import Cores, SDRAM, SRAM
from rig.links import Links
bad = 0
for it in range(3000):
    w, h = random.randint(1, 3), random.randint(1, 3)
    si = SystemInfo(w, h)
    common = [random.choice([AppState.idle, AppState.run]) for _ in range(18)]
    for x in range(w):
        for y in range(h):
            if random.random() < .2: continue
            nc = random.choice([18, 18, 17, 16, 1])
            st = [s if random.random() < .8 else random.choice(list(AppState)) for s in common][:nc]
            si[(x, y)] = ChipInfo(num_cores=nc, core_states=st, working_links=set(l for l in Links if random.random() < .8),
                                  largest_free_sdram_block=random.choice([100, 200]), largest_free_sram_block=random.choice([10, 20]))
    m = build_machine(si)
    if set(m) != set(si): bad += 1; print("chips")
    for c in si:
        if m[c] != {Cores: si[c].num_cores, SDRAM: si[c].largest_free_sdram_block, SRAM: si[c].largest_free_sram_block}: bad += 1; print("res", c)
    if set(m.iter_links()) != set(si.links()): bad += 1; print("links")
    cons = build_core_constraints(si)
    for c in si:
        cover = collections.Counter()
        for k in cons:
            if k.location is None or k.location == c:
                for p in range(k.reservation.start, k.reservation.stop): cover[p] += 1
        exp = set(p for p, s in enumerate(si[c].core_states) if s != AppState.idle)
        got = set(p for p in cover if p < si[c].num_cores)
        if got != exp or any(v > 1 for v in cover.values()) or any(p >= si[c].num_cores for p in cover):
            bad += 1; print("cons", c, sorted(cover.items()), sorted(exp), si[c].num_cores); break
print("C14 builders bad", bad)
