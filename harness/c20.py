"""C20 -- boot sends the complete image carrying this call's options only.

Runs the real `rig.machine_control.boot.boot` (and through it `boot_packet`,
`struct_file.read_struct_file`, `Struct.update_default_values`, `Struct.pack`;
one unit goes through `MachineController.boot`) one, two or three times in a
row inside ONE path, with the value of every overridden system variable and
every clock reading symbolic, against a socket that records the datagrams.

The oracle is written down here independently of the code under test:

* the struct file is parsed by this module's own parser (`parse_struct_file`),
  the expected configuration area is packed by this module's own little-endian
  packer from (this call's option, else the clock for unix_time/boot_sig, else
  1 for root_chip, else the file's default) per field;
* the wire format of the boot protocol (SpiNNaker boot ROM, as documented in
  rig's BootCommand): every datagram starts with a big-endian header
      u16 protocol version = 1, u32 opcode, u32 arg1, u32 arg2, u32 arg3
  start: opcode 1, arg3 = number of blocks - 1;
  block: opcode 3, arg1 = (words - 1) << 8 | block number, then the block's
         words, each sent most significant byte first (the image is little
         endian, so every group of four bytes is reversed);
  end:   opcode 5, arg1 = 1.

Non-interference is proved in its strong form: the datagrams of a later boot
are proved equal to a reference that is computed for that boot alone and does
not mention any symbolic option value of an earlier boot, for all values of
those options at once.  (A leak makes the later datagram a function of the
earlier option variable and the solver returns a value that shows it.)
"""
import os
import random
import shutil
import tempfile

from sx.runner import Unit
from sx.proxies import sand, sor, is_sym, SymBytes, SymByteArray
from sx.engine import cur

PROPERTY = "C20"

BLOCK = 1024              # bytes per block (documented: at most 1 KiB)
CONF_OFFSET = 384         # configuration area [384, 512) of the image
CONF_LENGTH = 128
SIZE_LIMIT = 32 * 1024    # the image must be smaller than DTCM

META = {
    "bounds": "histories of 1, 2 and 3 boots in one process (all boots of a "
              "history run inside one path); per boot the option set is one "
              "of: none, each of the five spinN_boot_options presets, 1 or 2 "
              "arbitrary system variables (quick: 19 fields covering every "
              "pack type, both ends of the configuration area, fields beyond "
              "byte 128, a field named like a boot() parameter and the "
              "fields boot() sets itself; thorough: every field of the "
              "bundled sv struct, every field also as first boot of a "
              "history) whose VALUES are symbolic over the field's full "
              "width (8/16/32 bits), passed via **kwargs, via sv_overrides= "
              "or split over both; in the refused-options unit also values "
              "one bit WIDER than the field (9/17/33-bit symbolic values for "
              "hw_ver, cpu_clk, utmp0) and an unknown field name, followed "
              "by a clean boot; both clock readings of every boot "
              "symbolic 32-bit integers; boot images: temporary files of "
              "512, 1024, 1028, 2048, 3068 bytes and of the largest legal "
              "size 32764 bytes with CONCRETE pseudo-random content (a real "
              "file holds concrete bytes), the bundled scamp.boot (27168 "
              "bytes, 27 blocks, short last block), a 32768-byte file (must "
              "be refused before anything is sent); one unit replaces the "
              "image by 1028 (thorough: also 2048) fully SYMBOLIC bytes "
              "through a stub of open(); struct files: the bundled "
              "sark.struct and a synthetic one with unaligned fields and a "
              "word straddling byte 128 of the sv struct; boot() called "
              "directly and (one unit) through MachineController.boot",
    "stubs": [
        "boot.socket: module object whose socket() returns a recorder "
        "(connect/send/sendto/close logged, nothing transmitted)",
        "boot.time: time() returns a fresh symbolic 32-bit integer per call "
        "(a float with that value in concrete mode), sleep() only logs",
        "boot.int: pass-through for symbolic values, the real int otherwise "
        "(int(SymInt) would concretise); so the truncation int(time.time()) "
        "of a fractional clock is not modelled",
        "boot.struct and struct_file.struct: sx.shims.struct",
        "boot.bytearray / boot.bytes / struct_file.bytearray / "
        "struct_file.bytes: SymByteArray / SymBytes constructors in symbolic "
        "mode (same slicing, slice assignment with resize, concatenation), "
        "the real types in concrete mode",
        "boot.open (symbolic-image units only): returns the symbolic image "
        "for the image's file name and the real open() otherwise",
        "machine_controller.SCPConnection (MachineController unit only): "
        "replaced by a dummy so that constructing a controller opens no "
        "socket",
    ],
    "assumptions": [
        "boot protocol wire layout as in this module's docstring (rig's "
        "BootCommand documentation); the arguments documented as unused are "
        "demanded to be zero",
        "the word-count field of a block header (arg1 bits 31:8) must be "
        "255 for a full block; for a short last block both 255 (what the "
        "code sends) and words-1 (what the BootCommand docstring says) are "
        "accepted: observed 255, also for the bundled image",
        "size limit: an image of 32 KiB (DTCM size) or more must be refused "
        "before anything is sent; read from the code's assert",
        "unix_time, boot_sig and root_chip are set by boot() itself (a clock "
        "reading of this call, a clock reading of this call, 1) and take "
        "precedence over a caller's value for the same field: read from the "
        "code, the documentation is silent",
        "a system variable whose name is also a parameter of boot() "
        "(boot_delay) or not an identifier (shm_root.free) can only be "
        "overridden through sv_overrides= / a ** mapping; done so here",
        "two clock readings per boot, unrelated symbolic values (no "
        "monotonicity needed)",
        "non-interference is proved as equality of every later boot's "
        "datagrams and returned structs with a reference that mentions "
        "none of the earlier boots' symbolic option values, for all values "
        "at once; in addition boot()'s mutable default arguments are "
        "proved empty at the start and at the end of every path (module "
        "state persists between the paths run by one worker process) and "
        "restored after a report",
        "an option value that does not fit its system variable cannot be "
        "'applied': a boot that ACCEPTS it is held to the whole property, "
        "so the field on the wire and the returned struct's default must "
        "both equal the value asked for as integers (a silently truncated "
        "value is a violation: boot-option-truncated / "
        "boot-returned-struct-differs-from-sent); a boot that refuses it "
        "must leave the caller's dictionary and the NEXT boot unaffected",
        "observed, not claimed: WHICH exception refuses an over-wide value "
        "(struct.error today), an unknown field name (KeyError today) or an "
        "oversize image (AssertionError today), and that unknown names are "
        "refused at all; required as vacuity witness only: some over-wide "
        "value is refused and some is accepted (the in-range half of a "
        "field-width+1-bit symbolic value)",
    ],
    "outside_claim": [
        "image content other than the pseudo-random files and the bundled "
        "image, except for the symbolic-image lengths listed; image lengths "
        "other than those listed",
        "images whose length is not a multiple of 4 (boot_packet asserts "
        "word-sized data only after the start datagram and the full blocks "
        "went out and leaves the socket open; explored and observed in the "
        "'observed' unit, not claimed) and images shorter than 512 bytes "
        "(the splice would extend them)",
        "clock readings >= 2**32 (struct.error), fractional clocks",
        "struct files whose sv struct is smaller than 128 bytes (assert) or "
        "has overlapping fields",
        "the same variable given both in sv_overrides and as a keyword (the "
        "keyword wins in the code; undocumented)",
        "histories longer than 3 boots; more than 2 overridden fields "
        "besides the presets; pairs of fields other than the rotation used",
        "state leaking between processes or through anything other than "
        "the datagrams, the returned structs, the caller's dictionary, the "
        "preset dictionaries and boot()'s default arguments",
    ],
}

PRESETS = ("spin1_boot_options", "spin2_boot_options", "spin3_boot_options",
           "spin4_boot_options", "spin5_boot_options")
BOOT_PARAMS = ("hostname", "boot_port", "scamp_binary", "sark_struct",
               "boot_delay", "post_boot_delay", "sv_overrides")
CLOCK_FIELDS = ("unix_time", "boot_sig")


# ----------------------------------------------------------------------
# Independent reading of a struct file
# ----------------------------------------------------------------------
PERL_SIZE = {"C": 1, "c": 1, "v": 2, "V": 4}
PERL_TO_PY = {"A": "s", "c": "b", "C": "B", "v": "H", "V": "I"}


def _num(tok):
    tok = tok.strip()
    if tok[:2] in ("0x", "0X"):
        return int(tok[2:], 16)
    return int(tok, 10)


def parse_struct_file(text):
    """{struct name: {"size":, "base":, "entries": [(field, perl pack char,
    count or None, offset, default, array length)]}} in file order."""
    out = {}
    cur_ = None
    for line in text.splitlines():
        line = line.split("#", 1)[0].strip()
        if not line:
            continue
        toks = line.split()
        if len(toks) == 3 and toks[1] == "=":
            if toks[0] == "name":
                cur_ = out[toks[2]] = {"size": None, "base": None,
                                       "entries": []}
            else:
                cur_[toks[0]] = _num(toks[2])
        elif len(toks) == 5:
            field, pack, offset, _printf, default = toks
            length = 1
            if field.endswith("]"):
                field, ln = field[:-1].split("[")
                length = int(ln)
            count = None
            if len(pack) > 1:
                pack, count = pack[0], int(pack[1:])
            cur_["entries"].append((field, pack, count, _num(offset),
                                    _num(default), length))
        else:
            raise ValueError("struct file line not understood: %r" % line)
    return out


def _last_entries(entries):
    """name -> entry; a name defined twice keeps its last definition (the
    bundled sv struct defines __PAD4 twice)."""
    return {e[0]: e for e in entries}


_BUNDLED = {}


def _bundled(repo_boot_dir):
    if repo_boot_dir not in _BUNDLED:
        with open(os.path.join(repo_boot_dir, "sark.struct"), "rb") as f:
            text = f.read()
        with open(os.path.join(repo_boot_dir, "scamp.boot"), "rb") as f:
            image = f.read()
        _BUNDLED[repo_boot_dir] = (text, image)
    return _BUNDLED[repo_boot_dir]


SYNTHETIC_STRUCT = b"""
# synthetic struct file: unaligned fields, a word straddling byte 128
name = other
size = 8
base = 0x10
x           V  0x00  %d    3
tag         A4 0x04  %s    0

name = sv
size = 140
base = 0xf5007f00

first       C  0x00  %d    7
odd_half    v  0x01  %04x  0xbeef      # unaligned halfword
odd_word    V  0x03  %08x  0x01020304  # unaligned word
unix_time   V  0x08  %08x  0x11111111
hw_ver      C  0x0c  %d    9
boot_sig    V  0x10  %08x  5
root_chip   C  0x17  %d    0
led0        V  0x20  %08x  0xcafef00d
mid         v  0x40  %d    513
near_end    C  0x7d  %02x  0x5a
straddle    V  0x7e  %08x  0xa1b2c3d4  # only its two low bytes are in [0,128)
beyond      v  0x84  %d    77
tail[3]     C  0x88  %d    1
"""


# ----------------------------------------------------------------------
# Byte-level helpers: ordinary Python operators only (proxies or ints)
# ----------------------------------------------------------------------
def _le(v, n):
    return [(v >> (8 * i)) & 0xff for i in range(n)]


def _be(v, n):
    return list(reversed(_le(v, n)))


def _items(b):
    return [b[i] for i in range(len(b))]


def _word_le(bs):
    v = bs[0]
    for i in range(1, len(bs)):
        v = v | (bs[i] << (8 * i))
    return v


def _eq_items(got, exp):
    """Non-forking equality of two lists of byte values."""
    if len(got) != len(exp):
        return False
    conds = []
    for g, e in zip(got, exp):
        if isinstance(g, int) and isinstance(e, int):
            if g != e:
                return False
        else:
            conds.append(g == e)
    return sand(*conds) if conds else True


def _image_bytes(size, seed):
    return random.Random("c20 image %d %d" % (size, seed)).randbytes(size)


# ----------------------------------------------------------------------
# Stubs
# ----------------------------------------------------------------------
_MISSING = object()


class Patcher(object):
    def __init__(self):
        self.saved = []

    def set(self, mod, name, value):
        self.saved.append((mod, name, mod.__dict__.get(name, _MISSING)))
        setattr(mod, name, value)

    def restore(self):
        for mod, name, old in reversed(self.saved):
            if old is _MISSING:
                if name in mod.__dict__:
                    delattr(mod, name)
            else:
                setattr(mod, name, old)
        self.saved = []


def _symbolic_mode():
    e = cur()
    return e is not None and e.symbolic


def _bytearray(*args):
    if _symbolic_mode():
        if not args:
            return SymByteArray([])
        (a,) = args
        if isinstance(a, int):
            return SymByteArray([0] * a)
        return SymByteArray(a)
    return bytearray(*args)


def _bytes(*args):
    if _symbolic_mode():
        if not args:
            return b""
        (a,) = args
        if isinstance(a, SymBytes):
            if a.is_concrete():
                return bytes(a.items)
            return SymBytes(a)
    return bytes(*args)


def _int(*args):
    if len(args) == 1 and is_sym(args[0]):
        return args[0]
    return int(*args)


class BootLog(object):
    """Everything one boot() call did to the outside world."""
    def __init__(self):
        self.sockets = []       # RecSocket objects created
        self.events = []        # ("send", socket index, data) in order
        self.readings = []      # clock readings
        self.sleeps = []
        self.fail_at = None     # the send attempt that reports a stale
        self.attempts = 0       # "connection refused" (nothing goes out)


class RecSocket(object):
    def __init__(self, log, args):
        self.log = log
        self.args = args
        self.peer = None
        self.closed = False
        self.sent_after_close = False
        self.index = len(log.sockets)
        log.sockets.append(self)

    def connect(self, addr):
        self.peer = addr

    def _record(self, data, addr):
        n = self.log.attempts
        self.log.attempts = n + 1
        if n == self.log.fail_at:
            import errno
            raise OSError(errno.ECONNREFUSED, "Connection refused")
        if self.closed:
            self.sent_after_close = True
        self.log.events.append((self.index, data, addr))
        return len(data)

    def send(self, data, *flags):
        return self._record(data, self.peer)

    def sendall(self, data, *flags):
        self._record(data, self.peer)

    def sendto(self, data, *rest):
        return self._record(data, rest[-1])

    def setblocking(self, flag):
        pass

    def settimeout(self, t):
        pass

    def close(self):
        self.closed = True


class World(object):
    """The fake socket and time modules; `log` is switched per boot."""
    def __init__(self, ctx):
        import socket as real_socket
        world = self
        self.ctx = ctx
        self.log = None

        class SocketModule(object):
            AF_INET = real_socket.AF_INET
            SOCK_DGRAM = real_socket.SOCK_DGRAM
            SOCK_STREAM = real_socket.SOCK_STREAM
            error = real_socket.error
            timeout = real_socket.timeout

            @staticmethod
            def socket(*args):
                return RecSocket(world.log, args)

        class TimeModule(object):
            @staticmethod
            def time():
                t = ctx.bv("clock", 32)
                world.log.readings.append(t)
                # the real clock is a float
                return t if ctx.symbolic else float(t)

            @staticmethod
            def sleep(s):
                world.log.sleeps.append(s)
        self.socket_module = SocketModule
        self.time_module = TimeModule
        self.AF_INET = real_socket.AF_INET
        self.SOCK_DGRAM = real_socket.SOCK_DGRAM


def _default_dicts(bootmod):
    f = bootmod.boot
    ds = [d for d in (f.__defaults__ or ()) if isinstance(d, dict)]
    ds += [d for d in (f.__kwdefaults__ or {}).values()
           if isinstance(d, dict)]
    return ds


def _check_defaults(ctx, bootmod):
    """boot()'s mutable default arguments are (still) empty.  A polluted
    default is restored *after* having been reported, so that one leak is not
    reported again by every later path of this worker process."""
    dirty = [d for d in _default_dicts(bootmod) if len(d)]
    keys = sorted(str(k) for d in dirty for k in d)
    for d in dirty:
        d.clear()
    ctx.prove(not dirty, "boot-default-argument-mutated", keys)


# ----------------------------------------------------------------------
# Options
# ----------------------------------------------------------------------
def _field_bits(layout, name):
    e = layout.get(name)
    return 8 * PERL_SIZE[e[1]] if e is not None else 32


def _make_options(ctx, bootmod, layout, optset, tag):
    """[(name, value)] for an option-set description.  Tokens:
    ("preset", attr) / ("sym", field) / ("wide", field) / ("unknown", name)"""
    out = []
    for kind, what in optset:
        if kind == "preset":
            out.extend(sorted(getattr(bootmod, what).items()))
        elif kind == "sym":
            out.append((what, ctx.bv("%s.%s" % (tag, what),
                                     _field_bits(layout, what))))
        elif kind == "wide":
            out.append((what, ctx.bv("%s.%s" % (tag, what),
                                     _field_bits(layout, what) + 1)))
        elif kind == "unknown":
            out.append((what, ctx.bv("%s.%s" % (tag, what), 8)))
        else:
            raise ValueError(kind)
    return out


def _split_options(options, mode):
    """(sv_overrides dict or None, kwargs dict) for a passing mode."""
    must_dict = [(n, v) for n, v in options
                 if n in BOOT_PARAMS or not n.isidentifier()]
    free = [(n, v) for n, v in options
            if not (n in BOOT_PARAMS or not n.isidentifier())]
    if mode == "kwargs":
        in_dict, in_kw = must_dict, free
    elif mode == "dict":
        in_dict, in_kw = list(options), []
    elif mode == "split":
        in_dict, in_kw = must_dict + free[:1], free[1:]
    else:
        raise ValueError(mode)
    d = dict(in_dict) if (in_dict or mode != "kwargs") else None
    return d, dict(in_kw)


# ----------------------------------------------------------------------
# One boot and its oracle
# ----------------------------------------------------------------------
class Env(object):
    pass


def _do_boot(ctx, env, image, optset, mode, tag, port, via_mc=False,
             fail_at=None):
    """Call the real boot() once.  Returns a record."""
    bootmod = env.bootmod
    layout = env.layout
    rec = Env()
    rec.tag = tag
    rec.log = env.world.log = BootLog()
    rec.log.fail_at = fail_at
    rec.image = image
    rec.port = port
    rec.host = "board-%s" % tag
    rec.optset = optset
    rec.options = _make_options(ctx, bootmod, layout, optset, tag)
    rec.caller_dict, kwargs = _split_options(rec.options, mode)
    rec.caller_snapshot = (None if rec.caller_dict is None
                           else dict(rec.caller_dict))
    rec.structs = None
    rec.error = None
    rec.mc = None
    call = {}
    if image is not None:
        call["scamp_binary"] = env.image_file(image)
    if env.struct_file is not None:
        call["sark_struct"] = env.struct_file
    if rec.caller_dict is not None:
        call["sv_overrides"] = rec.caller_dict
    call.update(kwargs)
    try:
        if via_mc:
            rec.mc = env.mcmod.MachineController(rec.host, boot_port=port)
            r = rec.mc.boot(only_if_needed=False, check_booted=False, **call)
            ctx.prove(r is True, "boot-controller-return-value", repr(r))
            rec.structs = rec.mc.structs
        else:
            rec.structs = bootmod.boot(rec.host, port, **call)
    except Exception as e:
        rec.error = e
    return rec


def _expected_values(rec, entries):
    """name -> expected default of every sv field after this call (clock
    fields excepted: they are checked against the readings)."""
    vals = {e[0]: e[4] for e in entries}
    for name, v in rec.options:
        vals[name] = v
    vals["root_chip"] = 1
    return vals


def _expected_area(vals, entries, size):
    """The first `size` bytes of the packed struct, and the set of byte
    positions that belong to a clock field."""
    area = [0] * size
    clock_pos = {}
    # a name defined twice: only its last definition exists
    for (name, pack, count, offset, default, length) in \
            _last_entries(entries).values():
        n = PERL_SIZE[pack]
        if count is not None:
            raise ValueError("counted pack in sv not supported by the oracle")
        if name in CLOCK_FIELDS:
            for i in range(n):
                if offset + i < size:
                    clock_pos[offset + i] = (name, i)
            continue
        v = vals[name]
        bs = _le(v, n)
        for i in range(n):
            if offset + i < size:
                area[offset + i] = bs[i]
    return area, clock_pos


def _check_boot(ctx, env, rec, first):
    """All of the property for one boot, given what it was asked to do."""
    L = "" if first else "-later-boot"
    tag = rec.tag
    log = rec.log
    image = rec.image_bytes
    sv_entries = env.structs_ref["sv"]["entries"]
    datagrams = [d for (_, d, _) in log.events]
    ctx.observe(tag, "ok" if rec.error is None else type(rec.error).__name__,
                datagrams, list(log.sleeps))
    if rec.error is not None:
        ctx.prove(False, "boot-raised" + L, repr(rec.error))
        return
    ctx.witness("booted")

    # ---- the socket ----------------------------------------------------
    ok_sock = (len(log.sockets) == 1 and
               tuple(log.sockets[0].args[:2]) == (env.world.AF_INET,
                                                  env.world.SOCK_DGRAM) and
               log.sockets[0].closed and
               not log.sockets[0].sent_after_close and
               all(a == (rec.host, rec.port) for (_, _, a) in log.events))
    ctx.prove(ok_sock, "boot-socket-use",
              [(s.args, s.peer, s.closed) for s in log.sockets])

    # ---- datagram sequence ---------------------------------------------
    n = (len(image) + BLOCK - 1) // BLOCK
    ctx.prove(len(datagrams) == n + 2, "boot-datagram-count" + L,
              (len(datagrams), n + 2))
    if len(datagrams) != n + 2:
        return
    start = _items(datagrams[0])
    ctx.prove(_eq_items(start, [0, 1] + _be(1, 4) + _be(0, 4) + _be(0, 4) +
                        _be(n - 1, 4)),
              "boot-start-datagram" + L, datagrams[0])
    end = _items(datagrams[-1])
    ctx.prove(_eq_items(end, [0, 1] + _be(5, 4) + _be(1, 4) + _be(0, 4) +
                        _be(0, 4)),
              "boot-end-datagram" + L, datagrams[-1])
    got_image = []
    for k in range(n):
        d = _items(datagrams[1 + k])
        want_len = min(BLOCK, len(image) - BLOCK * k)
        ctx.prove(len(d) >= 18 and (len(d) - 18) % 4 == 0 and
                  len(d) - 18 <= BLOCK,
                  "boot-block-size" + L, (k, len(d)))
        if len(d) < 18 or (len(d) - 18) % 4:
            return
        ctx.prove(len(d) - 18 == want_len, "boot-block-length" + L,
                  (k, len(d) - 18, want_len))
        words = (len(d) - 18) // 4
        hdr = d[:18]
        ctx.prove(_eq_items(hdr[:6], [0, 1] + _be(3, 4)),
                  "boot-block-opcode" + L, (k, hdr[:6]))
        ctx.prove(_eq_items(hdr[9:10], [k]), "boot-block-number" + L,
                  (k, hdr[9]))
        count_ok = _eq_items(hdr[6:9], _be(BLOCK // 4 - 1, 3))
        if words != BLOCK // 4:
            count_ok = sor(count_ok, _eq_items(hdr[6:9], _be(words - 1, 3)))
            ctx.witness("short-last-block")
        ctx.prove(count_ok, "boot-block-word-count" + L, (k, hdr[6:9]))
        ctx.prove(_eq_items(hdr[10:18], [0] * 8),
                  "boot-block-unused-arguments" + L, (k, hdr[10:18]))
        # undo the word-wise byte swap
        for j in range(words):
            w = d[18 + 4 * j:22 + 4 * j]
            got_image.extend(reversed(w))
    if n > 1:
        ctx.witness("several-blocks")
    ctx.prove(len(got_image) == len(image), "boot-image-length" + L,
              (len(got_image), len(image)))
    if len(got_image) != len(image):
        return
    img = _items(image)
    ctx.prove(sand(_eq_items(got_image[:CONF_OFFSET], img[:CONF_OFFSET]),
                   _eq_items(got_image[CONF_OFFSET + CONF_LENGTH:],
                             img[CONF_OFFSET + CONF_LENGTH:])),
              "boot-image-mismatch" + L)

    # ---- configuration area: this call's options only ------------------------
    conf = got_image[CONF_OFFSET:CONF_OFFSET + CONF_LENGTH]
    vals = _expected_values(rec, sv_entries)
    area, clock_pos = _expected_area(vals, sv_entries, CONF_LENGTH)
    plain = [i for i in range(CONF_LENGTH) if i not in clock_pos]
    ctx.prove(_eq_items([conf[i] for i in plain], [area[i] for i in plain]),
              "boot-config-area" + L,
              [(i, conf[i], area[i]) for i in plain
               if is_sym(conf[i]) or is_sym(area[i]) or conf[i] != area[i]]
              [:12])
    if any(is_sym(v) for _, v in rec.options):
        ctx.witness("symbolic-option")
    # the clock fields hold a clock reading of this call
    for cname in CLOCK_FIELDS:
        pos = sorted(p for p, (nm, _) in clock_pos.items() if nm == cname)
        if not pos:
            continue
        got = [conf[p] for p in pos]
        ctx.prove(sor(*[_eq_items(got, _le(r, 4)[:len(pos)])
                        for r in log.readings]) if log.readings else False,
                  "boot-clock-field" + L, (cname, got, list(log.readings)))

    # ---- the returned structs describe what was sent ------------------------
    _check_structs(ctx, env, rec, vals, conf, L)

    # ---- the caller's dictionary ---------------------------------------
    _check_caller_dict(ctx, rec)


def _check_caller_dict(ctx, rec):
    if rec.caller_dict is None:
        return
    d, snap = rec.caller_dict, rec.caller_snapshot
    same = (sorted(d) == sorted(snap) and all(d[k] is snap[k] for k in snap))
    ctx.prove(same, "boot-caller-dict-mutated", (sorted(d), sorted(snap)))
    ctx.witness("caller-dict")


def _check_structs(ctx, env, rec, vals, conf, L):
    structs = rec.structs
    ref = env.structs_ref
    ctx.prove(isinstance(structs, dict) and
              sorted(structs) == sorted(s.encode() for s in ref),
              "boot-returned-structs" + L, repr(structs)[:200])
    if not isinstance(structs, dict) or b"sv" not in structs:
        return
    for sname, sref in ref.items():
        st = structs.get(sname.encode())
        if st is None:
            continue
        want = _last_entries(sref["entries"])
        got = getattr(st, "fields", None)
        ok = (isinstance(got, dict) and
              sorted(got) == sorted(k.encode() for k in want) and
              st.size == sref["size"] and st.base == sref["base"])
        ctx.prove(ok, "boot-returned-struct-layout" + L, sname)
        if not ok:
            continue
        conds = []
        for name, e in want.items():
            f = got[name.encode()]
            py = PERL_TO_PY[e[1]]
            if e[2] is not None:
                py = "%d%s" % (e[2], py)
            if not (f.offset == e[3] and f.length == e[5] and
                    f.pack_chars in (py, py.encode())):
                conds.append(False)
                continue
            if sname == "sv" and name in CLOCK_FIELDS:
                conds.append(sor(*[f.default == r
                                   for r in rec.log.readings])
                             if rec.log.readings else False)
            elif sname == "sv":
                conds.append(f.default == vals[name])
            else:
                conds.append(f.default == e[4])
        ctx.prove(sand(*conds), "boot-returned-struct-values" + L, sname)
    # packing the returned sv struct again gives the bytes that were sent
    try:
        packed = structs[b"sv"].pack()
    except Exception as e:
        ctx.prove(False, "boot-returned-struct-pack" + L, repr(e))
        return
    packed = _items(packed)
    ctx.prove(_eq_items(packed[:CONF_LENGTH], conf),
              "boot-returned-struct-pack" + L)
    # Field by field, as VALUES: what is on the wire (bytes below 128; beyond
    # that, what the returned struct packs to) is exactly the default the
    # returned struct reports, and exactly the value this call asked for --
    # not that value truncated to the field's width.
    full = list(conf) + packed[CONF_LENGTH:]
    got = getattr(structs[b"sv"], "fields", None)
    if not isinstance(got, dict):
        return
    asked = dict((n, v) for n, v in rec.options
                 if n not in CLOCK_FIELDS and n != "root_chip")
    same_as_struct, same_as_asked, detail = [], [], []
    for name, e in _last_entries(ref["sv"]["entries"]).items():
        n, off = PERL_SIZE.get(e[1]), e[3]
        f = got.get(name.encode())
        if e[2] is not None or n is None or f is None or \
                off + n > len(full):
            continue
        wire = full[off:off + n]

        def holds(v):
            # the n little-endian bytes `wire` represent the integer v
            return sand(_eq_items(wire, _le(v, n)), (v >> (8 * n)) == 0)
        same_as_struct.append(holds(f.default))
        if name in asked:
            same_as_asked.append(holds(asked[name]))
            detail.append((name, wire, asked[name], f.default))
    ctx.prove(sand(*same_as_struct),
              "boot-returned-struct-differs-from-sent" + L, detail)
    ctx.prove(sand(*same_as_asked), "boot-option-truncated" + L, detail)


# ----------------------------------------------------------------------
# The harness
# ----------------------------------------------------------------------
def h_history(ctx, boots, seed, struct_variant=None, via_mc=False,
              symbolic_image=None):
    """`boots`: list of menus dict(images=, optsets=, modes=); one element of
    each is chosen per boot.  All boots of the history run in this path."""
    import rig.machine_control.boot as bootmod
    import rig.machine_control.struct_file as sfmod
    from sx import shims
    env = Env()
    env.bootmod = bootmod
    env.world = World(ctx)
    boot_dir = os.path.join(os.path.dirname(os.path.dirname(
        os.path.abspath(bootmod.__file__))), "boot")
    bundled_struct, bundled_image = _bundled(boot_dir)
    tmp = tempfile.mkdtemp(prefix="sx_c20_")
    files = {}

    def image_file(size):
        if size not in files:
            p = os.path.join(tmp, "image_%d.boot" % size)
            if symbolic_image is None or size != symbolic_image:
                with open(p, "wb") as f:
                    f.write(_image_bytes(size, seed))
            files[size] = p
        return files[size]
    env.image_file = image_file
    if struct_variant == "synthetic":
        env.struct_file = os.path.join(tmp, "synthetic.struct")
        with open(env.struct_file, "wb") as f:
            f.write(SYNTHETIC_STRUCT)
        struct_text = SYNTHETIC_STRUCT
    else:
        env.struct_file = None
        struct_text = bundled_struct
    env.structs_ref = parse_struct_file(struct_text.decode("ascii"))
    env.layout = _last_entries(env.structs_ref["sv"]["entries"])

    p = Patcher()
    presets_before = {n: dict(getattr(bootmod, n)) for n in PRESETS}
    try:
        # nothing an earlier path (or anything else in this process) did may
        # have touched boot()'s default arguments
        _check_defaults(ctx, bootmod)
        p.set(bootmod, "socket", env.world.socket_module)
        p.set(bootmod, "time", env.world.time_module)
        p.set(bootmod, "int", _int)
        p.set(bootmod, "struct", shims.struct)
        p.set(sfmod, "struct", shims.struct)
        for m in (bootmod, sfmod):
            p.set(m, "bytearray", _bytearray)
            p.set(m, "bytes", _bytes)
        sym_img = None
        if symbolic_image is not None:
            sym_img = ctx.bytes("image", symbolic_image)
            sym_path = image_file(symbolic_image)
            real_open = open

            class _F(object):
                def __enter__(self):
                    return self

                def __exit__(self, *exc):
                    return False

                def read(self):
                    return sym_img

            def fake_open(path, mode="r", *a, **k):
                if path == sym_path:
                    return _F()
                return real_open(path, mode, *a, **k)
            p.set(bootmod, "open", fake_open)
        if via_mc:
            import rig.machine_control.machine_controller as mcmod
            env.mcmod = mcmod
            p.set(mcmod, "SCPConnection", lambda *a, **k: None)

        for i, menu in enumerate(boots):
            tag = "ABCDEFGH"[i]
            image = ctx.pick(menu["images"])
            optset = ctx.pick(menu["optsets"])
            mode = ctx.pick(menu["modes"])
            fail_at = (ctx.pick(menu["send_fault"])
                       if menu.get("send_fault") else None)
            rec = _do_boot(ctx, env, image, optset, mode, tag, 50000 + i,
                           via_mc=via_mc, fail_at=fail_at)
            if image is None:
                rec.image_bytes = bundled_image
            elif image == symbolic_image:
                rec.image_bytes = sym_img
            else:
                rec.image_bytes = _image_bytes(image, seed)
            expect_error = menu.get("expect_error")
            if expect_error is not None:
                _check_rejected(ctx, env, rec, expect_error)
            else:
                _check_boot(ctx, env, rec, first=(i == 0))
            if via_mc and rec.error is None:
                ctx.prove(rec.mc.structs is rec.structs and
                          rec.mc.boot_port == rec.port,
                          "boot-controller-structs")
        # the presets are inputs of later boots: they must still say what
        # they said
        for n in PRESETS:
            now, was = getattr(bootmod, n), presets_before[n]
            ctx.prove(sorted(now) == sorted(was) and
                      all(now[k] is was[k] for k in was),
                      "boot-preset-changed", n)
        _check_defaults(ctx, bootmod)
    finally:
        for d in _default_dicts(bootmod):
            d.clear()
        for n in PRESETS:
            getattr(bootmod, n).clear()
            getattr(bootmod, n).update(presets_before[n])
        p.restore()
        shutil.rmtree(tmp, ignore_errors=True)


def _check_rejected(ctx, env, rec, expect):
    """A boot that may be refused (observed, not claimed -- see META): which
    exception, and whether anything had been sent."""
    log = rec.log
    name = "ok" if rec.error is None else type(rec.error).__name__
    ctx.observe(rec.tag, name, [d for (_, d, _) in log.events])
    if rec.error is None:
        ctx.witness("accepted")
        if expect == "before-sending":
            ctx.prove(False, "boot-oversize-image-accepted",
                      (len(rec.image_bytes), len(log.events)))
            return
        if expect == "observe-only":
            return      # outside the claim: nothing is demanded
        # an accepted call is held to the whole property: in particular an
        # over-wide value that was not refused must be on the wire, and in
        # the returned structs, as the value that was asked for
        _check_boot(ctx, env, rec, first=False)
        return
    # which exception is raised is observed, not claimed
    ctx.witness("rejected")
    if any(kind == "wide" for kind, _ in rec.optset):
        ctx.witness("rejected-wide-value")
    if expect == "before-sending":
        # size limit: part of the property ("images below the size limit")
        ctx.prove(len(log.events) == 0,
                  "boot-oversize-image-not-refused-cleanly",
                  (name, len(log.events)))
    _check_caller_dict(ctx, rec)


# ----------------------------------------------------------------------
# Units
# ----------------------------------------------------------------------
QUICK_FIELDS = [
    # 8 bit
    "hw_ver", "p2p_up", "link_en", "bt_flags",
    # 16 bit
    "p2p_addr", "cpu_clk", "shm_root.max",
    # 32 bit
    "led0", "random", "sdram_heap", "utmp3", "shm_root.free",
    # a name that is also a parameter of boot()
    "boot_delay",
    # beyond the 128 bytes that are sent
    "num_cpus", "sdram_base", "rtr_free",
    # set by boot() itself
    "root_chip",
    # spare words inside the configuration area (names with underscores)
    "__PAD2", "__PAD3",
]


def _sv_field_names():
    repo = os.environ.get("RIG_REPO", "/repo")
    text, _ = _bundled(os.path.join(repo, "rig", "boot"))
    ref = parse_struct_file(text.decode("ascii"))
    return list(_last_entries(ref["sv"]["entries"]))


def units(tier, seed):
    thorough = tier == "thorough"
    us = []
    NONE = ()
    presets = [(("preset", n),) for n in PRESETS]
    MODES = ("kwargs", "dict")
    MODES3 = ("kwargs", "dict", "split")
    rnd = random.Random("c20 units %d" % seed)

    all_fields = _sv_field_names()
    fields = list(all_fields) if thorough else list(QUICK_FIELDS)
    singles = [(("sym", f),) for f in fields]
    # pairs: every field appears in some pair, partner of another pack type
    # where possible
    order = list(fields)
    rnd.shuffle(order)
    pairs = [(("sym", a), ("sym", b))
             for a, b in zip(order, order[1:] + order[:1])]
    if not thorough:
        pairs = pairs[:8]
    pairs += [(("preset", "spin3_boot_options"), ("sym", "led1")),
              (("sym", "hw_ver"), ("sym", "led0")),
              (("sym", "unix_time"), ("sym", "boot_sig"))]
    sizes = [512, 1024, 1028, 2048, 3068]

    def add(name, boots, wit=("booted",), split=0, **kw):
        params = dict(boots=boots, seed=seed)
        params.update(kw)
        us.append(Unit(name, h_history, params, split=split,
                       witnesses=wit, path_timeout_s=120))

    def menu(images, optsets, modes=("kwargs",), **kw):
        d = dict(images=list(images), optsets=list(optsets),
                 modes=list(modes))
        d.update(kw)
        return d

    # ---- one boot --------------------------------------------------------
    add("one boot: every image size x few option sets",
        [menu(sizes + [None, SIZE_LIMIT - 4],
              [NONE, presets[2], (("sym", "led0"),),
               (("sym", "p2p_addr"), ("sym", "utmp3"))], MODES)],
        wit=("booted", "short-last-block", "several-blocks",
             "symbolic-option", "caller-dict"), split=2)
    add("one boot: every option set x passing mode",
        [menu([1028], [NONE] + presets + singles + pairs, MODES3)],
        wit=("booted", "symbolic-option", "caller-dict",
             "short-last-block"), split=2)
    # the socket reports a stale "connection refused" on one send (which
    # then transmits nothing): boot() may raise, but a boot() that returns
    # is held to the whole property; the next boot of the history is an
    # ordinary one
    add("one boot: a send reports connection refused, then an ordinary boot",
        [menu([1028, 512], [NONE, (("sym", "led0"),)],
              send_fault=(0, 1, 2, 3), expect_error="network"),
         menu([512], [NONE])],
        wit=("booted", "rejected"), split=2)
    add("one boot: synthetic struct file",
        [menu([1028, 512],
              [NONE, (("sym", "first"),), (("sym", "odd_half"),),
               (("sym", "odd_word"),), (("sym", "straddle"),),
               (("sym", "near_end"), ("sym", "beyond")),
               (("sym", "hw_ver"), ("sym", "led0")),
               (("sym", "mid"), ("sym", "root_chip")),
               (("sym", "tail"),)], MODES)],
        wit=("booted", "symbolic-option"), struct_variant="synthetic",
        split=2)
    add("one boot: symbolic image",
        [menu([1028], [NONE, (("sym", "hw_ver"), ("sym", "led0"))])],
        wit=("booted", "short-last-block"), symbolic_image=1028)
    if thorough:
        add("one boot: symbolic image of two full blocks",
            [menu([2048], [presets[4]])], symbolic_image=2048)

    # ---- rejected boots --------------------------------------------------
    add("size limit: 32 KiB image refused before anything is sent",
        [menu([SIZE_LIMIT], [NONE, presets[0]], expect_error="before-sending"),
         menu([1024], [NONE])],
        wit=("rejected", "booted"))
    add("observed: image length not a multiple of 4, then a clean boot",
        [menu([1026, 1023, 2049], [NONE, (("sym", "led0"),)],
              expect_error="observe-only"),
         menu([1024], [NONE])],
        wit=("booted",))

    # ---- histories of two boots -------------------------------------------
    first_sets = presets + singles + pairs[:4]
    later_small = [NONE, presets[4], (("sym", "led1"),)]
    if thorough:
        later_small.append((("sym", "hw_ver"),))
    add("two boots: A with options, B arbitrary",
        [menu([1028], first_sets, MODES3),
         menu([2048], later_small, MODES)],
        wit=("booted", "symbolic-option", "caller-dict"), split=3)
    add("two boots: bundled image and defaults, preset then nothing",
        [menu([None], presets + [(("sym", "hw_ver"), ("sym", "led0"))],
              MODES),
         menu([None], [NONE])],
        wit=("booted", "several-blocks"), split=2)
    add("two boots: refused options, then a boot without options",
        [menu([1028], [(("unknown", "no_such_field"),),
                       (("sym", "led0"), ("unknown", "no_such_field")),
                       (("wide", "hw_ver"),),
                       (("sym", "led0"), ("wide", "cpu_clk")),
                       (("preset", "spin2_boot_options"),
                        ("wide", "utmp0"))],
              MODES3, expect_error="observe"),
         menu([1028], [NONE, presets[3]])],
        wit=("booted", "rejected-wide-value", "accepted"),
        split=2)
    add("two boots through MachineController.boot",
        [menu([1028], [NONE, presets[2], (("sym", "hw_ver"), ("sym", "led0")),
                       (("sym", "link_en"),),
                       # a variable named like a parameter of boot()
                       (("sym", "boot_delay"), ("sym", "led1"))], MODES3),
         menu([1028, None], [NONE, presets[0]])],
        wit=("booted", "symbolic-option"), via_mc=True, split=2)
    add("two boots: synthetic struct file",
        [menu([1028], [(("sym", "first"),), (("sym", "straddle"),),
                       (("sym", "hw_ver"), ("sym", "led0"))], MODES3),
         menu([512], [NONE, (("sym", "mid"),)])],
        wit=("booted", "symbolic-option"), struct_variant="synthetic")

    # ---- histories of three boots -------------------------------------------
    three_first = [presets[0], presets[2], (("sym", "hw_ver"), ("sym", "led0")),
                   (("sym", "link_en"),), (("sym", "cpu_clk"),),
                   (("sym", "boot_delay"),), (("sym", "sdram_base"),)]
    three_second = [NONE, presets[4], (("sym", "led0"),), (("sym", "led1"),)]
    if thorough:
        three_first = presets + singles[::3] + pairs[:6]
        three_second = [NONE] + presets[3:] + [(("sym", "led0"),),
                                               (("sym", "led1"),),
                                               (("sym", "p2p_dims"),)]
    add("three boots",
        [menu([1028], three_first, MODES),
         menu([512], three_second, MODES if thorough else ("kwargs",)),
         menu([2048], [NONE, presets[1], (("sym", "hw_ver"),)])],
        wit=("booted", "symbolic-option", "caller-dict"), split=3)
    if thorough:
        add("three boots: every field, then twice nothing",
            [menu([1028], singles, MODES3),
             menu([1024], [NONE]),
             menu([None], [NONE])],
            wit=("booted", "symbolic-option"), split=3)
        add("two boots: every pair, then a preset or nothing",
            [menu([3068], pairs, MODES3),
             menu([1028], [NONE] + presets, MODES)],
            wit=("booted", "symbolic-option"), split=3)
    return us
