"""Symbolic proxies: objects that ordinary Python code can compute with and
that record z3 terms.  Using one as a `bool` asks the engine to branch."""
import z3
from .engine import cur, Unsupported, Inconclusive

W = 64          # width of bit-vector backed integers
_M = (1 << W) - 1
_BVCONST = {}    # value -> z3 constant (ASTs are immutable; reuse them)

__all__ = ["SymBool", "SymInt", "SymReal", "SymBytes", "SymByteArray",
           "evaluate", "is_sym", "const", "W", "ite", "smin", "smax",
           "sand", "sor", "snot", "simplies", "as_bool_expr", "same_truth",
           "SymMemoryView"]


def _eng():
    e = cur()
    if e is None:
        raise Unsupported("proxy used outside an engine run")
    return e


# ----------------------------------------------------------------------
# Booleans
# ----------------------------------------------------------------------
class SymBool(object):
    __slots__ = ("e",)

    def __init__(self, e):
        self.e = e

    def __bool__(self):
        return _eng().branch(self.e)

    def _o(self, o):
        if isinstance(o, SymBool):
            return o.e
        if isinstance(o, bool):
            return z3.BoolVal(o)
        if isinstance(o, SymInt):
            return o.e != 0
        return None

    def __and__(self, o):
        o = self._o(o)
        return NotImplemented if o is None else SymBool(z3.And(self.e, o))
    __rand__ = __and__

    def __or__(self, o):
        o = self._o(o)
        return NotImplemented if o is None else SymBool(z3.Or(self.e, o))
    __ror__ = __or__

    def __xor__(self, o):
        o = self._o(o)
        return NotImplemented if o is None else SymBool(z3.Xor(self.e, o))
    __rxor__ = __xor__

    def __invert__(self):
        return SymBool(z3.Not(self.e))

    def __eq__(self, o):
        o = self._o(o)
        return NotImplemented if o is None else SymBool(self.e == o)

    def __ne__(self, o):
        o = self._o(o)
        return NotImplemented if o is None else SymBool(self.e != o)

    def __hash__(self):
        return 0x5158

    def __int__(self):
        return int(bool(self))

    __index__ = __int__

    def __add__(self, o):
        return SymInt(z3.If(self.e, 1, 0)) + o
    __radd__ = __add__

    def __repr__(self):
        return "SymBool(%s)" % (self.e,)

    def __format__(self, spec):
        return "<symbool>"


def as_bool_expr(c):
    """z3 Bool for a SymBool / bool / SymInt (truthiness) / z3 Bool."""
    if isinstance(c, SymBool):
        return c.e
    if isinstance(c, z3.BoolRef):
        return c
    if isinstance(c, SymInt):
        return c.e != 0
    return z3.BoolVal(bool(c))


def _plain(cs):
    return all(not isinstance(c, (SymBool, SymInt, z3.ExprRef)) for c in cs)


def sand(*cs):
    """Non-forking conjunction (plain bool when nothing is symbolic)."""
    if _plain(cs):
        return all(bool(c) for c in cs)
    cs = [as_bool_expr(c) for c in cs]
    return SymBool(z3.And(cs))


def sor(*cs):
    if _plain(cs):
        return any(bool(c) for c in cs)
    cs = [as_bool_expr(c) for c in cs]
    return SymBool(z3.Or(cs))


def snot(c):
    if _plain([c]):
        return not c
    return SymBool(z3.Not(as_bool_expr(c)))


def simplies(a, b):
    if _plain([a, b]):
        return (not a) or bool(b)
    return SymBool(z3.Implies(as_bool_expr(a), as_bool_expr(b)))


# ----------------------------------------------------------------------
# Integers
# ----------------------------------------------------------------------
def _is_pow2(n):
    return n > 0 and n & (n - 1) == 0


def _runs(mask):
    """Maximal runs of one bits of a non-negative mask: [(lo, width)]."""
    out = []
    i = 0
    while mask >> i:
        if (mask >> i) & 1:
            j = i
            while (mask >> j) & 1:
                j += 1
            out.append((i, j - i))
            i = j
        else:
            i += 1
    return out


class SymInt(object):
    """An integer whose value is a z3 term, either a mathematical Int or a
    64-bit two's complement bit-vector (for code that masks and shifts)."""
    # k0 / k1: bits known to be 0 / 1 whatever the model (a cheap bitwise
    # abstract domain for bit-vector backed values; both 0 = nothing known).
    # It only short-cuts work the solver would otherwise do: loops such as
    # `sum(1 for i in range(32) if xs & (1 << i))` over mostly-constant words.
    __slots__ = ("e", "k0", "k1")

    def __init__(self, e, k0=0, k1=0):
        self.e = e
        self.k0 = k0
        self.k1 = k1

    # -- helpers -------------------------------------------------------
    @property
    def is_bv(self):
        return z3.is_bv(self.e)

    @staticmethod
    def _known(o):
        """(k0, k1) of an operand of a bit operation, or None."""
        if isinstance(o, SymInt):
            return (o.k0, o.k1)
        if isinstance(o, bool):
            o = int(o)
        if isinstance(o, int):
            return (~o & _M, o & _M)
        return None

    @staticmethod
    def _from_known(k0, k1):
        """A constant proxy when every bit is known, else None."""
        if (k0 | k1) == _M:
            e = _BVCONST.get(k1)
            if e is None:
                e = _BVCONST[k1] = z3.BitVecVal(k1, W)
            return SymInt(e, k0, k1)
        return None

    def _coerce(self, o):
        """Return (a, b, is_bv) with both operands in a common sort, or None
        if `o` is not integer-like."""
        if isinstance(o, SymInt):
            b = o.e
        elif isinstance(o, bool):
            b = int(o)
        elif isinstance(o, int):
            b = o
        elif isinstance(o, SymBool):
            b = z3.If(o.e, 1, 0)
        elif isinstance(o, float) and o == int(o):
            b = int(o)
        else:
            return None
        a = self.e
        if z3.is_bv(a):
            if isinstance(b, int):
                if not -(1 << (W - 1)) <= b < (1 << W):
                    raise Unsupported("constant %d exceeds %d bits" % (b, W))
                b = z3.BitVecVal(b, W)
            elif not z3.is_bv(b):
                b = z3.Int2BV(b, W)
            return a, b, True
        if isinstance(b, int):
            return a, z3.IntVal(b), False
        if z3.is_bv(b):
            # Mixed: promote the Int side to a bit-vector
            return z3.Int2BV(a, W), b, True
        return a, b, False

    def _arith(self, o, fi, fb, ovf=None, swap=False):
        c = self._coerce(o)
        if c is None:
            return NotImplemented
        a, b, isbv = c
        if swap:
            a, b = b, a
        if isbv:
            if ovf is not None:
                for cond in ovf(a, b):
                    _eng().side_condition(cond, "64-bit overflow")
            return SymInt(fb(a, b))
        return SymInt(fi(a, b))

    # -- + - * -----------------------------------------------------------
    def __add__(s, o):
        return s._arith(o, lambda a, b: a + b, lambda a, b: a + b,
                        lambda a, b: (z3.BVAddNoOverflow(a, b, True),
                                      z3.BVAddNoUnderflow(a, b)))

    def __radd__(s, o):
        return s.__add__(o)

    def __sub__(s, o):
        return s._arith(o, lambda a, b: a - b, lambda a, b: a - b,
                        lambda a, b: (z3.BVSubNoOverflow(a, b),
                                      z3.BVSubNoUnderflow(a, b, True)))

    def __rsub__(s, o):
        return s._arith(o, lambda a, b: a - b, lambda a, b: a - b,
                        lambda a, b: (z3.BVSubNoOverflow(a, b),
                                      z3.BVSubNoUnderflow(a, b, True)),
                        swap=True)

    def __mul__(s, o):
        return s._arith(o, lambda a, b: a * b, lambda a, b: a * b,
                        lambda a, b: (z3.BVMulNoOverflow(a, b, True),
                                      z3.BVMulNoUnderflow(a, b)))

    def __rmul__(s, o):
        return s.__mul__(o)

    def __neg__(s):
        return 0 - s

    def __pos__(s):
        return s

    def __abs__(s):
        return SymInt(z3.If(s.e < 0, -s.e, s.e))

    # -- // % ------------------------------------------------------------
    @staticmethod
    def _floordiv_int(a, b):
        # z3 Int div rounds so that the remainder is non-negative; Python
        # floors.  They agree for b > 0; for b < 0 use floor(a/b) =
        # floor(-a / -b).
        if z3.is_int_value(b):
            bv = b.as_long()
            if bv > 0:
                return a / b
            if bv < 0:
                return (-a) / z3.IntVal(-bv)
            raise ZeroDivisionError("integer division or modulo by zero")
        return z3.If(b > 0, a / b, (-a) / (-b))

    @staticmethod
    def _floordiv_bv(a, b):
        q = a / b             # signed, truncating
        r = z3.SRem(a, b)
        adj = z3.And(r != 0, (r < 0) != (b < 0))
        return z3.If(adj, q - 1, q)

    @staticmethod
    def _mod_bv(a, b):
        r = z3.SRem(a, b)
        adj = z3.And(r != 0, (r < 0) != (b < 0))
        return z3.If(adj, r + b, r)

    def _nonzero(self, b):
        """Fork on a symbolic divisor being zero, as Python would raise."""
        if z3.is_int_value(b) or z3.is_bv_value(b):
            if (b.as_long() if z3.is_int_value(b) else b.as_long()) == 0:
                raise ZeroDivisionError(
                    "integer division or modulo by zero")
            return
        if _eng().branch(b == 0):
            raise ZeroDivisionError("integer division or modulo by zero")

    def __floordiv__(s, o):
        if s.is_bv and isinstance(o, int) and not isinstance(o, bool) \
                and _is_pow2(o):
            # two's complement: floor division by 2**k is an arithmetic
            # shift (no divider circuit for the solver)
            return s >> (o.bit_length() - 1)
        c = s._coerce(o)
        if c is None:
            return NotImplemented
        a, b, isbv = c
        s._nonzero(b)
        return SymInt(s._floordiv_bv(a, b) if isbv
                      else s._floordiv_int(a, b))

    def __rfloordiv__(s, o):
        c = s._coerce(o)
        if c is None:
            return NotImplemented
        b, a, isbv = c
        s._nonzero(b)
        return SymInt(s._floordiv_bv(a, b) if isbv
                      else s._floordiv_int(a, b))

    def __mod__(s, o):
        if s.is_bv and isinstance(o, int) and not isinstance(o, bool) \
                and _is_pow2(o):
            # two's complement: the floor remainder modulo 2**k is the low
            # k bits, whatever the sign
            return s & (o - 1)
        c = s._coerce(o)
        if c is None:
            return NotImplemented
        a, b, isbv = c
        s._nonzero(b)
        if isbv:
            return SymInt(s._mod_bv(a, b))
        return SymInt(a - b * s._floordiv_int(a, b))

    def __rmod__(s, o):
        c = s._coerce(o)
        if c is None:
            return NotImplemented
        b, a, isbv = c
        s._nonzero(b)
        if isbv:
            return SymInt(s._mod_bv(a, b))
        return SymInt(a - b * s._floordiv_int(a, b))

    def __divmod__(s, o):
        return (s // o, s % o)

    def __truediv__(s, o):
        raise Unsupported("true division of a symbolic integer")

    __rtruediv__ = __truediv__

    def __pow__(s, o):
        if isinstance(o, int) and 0 <= o <= 4:
            r = 1
            for _ in range(o):
                r = s * r
            return r
        raise Unsupported("symbolic exponentiation")

    def __rpow__(s, o):
        # 2 ** sym: concretise the exponent
        return o ** int(s)

    # -- bit operations --------------------------------------------------
    def _int_and_const(self, a, m):
        """a & m on a mathematical integer for a constant m."""
        if m >= 0:
            terms = []
            for lo, width in _runs(m):
                terms.append(((a / (1 << lo)) % (1 << width)) * (1 << lo))
            return z3.Sum(terms) if terms else z3.IntVal(0)
        # m negative: a & m = a - (a & ~m)
        return a - self._int_and_const(a, ~m)

    def _bitop(self, o, op):
        k0 = k1 = 0
        if z3.is_bv(self.e):
            # known-bits fast path (no z3 term is built when the result is
            # a constant)
            kb = self._known(o)
            if kb is not None and (not isinstance(o, SymInt) or o.is_bv):
                a0, a1, (b0, b1) = self.k0, self.k1, kb
                if op == "and":
                    k0, k1 = a0 | b0, a1 & b1
                elif op == "or":
                    k0, k1 = a0 & b0, a1 | b1
                else:
                    k0, k1 = (a0 & b0) | (a1 & b1), (a0 & b1) | (a1 & b0)
                r = self._from_known(k0, k1)
                if r is not None:
                    return r
        c = self._coerce(o)
        if c is None:
            return NotImplemented
        a, b, isbv = c
        if isbv:
            return SymInt({"and": a & b, "or": a | b, "xor": a ^ b}[op],
                          k0, k1)
        # Int backing: one side must be a constant
        if z3.is_int_value(b):
            m = b.as_long()
        elif z3.is_int_value(a):
            m = a.as_long()
            a = b
        else:
            raise Unsupported("bit operation on two Int-backed symbols; "
                              "use bit-vector backing")
        x = self._int_and_const(a, m)
        if op == "and":
            return SymInt(x)
        if op == "or":
            return SymInt(a + m - x)
        return SymInt(a + m - 2 * x)

    def __and__(s, o):
        return s._bitop(o, "and")
    __rand__ = __and__

    def __or__(s, o):
        return s._bitop(o, "or")
    __ror__ = __or__

    def __xor__(s, o):
        return s._bitop(o, "xor")
    __rxor__ = __xor__

    def __invert__(s):
        if s.is_bv:
            return s._from_known(s.k1, s.k0) or SymInt(~s.e, s.k1, s.k0)
        return SymInt(-s.e - 1)

    def _shift_amount(self, o):
        if isinstance(o, SymInt):
            v = z3.simplify(o.e)
            if z3.is_int_value(v) or z3.is_bv_value(v):
                return v.as_long()
            return None
        if isinstance(o, int):
            return o
        return NotImplemented

    def __lshift__(s, o):
        n = s._shift_amount(o)
        if n is NotImplemented:
            return NotImplemented
        if n is None:
            if s.is_bv:
                c = s._coerce(o)
                a, b, _ = c
                _eng().side_condition(z3.And(b >= 0, b < W - 1),
                                      "shift amount")
                _eng().side_condition(z3.LShR(a << b, b) == a,
                                      "64-bit overflow (<<)")
                return SymInt(a << b)
            n = int(o)
        if n < 0:
            raise ValueError("negative shift count")
        if s.is_bv:
            k0 = ((s.k0 << n) | ((1 << n) - 1)) & _M
            k1 = (s.k1 << n) & _M
            top = _M & ~((1 << (W - 1 - n)) - 1) if n < W - 1 else _M
            if s.k0 & top == top:
                # no set bit can be shifted out: no overflow possible
                return s._from_known(k0, k1) or SymInt(s.e << n, k0, k1)
            r = s.e << n
            _eng().side_condition((r >> n) == s.e, "64-bit overflow (<<)")
            return SymInt(r, k0, k1)
        return SymInt(s.e * (1 << n))

    def __rlshift__(s, o):
        # const << sym
        if isinstance(o, int):
            if s.is_bv:
                b = s.e
                _eng().side_condition(
                    z3.And(b >= 0, b < W - 1 - max(o, 1).bit_length()),
                    "shift amount")
                return SymInt(z3.BitVecVal(o, W) << b)
            return o << int(s)
        return NotImplemented

    def __rshift__(s, o):
        n = s._shift_amount(o)
        if n is NotImplemented:
            return NotImplemented
        if n is None:
            if s.is_bv:
                a, b, _ = s._coerce(o)
                _eng().side_condition(z3.And(b >= 0, b < W), "shift amount")
                return SymInt(a >> b)
            n = int(o)
        if n < 0:
            raise ValueError("negative shift count")
        if s.is_bv:
            sign = 1 << (W - 1)
            fill = _M & ~((1 << max(W - n, 0)) - 1) if n > 0 else 0
            k0 = (s.k0 >> n) | (fill if s.k0 & sign else 0)
            k1 = (s.k1 >> n) | (fill if s.k1 & sign else 0)
            return (s._from_known(k0, k1) or
                    SymInt(s.e >> n, k0, k1))    # arithmetic, as Python
        return SymInt(s.e / (1 << n))     # floor for positive divisor

    def __rrshift__(s, o):
        if isinstance(o, int):
            if s.is_bv:
                b = s.e
                _eng().side_condition(z3.And(b >= 0, b < W), "shift amount")
                return SymInt(z3.BitVecVal(o, W) >> b)
            return o >> int(s)
        return NotImplemented

    def bit_length(s):
        return abs(int(s)).bit_length()

    # -- comparisons ---------------------------------------------------
    def _cmp(s, o, f):
        if isinstance(o, SymReal):
            return NotImplemented
        c = s._coerce(o)
        if c is None:
            if isinstance(o, float):
                if s.is_bv:
                    raise Unsupported("bit-vector compared with a float")
                return SymBool(f(z3.ToReal(s.e), z3.RealVal(repr(o))))
            return NotImplemented
        a, b, _ = c
        return SymBool(f(a, b))

    def __eq__(s, o):
        r = s._cmp(o, lambda a, b: a == b)
        return r

    def __ne__(s, o):
        return s._cmp(o, lambda a, b: a != b)

    def __lt__(s, o):
        return s._cmp(o, lambda a, b: a < b)

    def __le__(s, o):
        return s._cmp(o, lambda a, b: a <= b)

    def __gt__(s, o):
        return s._cmp(o, lambda a, b: a > b)

    def __ge__(s, o):
        return s._cmp(o, lambda a, b: a >= b)

    def __bool__(s):
        if s.k1:
            return True
        if s.k0 == _M:
            return False
        return _eng().branch(s.e != 0)

    def __hash__(s):
        # Uniform hash: dict/set lookups among proxies fall through to
        # __eq__, i.e. to a solver-decided branch.  Never mix proxies and
        # plain ints as keys of one container (use sx.const()).
        return 0x5157

    # -- leaving the symbolic world ------------------------------------
    def __index__(s):
        return _eng().concretise(s.e)

    __int__ = __index__

    def __float__(s):
        return float(_eng().concretise(s.e))

    def __round__(s, n=None):
        return s

    def __trunc__(s):
        return s

    def __repr__(s):
        return "Sym(%s)" % (z3.simplify(s.e),)

    __str__ = __repr__

    def __format__(s, spec):
        return "<sym>"


def const(v, bv=True):
    """A constant wrapped as a proxy (for the uniform-hash discipline); a
    plain int in concrete mode."""
    e = cur()
    if e is not None and not e.symbolic:
        return v
    if bv:
        return SymInt(z3.BitVecVal(v, W), ~v & _M, v & _M)
    return SymInt(z3.IntVal(v))


def ite(c, a, b):
    """Non-forking conditional on integers or booleans."""
    if not isinstance(c, (SymBool, SymInt, z3.ExprRef)):
        return a if c else b
    ce = z3.simplify(as_bool_expr(c))
    if z3.is_true(ce):
        return a
    if z3.is_false(ce):
        return b
    if (isinstance(a, (SymBool, bool)) and isinstance(b, (SymBool, bool))):
        return SymBool(z3.If(ce, as_bool_expr(a), as_bool_expr(b)))
    ref = a if isinstance(a, SymInt) else (
        b if isinstance(b, SymInt) else SymInt(z3.IntVal(0)))
    _, ea, bva = ref._coerce(a)
    _, eb, bvb = ref._coerce(b)
    if bva != bvb:
        if bva:
            eb = z3.Int2BV(eb, W)
        else:
            ea = z3.Int2BV(ea, W)
    k0 = k1 = 0
    if bva and bvb:
        ka, kb = SymInt._known(a), SymInt._known(b)
        if ka is not None and kb is not None:
            k0, k1 = ka[0] & kb[0], ka[1] & kb[1]
    return SymInt(z3.If(ce, ea, eb), k0, k1)


def same_truth(c, flag):
    """`c` (symbolic or plain) has the truth value of the plain bool
    `flag`."""
    if isinstance(c, (SymBool, SymInt, z3.ExprRef)):
        return SymBool(as_bool_expr(c)) if flag else snot(c)
    return bool(c) == bool(flag)


def smin(a, b):
    return ite(a <= b, a, b) if (is_sym(a) or is_sym(b)) else min(a, b)


def smax(a, b):
    return ite(a >= b, a, b) if (is_sym(a) or is_sym(b)) else max(a, b)


# ----------------------------------------------------------------------
# Reals (clock readings, random.random())
# ----------------------------------------------------------------------
class SymReal(object):
    __slots__ = ("e",)

    def __init__(self, e):
        self.e = e

    @staticmethod
    def _c(o):
        if isinstance(o, SymReal):
            return o.e
        if isinstance(o, SymInt):
            if o.is_bv:
                return z3.ToReal(z3.BV2Int(o.e, True))
            return z3.ToReal(o.e)
        if isinstance(o, bool):
            return z3.RealVal(int(o))
        if isinstance(o, int):
            return z3.RealVal(o)
        if isinstance(o, float):
            from fractions import Fraction
            f = Fraction(o)
            return z3.RealVal(f.numerator) / z3.RealVal(f.denominator)
        try:
            from fractions import Fraction
            if isinstance(o, Fraction):
                return z3.RealVal(o.numerator) / z3.RealVal(o.denominator)
        except Exception:
            pass
        return None

    def _b(s, o, f, swap=False):
        b = s._c(o)
        if b is None:
            return NotImplemented
        return SymReal(f(b, s.e) if swap else f(s.e, b))

    def __add__(s, o): return s._b(o, lambda a, b: a + b)
    __radd__ = __add__
    def __sub__(s, o): return s._b(o, lambda a, b: a - b)
    def __rsub__(s, o): return s._b(o, lambda a, b: a - b, True)
    def __mul__(s, o): return s._b(o, lambda a, b: a * b)
    __rmul__ = __mul__
    def __truediv__(s, o): return s._b(o, lambda a, b: a / b)
    def __rtruediv__(s, o): return s._b(o, lambda a, b: a / b, True)
    def __neg__(s): return SymReal(-s.e)

    def _k(s, o, f):
        b = s._c(o)
        if b is None:
            return NotImplemented
        return SymBool(f(s.e, b))

    def __eq__(s, o): return s._k(o, lambda a, b: a == b)
    def __ne__(s, o): return s._k(o, lambda a, b: a != b)
    def __lt__(s, o): return s._k(o, lambda a, b: a < b)
    def __le__(s, o): return s._k(o, lambda a, b: a <= b)
    def __gt__(s, o): return s._k(o, lambda a, b: a > b)
    def __ge__(s, o): return s._k(o, lambda a, b: a >= b)
    def __hash__(s): return 0x5159
    def __bool__(s): return _eng().branch(s.e != 0)

    def __int__(s):
        # floor toward zero of a real: concretise ToInt
        e = z3.If(s.e >= 0, z3.ToInt(s.e), -z3.ToInt(-s.e))
        return _eng().concretise(e)

    def __repr__(s): return "SymReal(%s)" % (s.e,)
    def __format__(s, spec): return "<symreal>"


# ----------------------------------------------------------------------
# Byte strings with symbolic content and concrete length
# ----------------------------------------------------------------------
def _byte_expr(b):
    """8-bit z3 term for a byte item (int or BV8 expr)."""
    if isinstance(b, int):
        return z3.BitVecVal(b, 8)
    return b


def _byte_item(v):
    """Normalise something assigned into a byte container."""
    if isinstance(v, SymInt):
        e = v.e
        if z3.is_bv(e):
            if e.size() == 8:
                return e
            if v.k0 & (_M & ~0xff) != (_M & ~0xff):
                _eng().side_condition(z3.ULT(e, 256), "byte value in range")
            return z3.simplify(z3.Extract(7, 0, e))
        _eng().side_condition(z3.And(e >= 0, e < 256), "byte value in range")
        return z3.simplify(z3.Extract(7, 0, z3.Int2BV(e, 8)))
    if isinstance(v, int):
        if not 0 <= v < 256:
            raise ValueError("byte must be in range(0, 256)")
        return v
    if z3.is_bv(v) and v.size() == 8:
        return v
    raise TypeError("not a byte: %r" % (v,))


def _resolve_index(i, n):
    """A concrete index for a possibly symbolic one: forks over the effective
    positions only (at most n+1 cases)."""
    if isinstance(i, SymInt):
        eng = _eng()
        # Clip into [-n-1, n+1] first so the fork count is bounded whatever
        # the domain of i.
        for k in range(-n, n + 1):
            if eng.branch(as_bool_expr(i == k)):
                return k
        if eng.branch(as_bool_expr(i > n)):
            return n + 1
        return -n - 1
    return i


class SymBytes(object):
    """Immutable byte string: a list of byte items (int or BV8 term)."""
    __slots__ = ("items",)
    mutable = False

    def __init__(self, items=()):
        if isinstance(items, (bytes, bytearray)):
            items = list(items)
        elif isinstance(items, SymBytes):
            items = list(items.items)
        elif isinstance(items, int):
            items = [0] * items
        self.items = [(_byte_item(x) if not isinstance(x, int) else x)
                      for x in items]

    def __len__(self):
        return len(self.items)

    def _wrap(self, items):
        return type(self)(items)

    def __getitem__(self, i):
        n = len(self.items)
        if isinstance(i, slice):
            step = i.step
            if step not in (None, 1):
                raise Unsupported("extended slice of symbolic bytes")
            start = None if i.start is None else _resolve_index(i.start, n)
            stop = None if i.stop is None else _resolve_index(i.stop, n)
            return self._wrap(self.items[slice(start, stop)])
        i = _resolve_index(i, n)
        b = self.items[i]
        if isinstance(b, int):
            return b
        return SymInt(z3.ZeroExt(W - 8, b), _M & ~0xff, 0)

    def __iter__(self):
        for k in range(len(self.items)):
            yield self[k]

    def __add__(self, o):
        if isinstance(o, (bytes, bytearray)):
            return self._wrap(self.items + list(o))
        if isinstance(o, SymBytes):
            return self._wrap(self.items + o.items)
        return NotImplemented

    def __radd__(self, o):
        if isinstance(o, (bytes, bytearray)):
            return self._wrap(list(o) + self.items)
        return NotImplemented

    def __mul__(self, k):
        return self._wrap(self.items * int(k))

    def __eq__(self, o):
        if isinstance(o, (bytes, bytearray)):
            o = SymBytes(o)
        if not isinstance(o, SymBytes):
            return NotImplemented
        if len(o.items) != len(self.items):
            return False
        conds = []
        for a, b in zip(self.items, o.items):
            if isinstance(a, int) and isinstance(b, int):
                if a != b:
                    return False
            else:
                conds.append(_byte_expr(a) == _byte_expr(b))
        if not conds:
            return True
        return SymBool(z3.And(conds))

    def __ne__(self, o):
        r = self.__eq__(o)
        if r is NotImplemented:
            return r
        if isinstance(r, bool):
            return not r
        return ~r

    def __hash__(self):
        return 0x515a

    def __bool__(self):
        return len(self.items) > 0

    def is_concrete(self):
        return all(isinstance(b, int) for b in self.items)

    def __bytes__(self):
        if self.is_concrete():
            return bytes(self.items)
        raise Unsupported("bytes() of symbolic content")

    # text operations: only for content that is concrete (a slice with
    # concrete items cut out of a partly symbolic datagram)
    def decode(self, *a, **k):
        return bytes(self).decode(*a, **k)

    def strip(self, *a):
        return bytes(self).strip(*a)

    def rstrip(self, *a):
        return bytes(self).rstrip(*a)

    def __repr__(self):
        return "SymBytes(%d)" % len(self.items)

    def __format__(self, spec):
        return "<symbytes>"


class SymByteArray(SymBytes):
    __slots__ = ()
    mutable = True

    def __setitem__(self, i, v):
        n = len(self.items)
        if isinstance(i, slice):
            if i.step not in (None, 1):
                raise Unsupported("extended slice assignment")
            start = 0 if i.start is None else _resolve_index(i.start, n)
            stop = n if i.stop is None else _resolve_index(i.stop, n)
            if isinstance(v, (bytes, bytearray)):
                new = list(v)
            elif isinstance(v, SymBytes):
                new = list(v.items)
            else:
                new = [_byte_item(x) for x in v]
            self.items[slice(start, stop)] = new
            return
        i = _resolve_index(i, n)
        self.items[i] = _byte_item(v)

    def extend(self, o):
        self.items.extend(SymBytes(o).items)

    def __iadd__(self, o):
        self.extend(o)
        return self


class SymMemoryView(object):
    """memoryview over a SymByteArray: slices alias the same storage."""
    __slots__ = ("base", "start", "stop")

    def __init__(self, base, start=0, stop=None):
        if isinstance(base, SymMemoryView):
            start, stop, base = base.start, base.stop, base.base
        self.base = base
        self.start = start
        self.stop = len(base) if stop is None else stop

    def __len__(self):
        return self.stop - self.start

    def _bounds(self, sl):
        n = len(self)
        if sl.step not in (None, 1):
            raise Unsupported("extended memoryview slice")
        start = 0 if sl.start is None else _resolve_index(sl.start, n)
        stop = n if sl.stop is None else _resolve_index(sl.stop, n)
        start, stop, _ = slice(start, stop).indices(n)
        stop = max(start, stop)
        return self.start + start, self.start + stop

    def __getitem__(self, i):
        if isinstance(i, slice):
            a, b = self._bounds(i)
            return SymMemoryView(self.base, a, b)
        i = _resolve_index(i, len(self))
        if i < 0:
            i += len(self)
        if not 0 <= i < len(self):
            raise IndexError("index out of bounds")
        return self.base[self.start + i]

    def __setitem__(self, i, v):
        if isinstance(i, slice):
            a, b = self._bounds(i)
            n = len(v)
            if n != b - a:
                raise ValueError("memoryview assignment: lvalue and rvalue "
                                 "have different structures")
            self.base[a:b] = v
            return
        i = _resolve_index(i, len(self))
        if i < 0:
            i += len(self)
        if not 0 <= i < len(self):
            raise IndexError("index out of bounds")
        self.base[self.start + i] = v

    def tobytes(self):
        return SymBytes(self.base.items[self.start:self.stop])


# ----------------------------------------------------------------------
def is_sym(x):
    return isinstance(x, (SymInt, SymBool, SymReal, SymBytes))


def _eval_expr(e, m):
    v = m.eval(e, model_completion=True)
    if z3.is_int_value(v):
        return v.as_long()
    if z3.is_bv_value(v):
        return v.as_signed_long() if v.size() == W else v.as_long()
    if z3.is_true(v):
        return True
    if z3.is_false(v):
        return False
    if z3.is_rational_value(v):
        from fractions import Fraction
        return Fraction(v.numerator_as_long(), v.denominator_as_long())
    if z3.is_fp(v):
        from .engine import _fp_to_float
        return _fp_to_float(v)
    raise Inconclusive("cannot evaluate %s under the model" % (e,))


def evaluate(obj, m):
    """Replace every proxy inside obj by its value under model m."""
    if isinstance(obj, (SymInt, SymBool, SymReal)):
        return _eval_expr(obj.e, m)
    ev = getattr(obj, "_sx_evaluate", None)     # proxies of other modules
    if ev is not None:                          # (sx.fp.SymFloat, WideInt)
        return ev(m)
    if isinstance(obj, SymBytes):
        return bytes(b if isinstance(b, int) else _eval_expr(b, m)
                     for b in obj.items)
    if isinstance(obj, SymMemoryView):
        return evaluate(obj.tobytes(), m)
    if isinstance(obj, z3.ExprRef):
        return _eval_expr(obj, m)
    if isinstance(obj, tuple):
        return tuple(evaluate(x, m) for x in obj)
    if isinstance(obj, list):
        return [evaluate(x, m) for x in obj]
    if isinstance(obj, (set, frozenset)):
        return sorted((evaluate(x, m) for x in obj), key=repr)
    if isinstance(obj, dict):
        return {evaluate(k, m): evaluate(v, m) for k, v in obj.items()}
    return obj
