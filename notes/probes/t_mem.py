import sys, time, warnings
warnings.simplefilter("ignore")
sys.path.insert(0, "/tmp/proto"); sys.path.insert(0, "/tmp/scr")
import z3
from symex import *
from symint_lia import IntS, iv
from rig.machine_control.machine_controller import MemoryIO

class SBytes:
    def __init__(self, items): self.items = list(items)
    def __len__(self): return len(self.items)
    def __getitem__(self, sl):
        assert isinstance(sl, slice) and sl.start is None and sl.step is None
        L = len(self.items); s_ = sl.stop
        if isinstance(s_, IntS):
            eff = z3.If(s_.e <= -L, 0, z3.If(s_.e < 0, L + s_.e, z3.If(s_.e > L, L, s_.e)))
            s_ = Engine.cur.concretize(eff)
        return SBytes(self.items[:s_])

class FakeMC:
    def __init__(self): self.ops = []
    def read(self, addr, n, x, y, p): self.ops.append(("r", addr, n)); return b"\0" * (n if isinstance(n, int) else int(n))
    def write(self, addr, data, x, y, p): self.ops.append(("w", addr, len(data)))

def body(eng):
    start = IntS.var("start", 0, 2**32); ln = IntS.var("len", 0, 2**20)
    mc = FakeMC(); m = MemoryIO(mc, 0, 0, start, start + ln)
    off = IntS.var("off"); whence = eng.concretize(IntS.var("wh", 0, 2).e)
    m.seek(off, whence)
    n = eng.concretize(IntS.var("n", 0, 3).e)
    m.write(SBytes(b"abc"[:n]))
    conds = [z3.And(iv(a) >= start.e, iv(a) + iv(k) <= start.e + ln.e) for (_, a, k) in mc.ops]
    mod = eng.prove(z3.And(*conds)) if conds else None
    if mod is None: return "ok"
    return ("VIOL", whence, n, {str(d): mod[d] for d in mod.decls() if str(d).split("_")[0] in ("start", "len", "off")})
eng = Engine(); t = time.time(); eng.explore(body)
viol = [r for r in eng.results if r != "ok"]
print("paths", eng.paths, "wall %.1f" % (time.time() - t), "violations", len(viol)); print(viol[:3])
