import sys, time, warnings, struct as real_struct
warnings.simplefilter("ignore")
sys.path.insert(0, "/tmp/proto"); sys.path.insert(0, "/tmp/scr")
import z3
from symex import *
from rig.machine_control import scp_connection as sc
from rig.machine_control.scp_connection import SCPConnection, scpcall, TimeoutError as ScpTimeout, FatalReturnCodeError

class RealS:
    def __init__(self, e): self.e = e
    def _v(o):
        return o.e if isinstance(o, RealS) else z3.RealVal(o)
    def __add__(s, o): return RealS(s.e + RealS._v(o))
    __radd__ = __add__
    def __sub__(s, o): return RealS(s.e - RealS._v(o))
    def __rsub__(s, o): return RealS(RealS._v(o) - s.e)
    def __lt__(s, o): return SymBool(s.e < RealS._v(o))
    def __le__(s, o): return SymBool(s.e <= RealS._v(o))
    def __gt__(s, o): return SymBool(s.e > RealS._v(o))
    def __ge__(s, o): return SymBool(s.e >= RealS._v(o))

class World:
    def __init__(self, eng, budget_dup):
        self.eng = eng; self.now = RealS(z3.RealVal(0)); self.sent = []  # (bytes, time)
        self.pending = []  # replies deliverable: (seq)
        self.dup = budget_dup
        self.ready = None
        self.delivered = []
    def time(self):
        d = self.eng.fresh("dt", z3.RealSort()); self.eng.solver.add(d >= 0)
        self.now = RealS(self.now.e + d); return self.now
    def choose(self, n):
        c = self.eng.fresh("ch", z3.IntSort()); self.eng.solver.add(c >= 0, c < n)
        return self.eng.concretize(c)
    def select(self, r, w, x, timeout):
        opts = ["none"] + [("rep", i) for i in range(len(self.pending))]
        k = self.choose(len(opts))
        if k == 0:
            t = timeout.e if isinstance(timeout, RealS) else z3.RealVal(timeout)
            d = self.eng.fresh("wt", z3.RealSort()); self.eng.solver.add(d > t, d > 0)
            self.now = RealS(self.now.e + d)
            return [], [], []
        seq = self.pending[k-1]
        if self.dup > 0 and self.choose(2) == 1:
            self.dup -= 1
        else:
            self.pending.pop(k-1)
        self.ready = seq
        return [self], [], []

class Sock:
    def __init__(self, w): self.w = w
    def setblocking(self, b): pass
    def send(self, data):
        rc, seq = real_struct.unpack_from("<2H", data, 10)
        self.w.sent.append((seq, self.w.now))
        # loss of request: choose
        if self.w.choose(2) == 0:
            self.w.pending.append(seq)
    def recv(self, n):
        if self.w.ready is None: raise IOError()
        seq = self.w.ready; self.w.ready = None
        self.w.delivered.append(seq)
        return b"\0" * 10 + real_struct.pack("<2H", 0x80, seq) + b"\0" * 12

def run(burst, window, n_tries, dup):
    def body(eng):
        w = World(eng, dup)
        sc.time = type("T", (), {"time": staticmethod(w.time)})
        sc.select = type("S", (), {"select": staticmethod(w.select)})
        conn = SCPConnection.__new__(SCPConnection)
        conn.default_timeout = 0.5; conn.sock = Sock(w); conn.n_tries = n_tries; conn.seq = sc.seqs()
        calls = []
        def mk(i):
            def cb(p): calls.append(i)
            return cb
        pk = [scpcall(0, 0, 0, 1, callback=mk(i)) for i in range(burst)]
        try:
            conn.send_scp_burst(256, window, pk)
            out = "ok"
            assert sorted(calls) == list(range(burst)), calls
        except ScpTimeout:
            out = "timeout"
        return out, len(w.sent)
    eng = Engine(); t = time.time(); eng.explore(body, max_paths=200000)
    from collections import Counter
    print("burst=%d win=%d tries=%d dup=%d paths=%d checks=%d wall=%.1f solver=%.1f" % (burst, window, n_tries, dup, eng.paths, eng.checks, time.time()-t, eng.solver_time), dict(Counter(r[0] for r in eng.results)), "maxsent", max(r[1] for r in eng.results))
    sys.stdout.flush()
run(1, 1, 2, 0); run(1,1,3,1); run(2, 1, 2, 0); run(2, 2, 2, 0); run(2, 2, 2, 1); run(3,2,2,0)
