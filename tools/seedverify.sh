#!/bin/bash
# tools/seedverify.sh <ID> <name> <patch> <demo>
# Confirms a seeded change in a fresh scratch worktree of /repo (removed
# afterwards): patch applies, demo exits 1 with it and 0 without, the 475
# baseline tests still pass with it.  Then stores it under seeded/<name>/.
ID=$1; NAME=$2; PATCH=$3; DEMO=$4
W=/tmp/sv_$NAME
git -C /repo worktree add -q --detach $W HEAD || exit 3
cp "$DEMO" $W/demo.py
( cd $W && PYTHONDONTWRITEBYTECODE=1 /venv/bin/python -W ignore demo.py >/tmp/sv_$NAME.without.txt 2>&1 ); RC0=$?
git -C $W apply "$PATCH" || { echo "patch does not apply"; git -C /repo worktree remove --force $W; exit 3; }
( cd $W && PYTHONDONTWRITEBYTECODE=1 /venv/bin/python -W ignore demo.py >/tmp/sv_$NAME.with.txt 2>&1 ); RC1=$?
BASE=$(/verif/tools/baseline.sh $W | head -1); BRC=$?
git -C /repo worktree remove --force $W
echo "demo without change: exit $RC0; with change: exit $RC1; baseline with change: $BASE"
mkdir -p /verif/seeded/$NAME
cp "$PATCH" /verif/seeded/$NAME/patch.diff
cp "$DEMO" /verif/seeded/$NAME/demo.py
tail -5 /tmp/sv_$NAME.with.txt > /verif/seeded/$NAME/demo_with_change.txt
tail -3 /tmp/sv_$NAME.without.txt > /verif/seeded/$NAME/demo_without_change.txt
rm -f /tmp/sv_$NAME.with.txt /tmp/sv_$NAME.without.txt
[ $RC0 -eq 0 ] && [ $RC1 -eq 1 ] && echo CONFIRMED || echo NOT-CONFIRMED
