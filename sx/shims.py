"""Models of C-level library functions that must accept symbolic proxies.
Concrete arguments are delegated to the real functions, so the same shims are
used unchanged in concrete mode."""
import re
import struct as _real_struct
import z3

from .engine import cur, Unsupported
from .proxies import (SymInt, SymBytes, SymByteArray, SymMemoryView, W,
                      SymBool)

_SIZES = {"x": 1, "B": 1, "b": 1, "H": 2, "h": 2, "I": 4, "i": 4, "L": 4,
          "l": 4, "Q": 8, "q": 8, "s": 1, "c": 1, "?": 1}
_SIGNED = set("bhilq")
_TOKEN = re.compile(r"\s*(\d*)([xBbHhIiLlQqsc?])")


def _parse(fmt):
    if isinstance(fmt, bytes):
        fmt = fmt.decode("ascii")
    fmt = fmt.strip()
    order = "@"
    if fmt and fmt[0] in "<>!=@":
        order = fmt[0]
        fmt = fmt[1:]
    if order == "@":
        # native alignment: rig only uses it for "4B"; refuse anything that
        # would need padding.  A single H/h/I/i item (rig's
        # get_processor_status unpacks each vcpu field with its bare pack
        # character) has no padding and the standard size; on a little-endian
        # host -- asserted -- native order is "<".
        single = re.fullmatch(r"\s*1?[HhIi]\s*", fmt) is not None
        if single:
            import sys
            if sys.byteorder != "little":
                raise Unsupported("native struct format on a big-endian host")
        elif any(c in fmt for c in "HhIiLlQq"):
            raise Unsupported("native-aligned struct format %r" % fmt)
        order = "<"
    little = order in "<="
    items = []
    pos = 0
    while pos < len(fmt):
        m = _TOKEN.match(fmt, pos)
        if not m:
            if fmt[pos:].strip() == "":
                break
            raise _real_struct.error("bad char in struct format")
        pos = m.end()
        count = int(m.group(1)) if m.group(1) else 1
        code = m.group(2)
        if code == "s":
            items.append(("s", count))
        elif code == "x":
            items.append(("x", count))
        else:
            for _ in range(count):
                items.append((code, 1))
    return little, items


def _symbolic(v):
    if isinstance(v, (SymInt, SymBool)):
        return True
    if isinstance(v, SymMemoryView):
        return True
    if isinstance(v, SymBytes):
        return not v.is_concrete()
    return False


def _concrete_bytes(v):
    if isinstance(v, SymMemoryView):
        v = v.tobytes()
    if isinstance(v, SymBytes):
        return bytes(v.items)
    return v


class StructShim(object):
    error = _real_struct.error
    Struct = _real_struct.Struct

    @staticmethod
    def calcsize(fmt):
        return _real_struct.calcsize(fmt)

    # ------------------------------------------------------------------
    def _pack_items(self, fmt, values):
        little, items = _parse(fmt)
        out = []
        vi = 0
        nvals = sum(1 for c, _ in items if c != "x")
        if nvals != len(values):
            raise _real_struct.error(
                "pack expected %d items for packing (got %d)" % (
                    nvals, len(values)))
        for code, count in items:
            if code == "x":
                out.extend([0] * count)
                continue
            v = values[vi]
            vi += 1
            if code == "s":
                if isinstance(v, SymBytes):
                    data = list(v.items)
                else:
                    data = list(bytes(v))
                data = (data + [0] * count)[:count]
                out.extend(data)
                continue
            size = _SIZES[code]
            if isinstance(v, SymBool):
                v = SymInt(z3.If(v.e, z3.BitVecVal(1, W), z3.BitVecVal(0, W)))
            if isinstance(v, SymInt):
                e = v.e
                if not z3.is_bv(e):
                    e = z3.Int2BV(e, W)
                    inrange = (v >= (-(1 << (8 * size - 1))
                                     if code in _SIGNED else 0)) & \
                        (v < ((1 << (8 * size - 1)) if code in _SIGNED
                              else (1 << (8 * size))))
                else:
                    if code in _SIGNED:
                        lo, hi = -(1 << (8 * size - 1)), 1 << (8 * size - 1)
                    else:
                        lo, hi = 0, 1 << (8 * size)
                    inrange = SymBool(z3.And(e >= lo, e < hi)) \
                        if size < 8 or code in _SIGNED else \
                        SymBool(z3.BoolVal(True))
                if not bool(inrange):
                    # as CPython: out-of-range argument
                    raise _real_struct.error(
                        "'%s' format requires in-range number" % code)
                bs = [z3.simplify(z3.Extract(8 * k + 7, 8 * k, e))
                      for k in range(size)]
                bs = [b.as_long() if z3.is_bv_value(b) else b for b in bs]
                if not little:
                    bs.reverse()
                out.extend(bs)
            else:
                out.extend(_real_struct.pack(
                    ("<" if little else ">") + code, v))
        return out

    def pack(self, fmt, *values):
        if not any(_symbolic(v) for v in values):
            return _real_struct.pack(fmt, *[_concrete_bytes(v)
                                            for v in values])
        return SymBytes(self._pack_items(fmt, values))

    def pack_into(self, fmt, buf, offset, *values):
        if (not any(_symbolic(v) for v in values) and
                not isinstance(buf, (SymBytes, SymMemoryView))):
            return _real_struct.pack_into(fmt, buf, offset, *values)
        items = self._pack_items(fmt, values)
        offset = int(offset)
        if offset < 0:
            offset += len(buf)
        if offset < 0 or offset + len(items) > len(buf):
            raise _real_struct.error("pack_into requires a buffer of at "
                                     "least %d bytes" % (offset + len(items)))
        if isinstance(buf, (SymByteArray, SymMemoryView)):
            buf[offset:offset + len(items)] = SymBytes(items)
        else:
            raise Unsupported("pack_into of symbolic data into a real buffer")

    # ------------------------------------------------------------------
    def _unpack_items(self, fmt, data):
        little, items = _parse(fmt)
        out = []
        pos = 0
        for code, count in items:
            if code == "x":
                pos += count
                continue
            if code == "s":
                out.append(SymBytes(data[pos:pos + count]))
                pos += count
                continue
            size = _SIZES[code]
            bs = data[pos:pos + size]
            pos += size
            if all(isinstance(b, int) for b in bs):
                out.append(_real_struct.unpack(
                    ("<" if little else ">") + code, bytes(bs))[0])
                continue
            es = [z3.BitVecVal(b, 8) if isinstance(b, int) else b
                  for b in bs]
            if little:
                es = list(reversed(es))       # most significant first
            word = z3.Concat(*es) if len(es) > 1 else es[0]
            if size * 8 < W:
                word = (z3.SignExt(W - size * 8, word) if code in _SIGNED
                        else z3.ZeroExt(W - size * 8, word))
            elif code not in _SIGNED:
                raise Unsupported("unsigned 64-bit symbolic unpack")
            out.append(SymInt(z3.simplify(word)))
        return tuple(out)

    def unpack(self, fmt, data):
        if isinstance(data, SymMemoryView):
            data = data.tobytes()
        if not isinstance(data, SymBytes):
            return _real_struct.unpack(fmt, data)
        if data.is_concrete():
            return _real_struct.unpack(fmt, bytes(data.items))
        if len(data) != _real_struct.calcsize(fmt):
            raise _real_struct.error(
                "unpack requires a buffer of %d bytes" %
                _real_struct.calcsize(fmt))
        return self._unpack_items(fmt, data.items)

    def unpack_from(self, fmt, buffer, offset=0):
        if isinstance(buffer, SymMemoryView):
            buffer = buffer.tobytes()
        if not isinstance(buffer, SymBytes):
            return _real_struct.unpack_from(fmt, buffer, offset)
        offset = int(offset)
        size = _real_struct.calcsize(fmt)
        if offset < 0:
            offset += len(buffer)
        if offset < 0 or len(buffer) - offset < size:
            raise _real_struct.error(
                "unpack_from requires a buffer of at least %d bytes for "
                "unpacking %d bytes at offset %d (actual buffer size is %d)"
                % (offset + size, size, offset, len(buffer)))
        items = buffer.items[offset:offset + size]
        if all(isinstance(b, int) for b in items):
            return _real_struct.unpack(fmt, bytes(items))
        return self._unpack_items(fmt, items)


struct = StructShim()


def selftest():
    """Differential test of the shim against the real struct module on
    concrete arguments wrapped so that the symbolic code path is taken."""
    import random
    from . import engine as E
    rnd = random.Random(1)
    fmts = ["<2x8B", "<2H", "<I", "!H4I", "!I", "<2H 3I", "<18BHI", "<4I",
            "<16I", "!4B", "4B", "<B", "<4s 6s 3H I 2H B", "<h", "<i"]
    eng = E.Engine(validate=False)
    n = 0

    def run(ctx):
        nonlocal n
        for fmt in fmts:
            little, items = _parse(fmt)
            for _ in range(20):
                vals = []
                sym = []
                for code, count in items:
                    if code == "x":
                        continue
                    if code == "s":
                        b = bytes(rnd.randrange(256) for _ in range(count))
                        vals.append(b)
                        sym.append(SymBytes([z3.BitVecVal(x, 8) for x in b]))
                        continue
                    size = _SIZES[code]
                    if code in _SIGNED:
                        v = rnd.randrange(-(1 << (8*size-1)), 1 << (8*size-1))
                    else:
                        v = rnd.randrange(0, 1 << (8 * size))
                    vals.append(v)
                    sym.append(SymInt(z3.BitVecVal(v, W)))
                want = _real_struct.pack(fmt, *vals)
                got = StructShim()._pack_items(fmt, sym)
                got = bytes(b if isinstance(b, int) else
                            z3.simplify(b).as_long() for b in got)
                assert got == want, (fmt, vals, got, want)
                back = StructShim()._unpack_items(
                    fmt, [z3.BitVecVal(b, 8) if i % 2 else b
                          for i, b in enumerate(want)])
                back2 = []
                for x in back:
                    if isinstance(x, SymInt):
                        back2.append(z3.simplify(x.e).as_signed_long())
                    elif isinstance(x, SymBytes):
                        back2.append(bytes(
                            b if isinstance(b, int) else
                            z3.simplify(b).as_long() for b in x.items))
                    else:
                        back2.append(x)
                assert tuple(back2) == _real_struct.unpack(fmt, want), (
                    fmt, back2, _real_struct.unpack(fmt, want))
                n += 1
    eng.explore(run)
    return n


if __name__ == "__main__":
    print("struct shim selftest: %d vectors ok" % selftest())
