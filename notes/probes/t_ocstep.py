import sys, time, itertools, warnings
warnings.simplefilter("ignore")
sys.path.insert(0, "/tmp/proto"); sys.path.insert(0, "/tmp/scr")
import z3
from symex import *
from rig.routing_table import RoutingTableEntry, Routes
from rig.routing_table import ordered_covering as oc
F = 0xffffffff
WBITS = int(sys.argv[1]); WIN = (1 << WBITS) - 1
R = [frozenset({Routes.north}), frozenset({Routes.south})]

def run(N, nalias, routes):
    def body(eng):
        P = SymInt.var("P", 0, F)
        def km(name):
            m = SymInt.var("m" + name, 0, WIN); k = SymInt.var("k" + name, 0, WIN)
            mask = m | (F & ~WIN); key = (P & (F & ~WIN)) | k
            eng.assume((key & ~mask & F) == 0)
            return key, mask
        ents = [km("e%d" % i) for i in range(N)]
        table = [RoutingTableEntry(routes[i], k, m) for i, (k, m) in enumerate(ents)]
        aliases = {}
        al = []
        for i in range(N):
            if nalias[i] == 0:
                al.append([ents[i]])
            else:
                a = [km("a%d_%d" % (i, j)) for j in range(nalias[i])]
                al.append(a)
                aliases[ents[i]] = set(a)
        def gen(k, m):
            xs = ~k.e & ~m.e & WIN
            return z3.Sum([z3.ZeroExt(8, z3.Extract(b, b, xs)) for b in range(WBITS)]) if WBITS > 1 else z3.ZeroExt(8, z3.Extract(0, 0, xs))
        # distinct key-masks (dict keys)
        for i, j in itertools.combinations(range(N), 2):
            eng.solver.add(z3.Or(ents[i][0].e != ents[j][0].e, ents[i][1].e != ents[j][1].e))
        # I1 sorted
        for i in range(N - 1):
            eng.solver.add(z3.ULE(gen(*ents[i]), gen(*ents[i + 1])))
        def match(kv, kmp):  # kv is concrete window value combined with P
            key = (P.e & (F & ~WIN)) | kv
            return (key & kmp[1].e) == kmp[0].e
        # I2 alias subset of entry ; I3 no hiding  (expanded over window values)
        for v in range(WIN + 1):
            for i in range(N):
                for a in al[i]:
                    eng.solver.add(z3.Implies(match(v, a), match(v, ents[i])))
            for i in range(N):
                for j in range(i + 1, N):
                    for a in al[j]:
                        eng.solver.add(z3.Implies(z3.And(match(v, a), match(v, ents[i])), z3.Or([match(v, a2) for a2 in al[i]])))
        if eng.check() != z3.sat: raise PathAbort()
        mg = oc._get_best_merge(table, aliases)
        if mg.goodness <= 0: return "nomerge"
        T2, A2 = mg.apply(aliases)
        # post: semantics preserved on domain, for symbolic window value pk
        pk = eng.fresh("pk", z3.BitVecSort(W)); eng.solver.add(pk >= 0, pk <= WIN)
        key = (P.e & (F & ~WIN)) | pk
        def m_(kmp): return (key & bv(kmp[1])) == bv(kmp[0])
        rid = {R[0]: 0, R[1]: 1}
        def sem(T):
            r = z3.IntVal(-1)
            for e in reversed(T):
                r = z3.If(m_((e.key, e.mask)), rid[e.route], r)
            return r
        dom = z3.Or([m_(a) for i in range(N) for a in al[i]])
        dom2 = z3.Or([m_(a) for e in T2 for a in A2.get((e.key, e.mask), {(e.key, e.mask)})])
        ok = eng.prove(z3.And(z3.Implies(dom, sem(T2) == sem(table)), dom == dom2))
        return "ok" if ok is None else ("VIOL", {str(d): ok[d] for d in ok.decls()}, [str(e) for e in T2])
    eng = Engine(); t = time.time(); eng.explore(body, max_paths=20000)
    from collections import Counter
    c = Counter(r if isinstance(r, str) else r[0] for r in eng.results)
    print("N=%d alias=%s routes=%s paths=%d checks=%d wall=%.1f" % (N, nalias, [rid for rid in map(lambda r: R.index(r), routes)], eng.paths, eng.checks, time.time() - t), dict(c)); sys.stdout.flush()
    for r in eng.results:
        if not isinstance(r, str): print(r); break
run(2, [0, 0], [R[0], R[0]])
run(3, [0, 0, 0], [R[0], R[0], R[1]])
run(3, [0, 0, 2], [R[0], R[0], R[1]])
run(3, [2, 0, 0], [R[0], R[1], R[0]])
run(3, [0, 2, 2], [R[0], R[0], R[1]])
